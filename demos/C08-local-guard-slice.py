"""C08 demo 3: a before_subscript_slice handler registered with a local guard (`guard=`), observing only.
Once the guard is activated the rewritten code takes the "untraced" alternative of the guarded
expression -- but for before_subscript_slice that alternative is a copy of the WHOLE subscript
`lst[0]`, not of the slice `0`, so the program evaluates lst[lst[0]].
For a subscript in Store/Del context the same mistake makes the module uncompilable."""
import ast
import sys
from types import FrameType

import pyccolo as pyc


class SliceOnce(pyc.BaseTracer):
    seen = 0

    @pyc.init_module
    def init_module(self, _ret, node, frame: FrameType, *_, **__):
        for guard in self.local_guards_by_module_id.get(id(node), []):
            frame.f_globals[guard] = False

    @pyc.before_subscript_slice(guard=lambda node: f"{pyc.PYCCOLO_BUILTIN_PREFIX}_{node.value.id}")
    def h(self, ret, node, frame, evt, guard, *_, **__):
        SliceOnce.seen += 1
        frame.f_globals[guard] = True   # one observation is enough (same idiom as test/test_local_guards.py)
        return None                     # observe only


def run(src):
    plain = {}
    exec(compile(src, "<plain>", "exec"), plain)
    traced = {}
    try:
        SliceOnce.clear_instance()
        SliceOnce.instance().exec_raw(ast.parse(src), traced, traced, "<sandbox_demo3>")
        err = None
    except BaseException as e:  # noqa
        err = "%s: %s" % (type(e).__name__, e)
    return plain, traced, err


bad = False
plain, traced, err = run("lst = [1, 0]\na = lst[0]\nb = lst[0]\n")
print("load : expected a=%r b=%r ; observed a=%r b=%r %s" % (plain["a"], plain["b"], traced.get("a"), traced.get("b"), err or ""))
bad |= (plain["a"], plain["b"]) != (traced.get("a"), traced.get("b"))

plain, traced, err = run("lst = [1, 0]\nlst[0] = 5\n")
print("store: expected lst=%r ; observed lst=%r %s" % (plain["lst"], traced.get("lst"), err or ""))
bad |= plain["lst"] != traced.get("lst")

if bad:
    print("VIOLATION: an observing before_subscript_slice handler with a local guard changed the program")
    sys.exit(1)
print("no violation")
sys.exit(0)
