"""demo8 (C12, "after the context the import system no longer instruments anything"): a spec / loader handed out by the
finder inside a tracing context keeps instrumenting after the context.  With the standard lazy-import recipe
(importlib.util.LazyLoader, also what the `lazy_loader` package does) the module body runs at first attribute access,
i.e. typically after the context: TraceLoader rewrites it then, and the unguarded module-level emit calls hit builtins
that the context exit removed -> NameError instead of the module."""
import json, os, shutil, subprocess, sys, tempfile, textwrap

import pyccolo  # from PYTHONPATH

LIB = os.path.dirname(os.path.dirname(os.path.abspath(pyccolo.__file__)))


def write(root, rel, src, mode="w"):
    path = os.path.join(root, rel)
    os.makedirs(os.path.dirname(path), exist_ok=True)
    with open(path, mode) as f:
        f.write(textwrap.dedent(src) if mode == "w" else src)
    return path


def run(root, code, *, pyargs=(), argv=None, write_bytecode=True, env_extra=None):
    """run `code` (or `argv`) in a fresh interpreter with cwd=root; returns (json after '@@' or None, CompletedProcess)"""
    env = dict(os.environ)
    for var in ("PYTHONDONTWRITEBYTECODE", "PYTHONOPTIMIZE", "PYTHONPYCACHEPREFIX"):
        env.pop(var, None)
    env["PYTHONPATH"] = os.pathsep.join([LIB, root])
    if not write_bytecode:
        env["PYTHONDONTWRITEBYTECODE"] = "1"
    env.update(env_extra or {})
    cmd = [sys.executable, *pyargs] + (list(argv) if argv else ["-c", textwrap.dedent(code)])
    p = subprocess.run(cmd, cwd=root, env=env, capture_output=True, text=True, timeout=50)
    res = None
    for line in p.stdout.splitlines():
        if line.startswith("@@"):
            res = json.loads(line[2:])
    return res, p


# a tracer module as a user would write it: accepts the files named in ACCEPT (basenames),
# logs (event, file, node type, line) for three events
TRC = '''
import json, os
import pyccolo as pyc

LOG = []
ACCEPT = {ACCEPT!r}


class T(pyc.BaseTracer):
    def should_instrument_file(self, filename):
        return os.path.basename(filename) in ACCEPT

    @pyc.register_raw_handler((pyc.after_assign_rhs, pyc.load_name, pyc.after_stmt))
    def log(self, ret, node_id, frame, event, *_, **__):
        node = self.ast_node_by_id.get(node_id)
        LOG.append([event.value, os.path.basename(frame.f_code.co_filename), type(node).__name__, getattr(node, "lineno", None)])
        return ret


def dump(**extra):
    print("@@" + json.dumps(dict(log=LOG, **extra)))
'''


SCENARIO = '''
import importlib.util, sys, trc

def lazy_import(name):          # recipe from the importlib documentation
    spec = importlib.util.find_spec(name)
    loader = importlib.util.LazyLoader(spec.loader)
    spec.loader = loader
    module = importlib.util.module_from_spec(spec)
    sys.modules[name] = module
    loader.exec_module(module)
    return module

%s
err = None
try:
    val = heavy.ANSWER              # first use: the module body runs now
except Exception as e:
    err, val = repr(e), None
trc.dump(err=err, val=val)
'''


def main():
    root = tempfile.mkdtemp(prefix="c12demo8_")
    try:
        write(root, "heavy.py", "BASE = 40\nANSWER = BASE + 2\n")
        write(root, "trc.py", TRC.replace("{ACCEPT!r}", repr({"heavy.py"})))
        plain, p = run(root, SCENARIO % "heavy = lazy_import('heavy')", write_bytecode=False)
        traced, p2 = run(root, SCENARIO % "with trc.T.instance().tracing_enabled():\n    heavy = lazy_import('heavy')", write_bytecode=False)
        assert plain and traced, (p.stderr, p2.stderr)
        if (plain["err"], plain["val"]) != (traced["err"], traced["val"]):
            print("VIOLATION")
            print("  expected (as without tracing; the body runs after the context): err=%r val=%r" % (plain["err"], plain["val"]))
            print("  observed: err=%r val=%r" % (traced["err"], traced["val"]))
            return 1
        print("ok")
        return 0
    finally:
        shutil.rmtree(root, ignore_errors=True)


if __name__ == "__main__":
    sys.exit(main())
