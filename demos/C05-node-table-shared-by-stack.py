"""C05: a tracer with requires_ast_bookkeeping=False sees different nodes / a different stream when stacked.

T1 (requires_ast_bookkeeping=False) subscribes to load_name, once unconditionally and once with
`when=lambda node: isinstance(node, ast.Name)`.  Alone, the node table is thrown away after the rewrite
(AstRewriter.visit: `if not any(tracer.requires_ast_bookkeeping ...)`), so its handlers get node=None and the
condition (asked about -1 at delivery) rejects everything.  Stacked with any tracer T2 that keeps bookkeeping,
the (class-level, shared) table stays, T1 receives real nodes and its conditional handler fires.
"""
import ast
import contextlib
import sys

import pyccolo as pyc

log = []


class T1(pyc.BaseTracer):
    requires_ast_bookkeeping = False

    @pyc.register_handler(pyc.load_name)
    def plain(self, ret, node, frame, event, *_, **__):
        log.append(("T1.plain", type(node).__name__))

    @pyc.register_handler(pyc.load_name, when=lambda node: isinstance(node, ast.Name))
    def conditional(self, ret, node, frame, event, *_, **__):
        log.append(("T1.conditional", type(node).__name__))


class T2(pyc.BaseTracer):
    requires_ast_bookkeeping = True  # the default

    @pyc.register_handler(pyc.after_int)
    def h(self, ret, node, frame, event, *_, **__):
        pass


def run(classes):
    log.clear()
    with contextlib.ExitStack() as st:
        for c in classes:
            st.enter_context(c.instance())
        env = {"x": 1}
        inst = classes[-1].instance()
        inst.exec_raw("x", env, env, filename=inst.make_sandbox_fname())
    for c in classes:
        c.clear_instance()
    return [entry for entry in log if entry[0].startswith("T1")]


alone = run([T1])
stacked_outer = run([T1, T2])
stacked_inner = run([T2, T1])
if alone != stacked_outer or alone != stacked_inner:
    print("VIOLATION (C05): T1's deliveries depend on the other tracer of the stack")
    print("expected (T1 alone)      :", alone)
    print("observed (T1 outer of T2):", stacked_outer)
    print("observed (T1 inner of T2):", stacked_inner)
    sys.exit(1)
print("ok", alone)
sys.exit(0)
