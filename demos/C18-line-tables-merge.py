"""C18 demo3: stmt_by_lineno_by_module_id is keyed by id() of the tree handed to the rewriter, an object
nobody keeps alive, and the line table of a replaced tree is "removed" under the NEW key.

(a) re-instrumenting a path leaves the complete line table of the old tree behind;
(b) as soon as a later tree (any file) gets the address of an earlier one, its line table is the union
    of both: lines of an unrelated, earlier program are served for the new module.

Expected: stmt_by_lineno_by_module_id[module_id] == {line: statement of THIS tree}; nothing of a replaced
tree left.  Observed: see output."""
import ast, sys
import pyccolo as pyc


class T(pyc.BaseTracer):
    @pyc.register_handler(pyc.after_stmt)
    def h(self, *a, **k):
        pass


def show(table):
    return {l: ast.unparse(s) for l, s in sorted(table.items())}


def part_a(t):
    with t.tracing_enabled():
        tree1 = ast.parse("a = 1\nb = 2\nc = 3\nd = 4\n")
        t.make_ast_rewriter('f_c18_demo3.py').visit(tree1)
        tree2 = ast.parse("x = 1\n")          # the file after an edit; tree1 is still referenced by the caller
        t.make_ast_rewriter('f_c18_demo3.py').visit(tree2)
    old = dict(T.stmt_by_lineno_by_module_id.get(id(tree1), {}))
    print('(a) line table of the replaced tree after re-instrumentation: expected {} observed', show(old))
    print('    (its statements are gone from ast_node_by_id:', all(id(s) not in T.ast_node_by_id for s in old.values()), ')')
    return bool(old)


def part_b(t):
    progs = ["a = 1\nb = 2\nc = 3\nd = 4\n", "x = 1\n", "p = 1\nq = 2\n", "z = 0\n"]
    for i in range(400):
        before = set(T.ast_bookkeeper_by_fname)
        t.exec(progs[i % len(progs)], {}, {})
        (fname,) = set(T.ast_bookkeeper_by_fname) - before
        bk = T.ast_bookkeeper_by_fname[fname]
        table = T.stmt_by_lineno_by_module_id[bk.module_id]
        if set(table) != set(bk.stmt_by_lineno) or any(table[l] is not s for l, s in bk.stmt_by_lineno.items()):
            print('(b) exec #%d (%s): expected line table %s' % (i, fname, show(bk.stmt_by_lineno)))
            print('    observed', show(table))
            foreign = [s for s in table.values() if id(s) not in bk.ast_node_by_id]
            owners = sorted({f for f, b in T.ast_bookkeeper_by_fname.items() for s in foreign if id(s) in b.ast_node_by_id})
            print('    the extra statements belong to', owners)
            return True
    print('(b) no address reuse in 400 runs')
    return False


if __name__ == '__main__':
    t = T.instance()
    a = part_a(t)
    b = part_b(t)
    sys.exit(1 if (a or b) else 0)
