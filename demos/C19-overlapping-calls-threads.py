"""C19 demo1: two overlapping calls of a decorated function from two threads.

Thread A enters the decorated function first, thread B second; A returns while B is still inside.
A's per-call tracing context pops the tracer, disables it and deletes the pyccolo builtins although
B's call is still running.  Result: (1) B's remaining events are lost, and (2) B's body is
EXECUTED A SECOND TIME from the start (the NameError fallback of the rewritten body re-runs the
uninstrumented copy of the whole body when the emit builtin has vanished).
"""
import sys
import threading
import warnings

warnings.simplefilter("ignore")
import pyccolo as pyc


class ThreadedTracer(pyc.BaseTracer):
    multiple_threads_allowed = True

    def __init__(self, *a, **k):
        super().__init__(*a, **k)
        self.evs = []

    @pyc.register_handler(pyc.after_assign_rhs)
    def handle_assign(self, ret, node, frame, *_, **__):
        self.evs.append((threading.current_thread().name, node.lineno))


tracer = ThreadedTracer.instance()
a_inside, b_inside, a_returned = threading.Event(), threading.Event(), threading.Event()
side_effects = []
results = {}


def body(who):
    side_effects.append(who)
    first = 1
    if who == "A":
        a_inside.set()
        b_inside.wait(10)  # A leaves only once B is inside
    else:
        a_inside.wait(10)  # B enters only once A is inside
        b_inside.set()
        a_returned.wait(10)  # ... and continues after A has returned
    last = 2
    return first + last


def plain_twin(who):  # what one call does to side_effects / returns
    return 3


decorated = tracer.instrumented(body)


def run_a():
    results["A"] = decorated("A")
    a_returned.set()


def run_b():
    try:
        results["B"] = decorated("B")
    except BaseException as e:  # noqa
        results["B"] = e


ta = threading.Thread(target=run_a, name="A")
tb = threading.Thread(target=run_b, name="B")
ta.start(); tb.start(); ta.join(20); tb.join(20)

expected_side = ["A", "B"]
expected_evs = sorted([("A", 3), ("A", 11), ("B", 3), ("B", 11)])  # linenos count from `def body` = 1 (see demo3)
ok = True
print("results:", results)
if side_effects != expected_side:
    ok = False
    print("side effects: expected", expected_side, "observed", side_effects, "(B's body ran twice)")
if sorted(tracer.evs) != expected_evs:
    ok = False
    print("events: expected", expected_evs, "observed", sorted(tracer.evs), "(B's `last = 2` was never delivered)")
if ok:
    print("no violation")
sys.exit(0 if ok else 1)
