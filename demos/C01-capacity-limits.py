"""demo8 (capacity): the rewrite adds try/finally and try/except blocks, and is itself recursive.
(a) CPython allows 20 statically nested blocks.  after_for_loop_iter / after_while_loop_iter wrap every loop
    body in try/finally, and every function body is wrapped in try/except NameError (any event): a function
    with 10 nested loops (after_for_loop_iter), or 19 nested loops (any event), no longer compiles.
(b) StatementInserter / ExprRewriter / pickle-based copy_ast recurse over the tree in Python: a 200-term
    `a + b + ...` chain (binop events) or a 500-term one (any event) raises RecursionError in the rewriter."""
import ast, sys
import pyccolo as pyc

def nested(n):
    return "def f():\n" + "".join("    " * (i + 1) + "for i%d in range(1):\n" % i for i in range(n)) + "    " * (n + 1) + "return 1\nr = f()\n"

CASES = [
    ("10 nested for loops", nested(10), (pyc.after_for_loop_iter,)),
    ("19 nested for loops", nested(19), (pyc.after_stmt,)),
    ("200-term sum", "r = " + " + ".join(["1"] * 200) + "\n", (pyc.after_binop,)),
    ("500-term sum", "r = " + " + ".join(["1"] * 500) + "\n", (pyc.after_stmt,)),
]
bad = False
for name, src, events in CASES:
    env0 = {}
    exec(compile(src, "<prog>", "exec"), env0)

    class T(pyc.BaseTracer):
        should_patch_meta_path = False
        instrument_all_files = True

        @pyc.register_raw_handler(events)
        def observe(self, ret, *_, **__):
            return None

    t = T.instance()
    with t.tracing_enabled():
        try:
            tree = t.make_ast_rewriter("<prog>").visit(ast.parse(src))
            env1 = {}
            exec(compile(tree, "<prog>", "exec"), env1)
            inst = "r = %r" % env1["r"]
        except (SyntaxError, RecursionError) as e:
            inst = "%s: %s" % (type(e).__name__, str(e)[:60])
            bad = True
    print("%-20s %-22s plain: r = %r   instrumented: %s" % (name, events[0].name, env0["r"], inst))
if bad:
    print("VIOLATION: well-formed programs that the rewriter cannot handle")
    sys.exit(1)
sys.exit(0)
