"""C07 (minor): tracer.eval(code, instrument=False) enters no context but leaves tracer._num_sandbox_calls_seen
at 2 for good; for a sys-level tracer every later tracer.exec() then delivers the 'call' events of the two
scaffold frames of the sandbox (`<module>` and `_X5ix_pyccolo_sandbox`), which are meant to be skipped.
"""
import sys

import pyccolo as pyc

LOG = []


class S(pyc.BaseTracer):
    @pyc.register_raw_handler(pyc.call)
    def handle_call(self, ret, node, frame, *_, **__):
        LOG.append(frame.f_code.co_name)


s = S.instance()
PROG = "def foo():\n    return 1\nfoo()\n"


def calls():
    del LOG[:]
    s.exec(PROG, {}, {})
    return list(LOG)


before_state, before = s._num_sandbox_calls_seen, calls()
value = s.eval("1 + 1", instrument=False)
after_state, after = s._num_sandbox_calls_seen, calls()
print("tracer._num_sandbox_calls_seen: expected", before_state, "observed", after_state)
print("'call' events of tracer.exec(prog): expected", before, "observed", after)
sys.exit(1 if (before_state != after_state or before != after) else 0)
