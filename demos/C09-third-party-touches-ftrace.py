"""C09 demo 6: pyccolo's handlers share the frame's single f_trace slot / f_trace_lines flag with third-party
tracers.  A third party that (as debuggers do: bdb.set_trace assigns frame.f_trace for every running frame)
assigns frame.f_trace, or sets frame.f_trace_lines = False, keeps receiving exactly what it would receive
without pyccolo -- but the pyccolo tracer's own line / return / exception handlers silently stop receiving
the events of that frame."""
import sys
import pyccolo as pyc

handler_log = []


class LineTracer(pyc.BaseTracer):
    @pyc.register_raw_handler((pyc.call, pyc.line, pyc.return_))
    def handle(self, ret, node, frame, event, *_, **__):
        if frame.f_code.co_name in ("f", "h"):
            handler_log.append((event.value, frame.f_code.co_name, frame.f_lineno - frame.f_code.co_firstlineno))


def make_third_party(mode):
    log = []

    def glob(frame, evt, arg):
        if frame.f_code.co_filename != __file__ or frame.f_code.co_name != "f":
            return None
        log.append((evt, frame.f_lineno - frame.f_code.co_firstlineno))
        if mode == "f_trace_lines=False":
            frame.f_trace_lines = False
        return loc

    def loc(frame, evt, arg):
        log.append((evt, frame.f_lineno - frame.f_code.co_firstlineno))
        if mode == "f_trace=other":
            frame.f_trace = other
        return loc

    def other(frame, evt, arg):
        log.append((evt, frame.f_lineno - frame.f_code.co_firstlineno))
        return other

    return glob, log


def f():
    x = 1
    y = 2
    return x + y


def debugger(frame, evt, arg):
    return debugger


def h(install):
    x = 1
    if install:
        sys.settrace(debugger); sys._getframe().f_trace = debugger  # what bdb.Bdb.set_trace does
    y = 2
    return x + y


def main():
    import contextlib

    bad = False
    tracer = LineTracer.instance()
    # reference: what the handler gets for f() when nobody else is tracing
    del handler_log[:]
    with tracer:
        f()
    reference = list(handler_log)
    for mode in ("f_trace=other", "f_trace_lines=False"):
        glob, plain = make_third_party(mode)
        sys.settrace(glob)
        f()
        sys.settrace(None)
        glob, traced = make_third_party(mode)
        del handler_log[:]
        sys.settrace(glob)
        try:
            with tracer:
                f()
        finally:
            sys.settrace(None)
        print("third party does %s in frame f" % mode)
        print("   third-party stream unchanged by pyccolo:", plain == traced)
        print("   expected handler stream:", reference)
        print("   observed handler stream:", list(handler_log))
        if handler_log != reference or plain != traced:
            bad = True
    # a debugger attaching inside a traced function
    del handler_log[:]
    with tracer:
        h(False)
    reference = list(handler_log)
    del handler_log[:]
    try:
        with tracer:
            h(True)
    finally:
        sys.settrace(None)
    # line offsets 3 belongs to the `if install:` body, which only the second run executes
    observed = [e for e in handler_log if e != ("line", "h", 3)]
    print("user code attaches a debugger (sys.settrace + frame.f_trace) inside traced function h")
    print("   expected handler stream:", reference)
    print("   observed handler stream:", observed)
    if observed != reference:
        bad = True
    if bad:
        print("VIOLATION: handlers lose the events of a frame whose f_trace / f_trace_lines a third party touches")
        return 1
    print("no violation")
    return 0


if __name__ == "__main__":
    sys.exit(main())
