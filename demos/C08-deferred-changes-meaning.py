"""demo6: subscribing a deferred before_* expression event wraps the expression in a lambda; a `yield` (or
`await`, class-scope name, walrus target, zero-argument super()) inside it changes meaning.  Here `x = yield 1`:
the function stops being a generator, and after_assign_rhs carries a generator object instead of the sent value."""
import ast
import asyncio
import sys
import textwrap

import pyccolo as pyc


def trace(src, events, fname, run_async=None, env=None, silent=()):
    """Run src under a fresh tracer subscribed to `events`; return (stream, exception, env).
    stream entries: (event, node type, lineno, col_offset, source of node, repr(value))"""
    log = []

    class T(pyc.BaseTracer):
        instrument_all_files = True

        @pyc.register_handler(tuple(events))
        def h(self, ret, node, frame, event, *a, **kw):
            if isinstance(node, ast.AST):
                src_ = ast.unparse(node).split("\n")[0]
                log.append((event.value, type(node).__name__, getattr(node, "lineno", None),
                            getattr(node, "col_offset", None), src_, _r(ret)))
            else:
                log.append((event.value, None, None, None, node, _r(ret)))
            return None

        if silent:
            @pyc.register_handler(tuple(silent))
            def hs(self, ret, node, frame, event, *a, **kw):
                return None

    t = T.instance()
    env = {"__name__": "demo_mod"} if env is None else env
    exc = None
    try:
        with t.tracing_enabled():
            try:
                tree = t.make_ast_rewriter(fname).visit(ast.parse(textwrap.dedent(src)))
                exec(compile(tree, fname, "exec"), env)
                if run_async:
                    asyncio.run(env[run_async]())
            except BaseException as e:  # noqa
                exc = e
    finally:
        T.clear_instance()
    return log, exc, env


def _r(v):
    if type(v).__module__ == "builtins" and not callable(v) and " at 0x" not in repr(v):
        return repr(v)
    return "<%s>" % type(v).__name__


def report(title, expected, delivered):
    print(title)
    print("EXPECTED:")
    for e in expected:
        print("   ", e)
    print("DELIVERED:")
    for e in delivered:
        print("   ", e)
    if expected != delivered:
        print("VIOLATION: delivered stream differs from expected stream")
        sys.exit(1)
    print("no violation")
    sys.exit(0)

SRC = """
def gen():
    x = yield 1
    yield x
g = gen()
a = next(g)
b = g.send(10)
"""
log0, exc0, env0 = trace(SRC, [pyc.after_assign_rhs], "<sandbox-demo6a>")
expected = [(e[0], e[2], e[4], e[5]) for e in log0]
expected_hand = [
    ("after_assign_rhs", 5, "gen()", "<generator>"),
    ("after_assign_rhs", 6, "next(g)", "1"),
    ("after_assign_rhs", 3, "(yield 1)", "10"),
    ("after_assign_rhs", 7, "g.send(10)", "10"),
]
assert expected == expected_hand, expected
log, exc, env = trace(SRC, [pyc.after_assign_rhs], "<sandbox-demo6b>", silent=[pyc.before_assign_rhs])
delivered = [(e[0], e[2], e[4], e[5]) for e in log]
print("exception with before_assign_rhs also subscribed:", repr(exc))
report("after_assign_rhs stream (before_assign_rhs subscribed by a second, passive handler)", expected_hand, delivered)
