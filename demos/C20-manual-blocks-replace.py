"""C20 demo3: a second `needing_manual_initialization()` block REPLACES the set of manually initialised
fields instead of extending it.
 (a) two register_stack_state blocks (e.g. base class + derived class), each with a manual field:
     the first manual field drops out of the stack completely: push neither saves nor removes it, pop does
     not restore it, and get_field() on it returns ANOTHER field's saved value (stale _field_mapping entry).
 (b) two manual blocks inside one register_stack_state block: the first field silently becomes an
     automatically initialised one.
Exits 1 when the violation shows."""
import sys

import pyccolo as pyc

ABSENT = "<absent>"


class Base(pyc.BaseTracer):
    def __init__(self, *a, **k):
        super().__init__(*a, **k)
        self.stack = self.make_stack()
        with self.stack.register_stack_state():
            self.x = 0
            with self.stack.needing_manual_initialization():
                self.m1 = "m1-declared"


class Derived(Base):
    def __init__(self, *a, **k):
        super().__init__(*a, **k)
        with self.stack.register_stack_state():
            self.y = "y-declared"
            with self.stack.needing_manual_initialization():
                self.m2 = "m2-declared"


class OneBlock(pyc.BaseTracer):
    def __init__(self, *a, **k):
        super().__init__(*a, **k)
        self.stack = self.make_stack()
        with self.stack.register_stack_state():
            with self.stack.needing_manual_initialization():
                self.m1 = "m1-declared"
            self.x = 0
            with self.stack.needing_manual_initialization():
                self.m2 = "m2-declared"


def main():
    bad = []

    def check(what, exp, act):
        if exp != act:
            bad.append(what)
            print("%-58s expected %-12r observed %r" % (what, exp, act))

    t = Derived()
    t.m1, t.m2, t.y = "outer-m1", "outer-m2", "outer-y"
    with t.stack.push():
        check("(a) m1 right after push (manual: must be absent)", ABSENT, t.__dict__.get("m1", ABSENT))
        check("(a) m2 right after push (manual: must be absent)", ABSENT, t.__dict__.get("m2", ABSENT))
        t.m1, t.m2 = "inner-m1", "inner-m2"
    try:
        got = t.stack.get_field("m1")
    except Exception as e:  # noqa
        got = repr(e)
    check("(a) stack.get_field('m1') (value saved by the push)", "outer-m1", got)
    t.stack.pop()
    check("(a) m1 after pop", "outer-m1", t.m1)
    check("(a) m2 after pop", "outer-m2", t.m2)

    t = OneBlock()
    t.m1 = "outer-m1"
    with t.stack.push():
        check("(b) m1 right after push (manual: must be absent)", ABSENT, t.__dict__.get("m1", ABSENT))
        t.m1 = t.m2 = "inner"
    t.stack.pop()
    check("(b) m1 after pop", "outer-m1", t.m1)

    if bad:
        print("VIOLATION: fields of an earlier needing_manual_initialization block are forgotten")
        return 1
    print("ok")
    return 0


if __name__ == "__main__":
    sys.exit(main())
