"""C19 demo6: the defining module's `from __future__ import annotations` is not in effect for the
re-compiled body (`compile(...)` in pyccolo/tracer.py inherits pyccolo's future flags, not the defining
module's), so annotations of definitions nested in the decorated function are evaluated eagerly."""
from __future__ import annotations

import sys
import warnings

warnings.simplefilter("ignore")
import pyccolo as pyc


class AssignTracer(pyc.BaseTracer):
    def __init__(self, *a, **k):
        super().__init__(*a, **k)
        self.evs = []

    @pyc.register_handler(pyc.after_assign_rhs)
    def handle_assign(self, ret, node, frame, *_, **__):
        self.evs.append(node.lineno)


tracer = AssignTracer.instance()


def outcome(thunk):
    try:
        return ("ret", thunk())
    except BaseException as e:  # noqa
        return ("exc", type(e).__name__, str(e))


def make_twin(x):
    def inner(y: NotImportedAtRuntime) -> int:
        return y

    r = inner(x), inner.__annotations__
    return r


@tracer.instrumented
def make(x):
    def inner(y: NotImportedAtRuntime) -> int:
        return y

    r = inner(x), inner.__annotations__
    return r


exp, obs = outcome(lambda: make_twin(1)), outcome(lambda: make(1))
if exp != obs:
    print("expected", exp)
    print("observed", obs)
    sys.exit(1)
print("no violation")
