"""demo2: a generator started inside the tracing context and resumed after the context exits starts over
from its first statement (side effects repeated, values yielded again) -- unless its function guard happened
to be active when it was started, in which case it behaves like the plain program.

Property C10: the program's results are identical whichever guards are toggled and whenever.
"""
import ast
import sys

import pyccolo as pyc

SRC = """
out = []
def warmup():
    return 0
def gen():
    for i in range(3):
        out.append(("side effect", i))
        yield i
warmup()          # gives the tracer a bracket event before gen() is called
g = gen()
first = next(g)
"""

MODE = ["none"]


class T(pyc.BaseTracer):
    global_guards_enabled = True
    instrument_all_files = True

    @pyc.register_raw_handler((pyc.after_function_execution, pyc.load_name))
    def h(self, ret, node, frame, event, *a, guard=None, **kw):
        if MODE[0] == "activate_everything" and event is pyc.after_function_execution:
            # at the bracket event of warmup(): activate the guards of all function bodies
            for g in list(self.guards):
                fn = self.ast_node_by_id.get(int(g.split("GUARD_")[1].split("_")[0]))
                if g.endswith("_body") and isinstance(fn, ast.FunctionDef):
                    self.activate_guard(g)


def traced(mode):
    MODE[0] = mode
    env = {}
    t = T.instance()
    with t.tracing_enabled():
        tree = t.make_ast_rewriter("<demo2-%s>" % mode).visit(ast.parse(SRC))
        exec(compile(tree, "<demo2>", "exec"), env)
    # the tracing context is over; the program keeps using its generator
    rest = list(env["g"])
    return env["first"], rest, env["out"]


def plain():
    env = {}
    exec(compile(SRC, "<plain>", "exec"), env)
    rest = list(env["g"])
    return env["first"], rest, env["out"]


expected = plain()
no_toggle = traced("none")
guard_on = traced("activate_everything")
print("plain program                    :", expected)
print("traced, no guard ever activated  :", no_toggle)
print("traced, gen()'s guard activated  :", guard_on)
if no_toggle != expected or guard_on != expected:
    print(
        "VIOLATION: expected %r under every guard schedule; observed %r with no guard activated and %r with "
        "the function guards activated before gen() was called" % (expected, no_toggle, guard_on)
    )
    sys.exit(1)
print("no violation")
sys.exit(0)
