"""C20 demo4: frames are plain tuples in "current field order"; registering one more field while a frame
is on the stack (a derived class / plugin / lazily created state registering after tracing started) shifts
the order (automatic fields first, then manual ones), and the pending pop zips the OLD tuple against the NEW
order: the manual field is not restored and the new field receives the manual field's saved value.
get_field on the old frame is shifted in the same way.
Exits 1 when the violation shows."""
import sys

import pyccolo as pyc


class T(pyc.BaseTracer):
    def __init__(self, *a, **k):
        super().__init__(*a, **k)
        self.stack = self.make_stack()
        with self.stack.register_stack_state():
            self.x = 0
            with self.stack.needing_manual_initialization():
                self.m = "m-declared"

    def register_more(self):
        with self.stack.register_stack_state():
            self.late = "late-declared"


def main():
    t = T()
    t.x, t.m = 1, "outer-m"
    with t.stack.push():
        t.m = "inner-m"
    t.register_more()  # one frame pending
    bad = 0
    try:
        got = t.stack.get_field("m")
    except Exception as e:  # noqa
        got = repr(e)
    if got != "outer-m":
        bad += 1
        print("get_field('m') on the pending frame: expected 'outer-m', observed %r" % (got,))
    t.stack.pop()
    exp = {"x": 1, "m": "outer-m", "late": "late-declared"}
    act = {n: getattr(t, n) for n in exp}
    if act != exp:
        bad += 1
        print("after pop: expected %r\n           observed %r" % (exp, act))
    if bad:
        print("VIOLATION: pop/get_field pair saved tuples with the wrong field names after a late registration")
        return 1
    print("ok")
    return 0


if __name__ == "__main__":
    sys.exit(main())
