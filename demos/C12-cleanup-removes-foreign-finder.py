"""demo7 (C12, "after the context the import system no longer instruments anything" / other modules load like plain):
leaving the outermost tracing context removes sys.meta_path[0], whatever is there.  If a module imported inside the
context put its own finder in front (sys.meta_path.insert(0, ...), as six, setuptools' _distutils_hack, pytest, import
hooks of type checkers ... do), THAT finder is deleted and pyccolo's TraceFinder stays installed."""
import json, os, shutil, subprocess, sys, tempfile, textwrap

import pyccolo  # from PYTHONPATH

LIB = os.path.dirname(os.path.dirname(os.path.abspath(pyccolo.__file__)))


def write(root, rel, src, mode="w"):
    path = os.path.join(root, rel)
    os.makedirs(os.path.dirname(path), exist_ok=True)
    with open(path, mode) as f:
        f.write(textwrap.dedent(src) if mode == "w" else src)
    return path


def run(root, code, *, pyargs=(), argv=None, write_bytecode=True, env_extra=None):
    """run `code` (or `argv`) in a fresh interpreter with cwd=root; returns (json after '@@' or None, CompletedProcess)"""
    env = dict(os.environ)
    for var in ("PYTHONDONTWRITEBYTECODE", "PYTHONOPTIMIZE", "PYTHONPYCACHEPREFIX"):
        env.pop(var, None)
    env["PYTHONPATH"] = os.pathsep.join([LIB, root])
    if not write_bytecode:
        env["PYTHONDONTWRITEBYTECODE"] = "1"
    env.update(env_extra or {})
    cmd = [sys.executable, *pyargs] + (list(argv) if argv else ["-c", textwrap.dedent(code)])
    p = subprocess.run(cmd, cwd=root, env=env, capture_output=True, text=True, timeout=50)
    res = None
    for line in p.stdout.splitlines():
        if line.startswith("@@"):
            res = json.loads(line[2:])
    return res, p


# a tracer module as a user would write it: accepts the files named in ACCEPT (basenames),
# logs (event, file, node type, line) for three events
TRC = '''
import json, os
import pyccolo as pyc

LOG = []
ACCEPT = {ACCEPT!r}


class T(pyc.BaseTracer):
    def should_instrument_file(self, filename):
        return os.path.basename(filename) in ACCEPT

    @pyc.register_raw_handler((pyc.after_assign_rhs, pyc.load_name, pyc.after_stmt))
    def log(self, ret, node_id, frame, event, *_, **__):
        node = self.ast_node_by_id.get(node_id)
        LOG.append([event.value, os.path.basename(frame.f_code.co_filename), type(node).__name__, getattr(node, "lineno", None)])
        return ret


def dump(**extra):
    print("@@" + json.dumps(dict(log=LOG, **extra)))
'''


SCENARIO = '''
import sys, trc
%s
err = None
try:
    import virtual_mod                      # served by the finder that `hooky` installed
    val = virtual_mod.VALUE
except ImportError as e:
    err, val = repr(e), None
trc.dump(err=err, val=val, hooky_finder_installed=hooky.FINDER in sys.meta_path,
         trace_finders_left=[type(f).__name__ for f in sys.meta_path if type(f).__module__.startswith("pyccolo")])
'''


def main():
    root = tempfile.mkdtemp(prefix="c12demo7_")
    try:
        write(root, "hooky.py", """
            import importlib.abc, importlib.util, sys

            class VirtualFinder(importlib.abc.MetaPathFinder, importlib.abc.Loader):
                def find_spec(self, fullname, path=None, target=None):
                    if fullname == "virtual_mod":
                        return importlib.util.spec_from_loader(fullname, self)
                def create_module(self, spec):
                    return None
                def exec_module(self, module):
                    module.VALUE = 42

            FINDER = VirtualFinder()
            sys.meta_path.insert(0, FINDER)
        """)
        write(root, "trc.py", TRC.replace("{ACCEPT!r}", repr({"nothing.py"})))   # the tracer accepts no file at all
        plain, p = run(root, SCENARIO % "import hooky", write_bytecode=False)
        traced, p2 = run(root, SCENARIO % "with trc.T.instance().tracing_enabled():\n    import hooky", write_bytecode=False)
        assert plain and traced, (p.stderr, p2.stderr)
        if plain != traced:
            print("VIOLATION")
            print("  expected (plain import of hooky):                ", {k: v for k, v in plain.items() if k != "log"})
            print("  observed (hooky imported in a tracing context, \n            checked after the context):               ", {k: v for k, v in traced.items() if k != "log"})
            return 1
        print("ok")
        return 0
    finally:
        shutil.rmtree(root, ignore_errors=True)


if __name__ == "__main__":
    sys.exit(main())
