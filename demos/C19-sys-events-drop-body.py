"""C19 demo4: a tracer that ALSO has a handler for a sys.settrace event (`call`, `return_`, ...)
loses the events of a decorated function's body.

The wrapper enters `tracing_enabled(tracing_enabled_file=<the function's file>)`, which makes that file
the tracer's "current sandbox file".  For a tracer with sys-trace handlers the file filter then drops
EVERY event from that file until two `call` events have been counted (a rule meant to skip the two
wrapper frames of `tracer.exec` sandboxes).  The counter is reset on every call of the decorated function,
so: a body that calls no Python function of its own file delivers nothing at all, ever; other bodies
deliver only what comes after enough calls.
"""
import sys
import warnings

warnings.simplefilter("ignore")
import pyccolo as pyc


class AstOnly(pyc.BaseTracer):
    def __init__(self, *a, **k):
        super().__init__(*a, **k)
        self.evs = []

    @pyc.register_handler(pyc.after_assign_rhs)
    def handle_assign(self, ret, node, frame, *_, **__):
        self.evs.append(("assign", node.lineno - frame.f_code.co_firstlineno))


class AstAndCall(pyc.BaseTracer):
    def __init__(self, *a, **k):
        super().__init__(*a, **k)
        self.evs = []

    @pyc.register_handler(pyc.after_assign_rhs)
    def handle_assign(self, ret, node, frame, *_, **__):
        self.evs.append(("assign", node.lineno - frame.f_code.co_firstlineno))

    @pyc.register_raw_handler(pyc.call)
    def handle_call(self, ret, node, frame, *_, **__):
        pass  # merely having it is enough


ast_only, ast_and_call = AstOnly.instance(), AstAndCall.instance()


def f(x):
    a = x
    b = a + 1
    return b


f1 = ast_only.instrumented(f)


def g(x):  # same body as f
    a = x
    b = a + 1
    return b


g1 = ast_and_call.instrumented(g)

ok = True
for i in range(3):
    ast_only.evs.clear(); ast_and_call.evs.clear()
    r1, r2 = f1(i), g1(i)
    assert r1 == r2 == i + 1
    if ast_only.evs != ast_and_call.evs:
        ok = False
        print(f"call #{i}: expected the after_assign_rhs events {ast_only.evs} (tracer without a `call` handler gets them)")
        print(f"         observed {ast_and_call.evs} for the tracer that also handles `call`")
if ok:
    print("no violation")
sys.exit(0 if ok else 1)
