import sys, ast
import pyccolo as pyc
SRC = '''from __future__ import annotations
T = int
def f(x: T, *ar: T, y: T = 1, **kw: T) -> T:
    z: T = x
    return z
class C:
    w: T = 3
v: T = 2
r = (f.__annotations__, C.__annotations__, __annotations__)
'''
class Tr(pyc.BaseTracer):
    @pyc.register_raw_handler((pyc.load_name, pyc.after_int))
    def h(self, ret, node, frame, evt, *a, **k):
        return None
env = {}
exec(compile(SRC, "<plain>", "exec"), env)
t = Tr.instance()
with t.tracing_enabled():
    tree = t.make_ast_rewriter("<sandbox-ann>").visit(ast.parse(SRC))
    env2 = {}
    exec(compile(tree, "<sandbox-ann>", "exec"), env2)
print(env["r"]); print(str(env2["r"])[:600])
sys.exit(0 if env["r"] == env2["r"] else 1)
