"""C17: tracer.exec(...) in a worker thread can be given the SAME sandbox file name as a
tracer.exec(...) of the main thread; instrumenting the worker's program then throws away the node
table of main's program, and main's handlers receive node=None for the rest of their program.

tracer.py, make_sandbox_fname:
        cls.sandbox_fname_counter += 1
        return f"{SANDBOX_FNAME_PREFIX}-{cls.sandbox_fname_counter}>"
is not atomic: a thread that is preempted between the two lines returns the number another thread
has just produced.  AstRewriter.visit then finds a bookkeeper registered for "its" path and removes
all of its nodes (remove_bookkeeping).
The window is narrow; to hit it deterministically the demo parks the WORKER between the two lines
with a trace function of its own (plain sys.settrace in the worker thread, 'line' events of
make_sandbox_fname only).  The tracer does not allow multiple threads.
"""
import sys
import threading

import pyccolo as pyc
from pyccolo.tracer import _InternalBaseTracer

NAMER_CODE = _InternalBaseTracer.make_sandbox_fname.__func__.__code__
worker_parked, main_parked, worker_done = (threading.Event() for _ in range(3))
state = {"worker": False}
main_log = []


def worker_trace(frame, event, arg):
    if frame.f_code is not NAMER_CODE:
        return None
    lines = []

    def local(frame, event, arg):
        if event == "line":
            lines.append(frame.f_lineno)
            if len(lines) == 2 and not worker_parked.is_set():
                # the counter has been incremented, the name has not been formatted yet
                worker_parked.set()
                main_parked.wait(10)
        return local

    return local


class T(pyc.BaseTracer):
    @pyc.register_handler(pyc.after_stmt)
    def on_after_stmt(self, ret, node, frame, event, *_, **__):
        if threading.current_thread() is not threading.main_thread():
            return
        main_log.append((event.value, getattr(node, "lineno", None)))
        if state["worker"] and len(main_log) == 1:
            main_parked.set()
            worker_done.wait(10)


def run(t, with_worker):
    del main_log[:]
    state["worker"] = with_worker

    def worker():
        sys.settrace(worker_trace)
        try:
            t.exec("w = 1")
        finally:
            sys.settrace(None)
            worker_done.set()

    with t:
        th = None
        if with_worker:
            th = threading.Thread(target=worker)
            th.start()
            worker_parked.wait(10)
        t.exec("a = 1\nb = 2\nc = 3")
        if th is not None:
            th.join()
    return list(main_log)


def main():
    t = T.instance()
    expected = run(t, False)
    observed = run(t, True)
    print("main runs a three-statement program; a worker's tracer.exec('w = 1') is instrumented after statement 1:")
    print(f"  expected (event, line of node): {expected}")
    print(f"  observed (event, line of node): {observed}")
    return 1 if observed != expected else 0


if __name__ == "__main__":
    sys.exit(main())
