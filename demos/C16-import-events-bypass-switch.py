"""C16: import events (before_import / after_import) bypass the reentrancy switch in both directions.

(a) an ordinary after_stmt handler imports a module the tracer accepts: the module's AST events
    (init_module, after_stmt) are withheld as they should be, but before_import / after_import are
    delivered to ordinary handlers while the after_stmt handler is still running (depth 2);
(b) an ordinary after_import handler calls a function of the module it was told about: the
    function's AST events are delivered to ordinary handlers while the after_import handler is
    still running (depth 2).
import_hooks.py emits these two events with tracer._emit_event(...) directly, not through
emit_event._emit_event / _emit_tracer_loop, so the switch is neither consulted nor cleared.
"""
import os
import sys
import tempfile

import pyccolo as pyc

sys.dont_write_bytecode = True
MODULE_SOURCE = "def g():\n    v = 1\n    return v\nw = 2\n"

running = []
nested = []


class T(pyc.BaseTracer):
    mode = "a"

    def should_instrument_file(self, filename):
        return os.path.basename(filename).startswith("c16_demo3_mod")

    def _enter(self, name):
        if running:
            nested.append(tuple(running) + (name,))
        running.append(name)

    @pyc.register_raw_handler(pyc.after_stmt)
    def on_after_stmt(self, ret, node_id, frame, event, *_, **__):
        self._enter("after_stmt")
        try:
            if self.mode == "a" and frame.f_code.co_filename.startswith("<sandbox"):
                import c16_demo3_mod_a  # noqa: F401
        finally:
            running.pop()

    @pyc.register_raw_handler(pyc.init_module)
    def on_init_module(self, *_, **__):
        self._enter("init_module")
        running.pop()

    @pyc.register_raw_handler(pyc.before_import)
    def on_before_import(self, *_, **__):
        self._enter("before_import")
        running.pop()

    @pyc.register_raw_handler(pyc.after_import)
    def on_after_import(self, ret, node_id, frame, event, *_, module=None, **__):
        self._enter("after_import")
        try:
            if self.mode == "b":
                module.g()
        finally:
            running.pop()


def main():
    tmp = tempfile.mkdtemp()
    for name in ("c16_demo3_mod_a", "c16_demo3_mod_b"):
        with open(os.path.join(tmp, name + ".py"), "w") as f:
            f.write(MODULE_SOURCE)
    sys.path.insert(0, tmp)
    t = T.instance()

    t.exec("x = 1")
    nested_a = list(nested)
    print("(a) after_stmt handler imports an accepted module:")
    print("  expected: no handler entered while after_stmt handler runs")
    print(f"  observed: {sorted(set(nested_a)) if nested_a else 'none'}")

    del nested[:]
    T.mode = "b"
    with t:
        import c16_demo3_mod_b  # noqa: F401
    nested_b = list(nested)
    print("(b) after_import handler calls module.g():")
    print("  expected: no handler entered while after_import handler runs")
    print(f"  observed: {sorted(set(nested_b)) if nested_b else 'none'}")
    return 1 if nested_a or nested_b else 0


if __name__ == "__main__":
    sys.exit(main())
