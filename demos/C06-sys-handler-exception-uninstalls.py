"""C06 / C07: an exception that propagates out of a sys-level handler (call / return / line ...) kills the
tracer's system trace function for the rest of its context, and the context's exit then does NOT put back the
trace function that was installed before the context.

History:  sys.settrace(prev); enter ctx(sys-level tracer, should_propagate_handler_exception -> True);
          try: call foo  (the 'call' handler raises)  except: pass;  call foo;  exit ctx
Expected: the second call still fires the 'call' handler (tracer active, innermost context enabled);
          after the context sys.gettrace() is `prev`.
Observed: the handler is never called again inside the context; after the context sys.gettrace() is None.
"""
import sys

import pyccolo as pyc

LOG = []


class SysLevel(pyc.BaseTracer):
    boom = False

    def should_propagate_handler_exception(self, evt, exc):
        return True

    @pyc.register_raw_handler(pyc.call)
    def handle_call(self, ret, node, frame, *_, **__):
        if frame.f_code.co_name == "foo":
            LOG.append("call foo")
            if self.boom:
                self.boom = False
                raise ValueError("raised by the handler")


def prev(frame, event, arg):
    return None


t = SysLevel.instance()
env = {}
with t.tracing_disabled():
    env.update(t.exec("def foo():\n    return 1\n", env, env))
foo = env["foo"]

sys.settrace(prev)
try:
    with t.tracing_enabled():
        foo()
        first = list(LOG)
        t.boom = True
        try:
            foo()
        except ValueError:
            pass
        del LOG[:]
        foo()
        second = list(LOG)
    after = sys.gettrace()
finally:
    sys.settrace(None)
print("control, before the handler raised: fired", first)
print("call after the handler raised, same enabled context: expected ['call foo'], observed", second)
print("sys.gettrace() after the context: expected", prev, "observed", after)
sys.exit(1 if (second != ["call foo"] or after is not prev) else 0)
