"""C07 / C06: an import inside nested tracing contexts of two sys-level tracers, the outer tracer switched on again
in a context nested inside the other tracer's.

The system trace functions of the tracers wrap one another in the order the tracers were switched on (B, then A),
the tracer stack is [A, B].  TraceLoader.exec_module switched the tracers off for a file neither instruments in
stack order (B first), while A's trace function was the installed one:  `assert sys_gettrace() is self.sys_tracer`
failed, and the import of a perfectly good module raised AssertionError.  Exits 1 when the violation shows."""
import importlib
import os
import sys
import tempfile

import pyccolo as pyc


class A(pyc.BaseTracer):
    def should_instrument_file(self, filename):
        return False

    @pyc.register_raw_handler(pyc.call)
    def on_call(self, *_, **__):
        pass


class B(pyc.BaseTracer):
    def should_instrument_file(self, filename):
        return False

    @pyc.register_raw_handler(pyc.call)
    def on_call(self, *_, **__):
        pass


def main():
    d = tempfile.mkdtemp()
    with open(os.path.join(d, "verif_demo_plain_mod.py"), "w") as f:
        f.write("x = 1\n")
    sys.path.insert(0, d)
    before = sys.gettrace()
    a, b = A.instance(), B.instance()
    observed = "imported"
    try:
        with a.tracing_disabled():
            with b.tracing_enabled():
                with a.tracing_enabled():
                    importlib.import_module("verif_demo_plain_mod")
    except BaseException as e:  # noqa
        observed = "%s raised from the import" % type(e).__name__
    after = sys.gettrace()
    sys.path.remove(d)
    A.clear_instance()
    B.clear_instance()
    print("expected: imported, sys.gettrace() as before: True")
    print("observed: %s, sys.gettrace() as before: %s" % (observed, after is before))
    return 0 if observed == "imported" and after is before else 1


if __name__ == "__main__":
    sys.exit(main())
