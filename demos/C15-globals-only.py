"""C15 demo6: with ONLY a globals mapping passed, builtin exec/eval use it as locals too.
pyccolo takes the CALLER'S FRAME locals instead: eval returns a different value, exec's result
contains the caller's local variables, and the names of the globals mapping are not in the result.
"""
import sys
import pyccolo as pyc

bad = []


def run_eval():
    x = "caller's local x"
    return pyc.eval("x", {"x": "x of the mapping passed as globals"})


def run_exec():
    x = "caller's local x"
    secret = "caller's secret"
    return pyc.exec("y = x", {"x": "x of the mapping passed as globals"})


g = {"x": "x of the mapping passed as globals"}
want = eval("x", g)
got = run_eval()
print("eval('x', {'x': ...}) called from a function that has its own local x")
print("   expected:", repr(want))
print("   observed:", repr(got))
if want != got:
    bad.append("eval")

g = {"x": "x of the mapping passed as globals"}
exec("y = x", g)
want = {k: v for k, v in g.items() if k != "__builtins__"}
got = {k: v for k, v in run_exec().items() if k != "__builtins__"}
print("exec('y = x', {'x': ...}) called from a function with locals x and secret")
print("   expected bindings:", want)
print("   observed result  :", got)
if got != want:
    bad.append("exec")
sys.exit(1 if bad else 0)
