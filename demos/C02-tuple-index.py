"""demo3: a tuple display used as a subscript index gets no tuple_elt / after_tuple_literal events."""
import ast
import asyncio
import sys
import textwrap

import pyccolo as pyc


def trace(src, events, fname, run_async=None, env=None, silent=()):
    """Run src under a fresh tracer subscribed to `events`; return (stream, exception, env).
    stream entries: (event, node type, lineno, col_offset, source of node, repr(value))"""
    log = []

    class T(pyc.BaseTracer):
        instrument_all_files = True

        @pyc.register_handler(tuple(events))
        def h(self, ret, node, frame, event, *a, **kw):
            if isinstance(node, ast.AST):
                src_ = ast.unparse(node).split("\n")[0]
                log.append((event.value, type(node).__name__, getattr(node, "lineno", None),
                            getattr(node, "col_offset", None), src_, _r(ret)))
            else:
                log.append((event.value, None, None, None, node, _r(ret)))
            return None

        if silent:
            @pyc.register_handler(tuple(silent))
            def hs(self, ret, node, frame, event, *a, **kw):
                return None

    t = T.instance()
    env = {"__name__": "demo_mod"} if env is None else env
    exc = None
    try:
        with t.tracing_enabled():
            try:
                tree = t.make_ast_rewriter(fname).visit(ast.parse(textwrap.dedent(src)))
                exec(compile(tree, fname, "exec"), env)
                if run_async:
                    asyncio.run(env[run_async]())
            except BaseException as e:  # noqa
                exc = e
    finally:
        T.clear_instance()
    return log, exc, env


def _r(v):
    if type(v).__module__ == "builtins" and not callable(v) and " at 0x" not in repr(v):
        return repr(v)
    return "<%s>" % type(v).__name__


def report(title, expected, delivered):
    print(title)
    print("EXPECTED:")
    for e in expected:
        print("   ", e)
    print("DELIVERED:")
    for e in delivered:
        print("   ", e)
    if expected != delivered:
        print("VIOLATION: delivered stream differs from expected stream")
        sys.exit(1)
    print("no violation")
    sys.exit(0)

SRC = """
d = {(1, 2): 'v'}
a = d[(1, 2)]
b = d[1, 2]
"""
log, exc, _ = trace(SRC, [pyc.tuple_elt, pyc.after_tuple_literal], "<sandbox-demo3>")
delivered = [(e[0], e[1], e[2], e[3], e[4], e[5]) for e in log]
# positions are those of ast.parse
expected = [
    ("tuple_elt", "Constant", 2, 6, "1", "1"),
    ("tuple_elt", "Constant", 2, 9, "2", "2"),
    ("after_tuple_literal", "Tuple", 2, 5, "(1, 2)", "(1, 2)"),
    ("tuple_elt", "Constant", 3, 7, "1", "1"),
    ("tuple_elt", "Constant", 3, 10, "2", "2"),
    ("after_tuple_literal", "Tuple", 3, 6, "(1, 2)", "(1, 2)"),
    ("tuple_elt", "Constant", 4, 6, "1", "1"),
    ("tuple_elt", "Constant", 4, 9, "2", "2"),
    ("after_tuple_literal", "Tuple", 4, 6, "(1, 2)", "(1, 2)"),
]
assert exc is None, exc
report("tuple literal events for tuples in subscript position", expected, delivered)
