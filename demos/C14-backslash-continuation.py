"""C14 demo 6: backslash continuation: the lines are joined, every later line number is off

Run with pyccolo importable (PYTHONPATH); exits 1 and prints expected vs observed when the violation shows, 0 otherwise."""
import ast
import sys

import pyccolo as pyc
from pyccolo.syntax_augmentation import (
    AugmentationSpec,
    AugmentationType,
    make_syntax_augmenter,
)


def make_tracer(specs):
    """A tracer declaring `specs`; its handlers log (kind, name, lineno, tokens) for every node that
    get_augmentations() reports as augmented, at load_name / after_attribute_load / after_binop."""
    specs = list(specs)
    log = []

    class Tr(pyc.BaseTracer):
        @property
        def syntax_augmentation_specs(self):
            return specs

        def _note(self, kind, name, node):
            augs = self.get_augmentations(id(node))
            if augs:
                log.append((kind, name, node.lineno, tuple(sorted(s.token for s in augs))))

        @pyc.load_name
        def _h_name(self, ret, node, *_, **__):
            self._note("Name", node.id, node)
            return ret

        @pyc.after_attribute_load
        def _h_attr(self, ret, node, *_, **__):
            self._note("Attribute", node.attr, node)
            return ret

        @pyc.after_binop
        def _h_binop(self, ret, node, *_, **__):
            self._note("BinOp", type(node.op).__name__, node)
            return ret

    tracer = Tr.instance()
    tracer.aug_log = log
    return tracer


PRELUDE = (
    "class O:\n"
    "    def __init__(self, **kw):\n"
    "        self.__dict__.update(kw)\n"
    "a = O(b=O(c=5), n=1)\n"
    "x = 3\n"
    "y = 4\n"
    "f = abs\n"
)
N_PRELUDE = PRELUDE.count("\n")


class _Recorder:
    """stands in for the AstRewriter: the augmenter only calls register_augmented_position on it"""

    def __init__(self):
        self.positions = []

    def register_augmented_position(self, spec, lineno, col_offset):
        self.positions.append((lineno, col_offset))


def augment(src, spec):
    """the library's text transformation for one spec: (rewritten text, recorded (line, col) of each hit)"""
    rec = _Recorder()
    return make_syntax_augmenter(rec, spec)(src), rec.positions


def run(specs, body):
    """exec PRELUDE + body under a fresh tracer; returns (env or exception, sorted log)"""
    tracer = make_tracer(specs)
    try:
        env = tracer.exec(PRELUDE + body, {})
    except BaseException as e:  # noqa
        return e, sorted(tracer.aug_log)
    return env, sorted(tracer.aug_log)


failures = []


def check(what, expected, observed):
    ok = expected == observed
    print(("ok   " if ok else "FAIL ") + what)
    if not ok:
        print("     expected:", expected)
        print("     observed:", observed)
        failures.append(what)


def finish():
    if failures:
        print("%d violation(s) shown" % len(failures))
        sys.exit(1)
    print("no violation shown")
    sys.exit(0)
# ---- demo 6: backslash continuation: the lines are joined, every later line number is off ----
dot = AugmentationSpec(AugmentationType.dot, "?.", ".")
binop = AugmentationSpec(AugmentationType.binop, "|>", "|")

src = "t = x + \\\n    y\nz = a?.b\n"
out, pos = augment(src, dot)
check("text keeps its line structure", "t = x + \\\n    y\nz = a.b\n", out)
check("recorded position (line 3 of the text)", [(3, 5)], pos)

L = N_PRELUDE
res, log = run([dot], "t = x + \\\n    y\nz = a?.b\n")
check("occurrence on a line after a continued statement", [("Attribute", "b", L + 3, ("?.",))], log)

res, log = run([dot, binop], "t = x |> \\\n    a?.n\n")
check(
    "occurrences on both physical lines of a continued statement",
    [("Attribute", "n", L + 2, ("?.",)), ("BinOp", "BitOr", L + 1, ("|>",))],
    log,
)

# line numbers reported for errors after the continued statement
tracer = make_tracer([dot])
try:
    tracer.exec("t = 1 + \\\n    2\nu = 3\nz = a?.b.nope\n", {"a": None.__class__})
    lineno = None
except AttributeError as e:
    tb = e.__traceback__
    while tb.tb_next is not None:
        tb = tb.tb_next
    lineno = tb.tb_lineno
check("traceback line of a statement after the continuation", 4, lineno)
finish()
