"""C16: a handler of a sys event (call / return / line) is not treated as a running handler.

Instrumented code executed by such a handler has its AST events delivered to ordinary
(non-reentrant) handlers of an ordinary tracer: handler nesting depth 2.
"""
import sys

import pyccolo as pyc

PROGRAM = """
def f():
    return 3
f()
"""


def make(sys_event):
    running = []  # handlers currently on the stack
    nested = []  # ordinary handlers entered while another handler was running

    class T(pyc.BaseTracer):
        allow_reentrant_events = False

        @pyc.register_raw_handler(sys_event)
        def on_sys_event(self, ret, node_id, frame, event, *_, **__):
            if frame.f_code.co_name != "f" or running:
                return
            running.append(event.value)
            try:
                # the handler executes instrumented code (think: a debugger evaluating a watch)
                self.exec("y = 1")
            finally:
                running.pop()

        @pyc.register_raw_handler(pyc.after_stmt)  # ordinary: reentrant=False
        def on_after_stmt(self, ret, node_id, frame, event, *_, **__):
            if running:
                nested.append(tuple(running) + (event.value,))

    return T, nested


def main():
    bad = False
    for sys_event in (pyc.call, pyc.return_, pyc.line):
        T, nested = make(sys_event)
        T.instance().exec(PROGRAM)
        T.clear_instance()
        print(f"{sys_event.value!r} handler runs tracer.exec('y = 1'):")
        print("  expected: no ordinary handler entered while the handler runs (depth <= 1)")
        print(f"  observed: {nested if nested else 'none'}")
        bad = bad or bool(nested)
    return 1 if bad else 0


if __name__ == "__main__":
    sys.exit(main())
