"""demo3 (C12 runpy / C13): code obtained through TraceLoader.get_code (which is what runpy, hence `python -m pyccolo`,
uses) is written to / taken from the bytecode cache without its node table.  The second `python -m pyccolo script.py -t trc.T`
over the same directory delivers every event with node None (first run, empty cache: proper nodes).  Same for
runpy.run_module inside a tracing context after an ordinary traced import has filled the cache."""
import json, os, shutil, subprocess, sys, tempfile, textwrap

import pyccolo  # from PYTHONPATH

LIB = os.path.dirname(os.path.dirname(os.path.abspath(pyccolo.__file__)))


def write(root, rel, src, mode="w"):
    path = os.path.join(root, rel)
    os.makedirs(os.path.dirname(path), exist_ok=True)
    with open(path, mode) as f:
        f.write(textwrap.dedent(src) if mode == "w" else src)
    return path


def run(root, code, *, pyargs=(), argv=None, write_bytecode=True, env_extra=None):
    """run `code` (or `argv`) in a fresh interpreter with cwd=root; returns (json after '@@' or None, CompletedProcess)"""
    env = dict(os.environ)
    for var in ("PYTHONDONTWRITEBYTECODE", "PYTHONOPTIMIZE", "PYTHONPYCACHEPREFIX"):
        env.pop(var, None)
    env["PYTHONPATH"] = os.pathsep.join([LIB, root])
    if not write_bytecode:
        env["PYTHONDONTWRITEBYTECODE"] = "1"
    env.update(env_extra or {})
    cmd = [sys.executable, *pyargs] + (list(argv) if argv else ["-c", textwrap.dedent(code)])
    p = subprocess.run(cmd, cwd=root, env=env, capture_output=True, text=True, timeout=50)
    res = None
    for line in p.stdout.splitlines():
        if line.startswith("@@"):
            res = json.loads(line[2:])
    return res, p


# a tracer module as a user would write it: accepts the files named in ACCEPT (basenames),
# logs (event, file, node type, line) for three events
TRC = '''
import json, os
import pyccolo as pyc

LOG = []
ACCEPT = {ACCEPT!r}


class T(pyc.BaseTracer):
    def should_instrument_file(self, filename):
        return os.path.basename(filename) in ACCEPT

    @pyc.register_raw_handler((pyc.after_assign_rhs, pyc.load_name, pyc.after_stmt))
    def log(self, ret, node_id, frame, event, *_, **__):
        node = self.ast_node_by_id.get(node_id)
        LOG.append([event.value, os.path.basename(frame.f_code.co_filename), type(node).__name__, getattr(node, "lineno", None)])
        return ret


def dump(**extra):
    print("@@" + json.dumps(dict(log=LOG, **extra)))
'''


RUNPY = '''
import runpy, trc
with trc.T.instance().tracing_enabled():
    %s
trc.dump()
'''


def fresh_root():
    root = tempfile.mkdtemp(prefix="c12demo3_")
    write(root, "script.py", "a = 1\nb = a + 1\n")
    # the CLI has no place to dump a log: print events as they come
    write(root, "trc.py", TRC.replace("{ACCEPT!r}", repr({"script.py"})).replace(
        "        return ret\n", "        print('EVT', *LOG[-1])\n        return ret\n", 1))
    return root


def events(p):
    return [line for line in p.stdout.splitlines() if line.startswith("EVT")]


def main():
    roots = []
    rc = 0
    try:
        root = fresh_root(); roots.append(root)
        cli = ["-m", "pyccolo", "script.py", "-t", "trc.T"]
        _, p1 = run(root, None, argv=cli)
        _, p2 = run(root, None, argv=cli)
        assert p1.returncode == 0 and events(p1), p1.stderr
        if events(p1) != events(p2):
            rc = 1
            print("VIOLATION (CLI run twice)")
            print("  expected (= first run, empty cache):", events(p1))
            print("  observed (second run)              :", events(p2))
        else:
            print("CLI twice: ok")
        root = fresh_root(); roots.append(root)
        ref, _ = run(root, RUNPY % "runpy.run_module('script')", write_bytecode=False)      # empty cache, nothing written
        run(root, RUNPY % "import script")                                                 # ordinary traced import fills the cache
        got, _ = run(root, RUNPY % "runpy.run_module('script')")
        if got != ref:
            rc = 1
            print("VIOLATION (runpy.run_module after a traced import)")
            print("  expected:", ref["log"])
            print("  observed:", got["log"])
        else:
            print("runpy after import: ok")
        return rc
    finally:
        for r in roots:
            shutil.rmtree(r, ignore_errors=True)


if __name__ == "__main__":
    sys.exit(main())
