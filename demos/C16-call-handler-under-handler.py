"""C16: while an ordinary handler runs, sys 'call' events produced by the handler's own code are
delivered to the ordinary 'call' handler: nesting depth 2.

(a) a helper function called by the handler, defined in a file the tracer accepts (here: the file
    that defines the tracer, which is accepted by default);
(b) the frame of ANOTHER stacked tracer's handler.
Only frames whose function NAME equals one of the tracer's own handler names are filtered
(tracer.py, _sys_tracer), and sys events never consult the reentrancy switch.
"""
import sys

import pyccolo as pyc

running = []  # ordinary handlers currently executing
nested = []  # (running handlers, event, function) for handlers entered at depth >= 2


def helper():
    return 1


class T(pyc.BaseTracer):
    @pyc.register_raw_handler(pyc.call)  # ordinary: reentrant=False
    def on_call(self, ret, node_id, frame, event, *_, **__):
        if running or frame.f_code.co_name == "u_after_stmt":
            # entered while a handler runs, or for the frame of another tracer's handler itself
            nested.append((tuple(running), "T.on_call", frame.f_code.co_name))

    @pyc.register_raw_handler(pyc.after_stmt)
    def on_after_stmt(self, ret, node_id, frame, event, *_, **__):
        running.append("T.on_after_stmt")
        try:
            helper()
        finally:
            running.pop()


class U(pyc.BaseTracer):
    @pyc.register_raw_handler(pyc.after_stmt)
    def u_after_stmt(self, ret, node_id, frame, event, *_, **__):
        running.append("U.u_after_stmt")
        try:
            helper()
        finally:
            running.pop()


def main():
    bad = False
    t, u = T.instance(), U.instance()

    t.exec("x = 1")
    print("(a) T.on_after_stmt calls helper():")
    print("  expected: T.on_call not entered while T.on_after_stmt runs")
    print(f"  observed: {nested if nested else 'not entered'}")
    bad = bad or bool(nested)

    del nested[:]
    with pyc.tracing_context([t, u]):
        u.exec("x = 1")
    via_u = [n for n in nested if n[2] == "u_after_stmt" or "U.u_after_stmt" in n[0]]
    print("(b) U stacked on T; U.u_after_stmt calls helper():")
    print("  expected: T.on_call not entered for / during U's handler")
    print(f"  observed: {via_u if via_u else 'not entered'}")
    return 1 if bad or via_u else 0


if __name__ == "__main__":
    sys.exit(main())
