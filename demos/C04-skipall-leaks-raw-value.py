"""C04 demo 3: sys event `line`, ONE tracer, handlers [returns 5, returns SkipAll].
SkipAll only ends the remaining handlers / tracers; the value left is 5, exactly as for [5] or [5, nothing].
A non-callable value left for a `line` / `return` / `opcode` event is otherwise harmless (the frame keeps its
local trace function).  With SkipAll the pair (SkipAll, 5) is unpacked by the composed trace function BEFORE that
check, 5 is handed to the interpreter as the frame's new local trace function, and the traced PROGRAM dies with
TypeError: 'int' object is not callable."""
import sys

import pyccolo as pyc

PROG = """
def f():
    a = 1
    b = 2
    return a + b
x = f()
"""


def make(name, outcomes):
    ns = {}
    for i, outcome in enumerate(outcomes):

        def handler(self, ret, node, frame, *_, _outcome=outcome, **__):
            if frame.f_code.co_name == "f":
                return _outcome

        handler.__name__ = f"h{i}"
        ns[handler.__name__] = pyc.register_raw_handler(pyc.line)(handler)
    return type(pyc.BaseTracer)(name, (pyc.BaseTracer,), ns)


def run(cls):
    try:
        with cls.instance():
            return pyc.exec(PROG, local_env={})["x"]
    except Exception as exc:  # noqa
        return f"program raised {type(exc).__name__}: {exc}"
    finally:
        cls.clear_instance()
        sys.settrace(None)


plain = run(make("Plain", [5]))
with_nothing = run(make("WithNothing", [5, None]))
with_skipall = run(make("WithSkipAll", [5, pyc.SkipAll]))
if not (plain == with_nothing == with_skipall == 3):
    print("VIOLATION (C04, SkipAll on a sys event)")
    print(" expected: x == 3 for [5], [5, nothing] and [5, SkipAll] (the value left is 5 in all three)")
    print(f" observed: [5] -> {plain!r}; [5, nothing] -> {with_nothing!r}; [5, SkipAll] -> {with_skipall!r}")
    sys.exit(1)
print("ok")
