"""C06 (minor, design level): whether tracer A's handlers fire inside a function frame depends on OTHER tracers.

A function body compiled under tracing picks its instrumented or its plain copy once, on entry, from the
process-wide switch FUNCTION_TRACING_ENABLED ("some tracer is enabled").  A frame entered while A is active but
disabled stays plain for its whole life, also across an enabled context of A entered further down in the same
frame, or (generator) entered before the frame is resumed -- unless some unrelated tracer B happened to be enabled
when the frame was entered.

History 1:  enter A(disabled); call f  where f is:  `with A.tracing_enabled(): x = 1`
History 2:  enter B(enabled); enter A(disabled); call f
Expected (both): A's after_stmt handler fires for `x = 1` (innermost context for A is an enabled one).
Observed: silent in history 1, fires in history 2.
"""
import sys

import pyccolo as pyc

LOG = []


def make(name):
    class T(pyc.BaseTracer):
        @pyc.register_raw_handler(pyc.after_stmt)
        def handle(self, ret, *_, **__):
            LOG.append(name)
            return ret

    T.__name__ = T.__qualname__ = name
    return T


A, B = make("A").instance(), make("B").instance()
env = {"A": A}
SRC = """
def f():
    with A.tracing_enabled():
        x = 1
    return x
def gen():
    y = 1
    yield y
    y = 2
    yield y
"""
with pyc.tracing_disabled([A, B]):
    env.update(A.exec(SRC, env, env))


def fired(thunk):
    del LOG[:]
    thunk()
    return sorted(set(LOG))


with A.tracing_disabled():
    alone = fired(env["f"])
    g = env["gen"]()
    next(g)
    with A.tracing_enabled():
        alone_gen = fired(lambda: next(g))
with B.tracing_enabled():
    with A.tracing_disabled():
        with_b = fired(env["f"])
        g = env["gen"]()
        next(g)
        with A.tracing_enabled():
            with_b_gen = fired(lambda: next(g))
print("A disabled [ f(): A enabled [ x = 1 ] ]               : expected A fires, observed", alone)
print("B enabled [ A disabled [ f(): A enabled [ x = 1 ] ] ] : expected A fires, observed", with_b)
print("generator started in A disabled, resumed in A enabled : expected A fires, observed", alone_gen)
print("the same inside B enabled                              : expected A fires, observed", with_b_gen)
sys.exit(1 if ("A" not in alone or "A" not in alone_gen) and "A" in with_b else 0)
