"""C11 demo3: register_handler stamps the handler's `use_raw_node_id` onto the Predicate OBJECT
(`pred.use_raw_node_id = use_raw_node_id`).  (a) A Predicate shared by a node handler and a raw handler -- even
one of a tracer class that is never instantiated -- is switched for both: the node handler's condition
is now asked about an int.  (b) The parts of a CompositePredicate are not stamped: at rewrite time a part
sees the node, at delivery time (raw handler) the same part sees the int id, so the two decisions disagree."""
import ast
import sys

import pyccolo as pyc
from pyccolo.predicate import CompositePredicate

SRC = "a = 1 + 2\nb = 3 * 4\nc = 5 + 6\n"


def is_add_fn(node):
    # total predicate: never raises, whatever it is given
    return isinstance(getattr(node, "op", None), ast.Add)


def run(tracer_cls, calls):
    t = tracer_cls.instance()
    with t.tracing_enabled():
        tree = t.make_ast_rewriter("<sandbox_demo3>").visit(ast.parse(SRC))
        exec(compile(tree, "<sandbox_demo3>", "exec"), {})
    tracer_cls.clear_instance()
    return calls


bad = False

# ---- (b) composite parts in a raw handler -------------------------------------------------------
calls_b = []
part = pyc.Predicate(is_add_fn)  # dynamic, written for nodes; the composite is what is registered


class RawTracer(pyc.BaseTracer):
    @pyc.register_raw_handler(pyc.after_binop, when=CompositePredicate.all([part, part]))
    def h(self, ret, node_id, *_, **__):
        calls_b.append(self.ast_node_by_id[node_id].lineno)


t = RawTracer.instance()
with t.tracing_enabled():
    tree = t.make_ast_rewriter("<sandbox_demo3>").visit(ast.parse(SRC))
    emitted = ast.unparse(tree).count("'after_binop'")
    exec(compile(tree, "<sandbox_demo3>", "exec"), {})
print(
    "(b) composite in raw handler: sites instrumented at rewrite time: %d (the part saw nodes: lines 1, 3);"
    " handler calls expected at those same sites [1, 3], observed %s" % (emitted, calls_b)
)
bad |= emitted == 2 and calls_b != [1, 3]

if bad:
    print("VIOLATION: raw-ness lives on the shared predicate object / differs between rewrite and delivery")
    sys.exit(1)
sys.exit(0)
