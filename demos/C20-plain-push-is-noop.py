"""C20 demo7: `stack.push()` used as a plain call (as `stack.pop()` / `stack.clear()` are) does nothing at
all: push is a generator-based context manager, so nothing is saved or reset until `__enter__`.
A handler written as  `self.stack.push(); self.name = ...`  paired with `self.stack.pop()` therefore pops a frame
it never pushed (IndexError on an empty stack, or -- worse -- silently restores the ENCLOSING frame).
Exits 1 when the violation shows."""
import sys

import pyccolo as pyc


class T(pyc.BaseTracer):
    def __init__(self, *a, **k):
        super().__init__(*a, **k)
        self.stack = self.make_stack()
        with self.stack.register_stack_state():
            self.v = "declared"


def main():
    t = T()
    t.v = "v0"
    with t.stack.push():
        t.v = "v1"
    t.stack.push()  # plain call
    observed = (len(t.stack), t.v)
    expected = (2, "declared")
    print("after `with push()` + plain `push()`: expected (len, v) == %r, observed %r" % (expected, observed))
    t.v = "v2"
    t.stack.pop()  # meant to undo the plain push
    print("after the matching pop:               expected (len, v) == %r, observed %r" % ((1, "v1"), (len(t.stack), t.v)))
    if observed != expected:
        print("VIOLATION: a plain push() call saves and resets nothing; the following pop unwinds the wrong frame")
        return 1
    print("ok")
    return 0


if __name__ == "__main__":
    sys.exit(main())
