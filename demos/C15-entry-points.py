"""C15 demo9: smaller entry-point defects.

a) the aliases pyc.execute / tracer.execute / tracer[...] add a frame that the caller-frame
   lookback does not count: with no mappings they run the text in pyccolo's own frame
   (result contains `args`, `kwargs`, `self`, `code`; caller's names are not visible)
b) long but legal programs (a 400-term sum, a 300-branch elif chain) raise RecursionError even
   with no tracer / no handlers; builtin exec compiles them
c) pyc.eval does not accept leading blanks that builtin eval accepts
d) exec_raw(<str>, do_eval=True) parses the string in exec mode and then fails to compile
"""
import sys
import pyccolo as pyc

bad = []


def outcome(fn):
    try:
        return ("ok", fn())
    except BaseException as e:  # noqa
        return ("raised", type(e).__name__, (getattr(e, "msg", None) or str(e))[:80])


def via(entry):
    zz = 5
    return entry("q = 1")


t = pyc.tracer()
for label, entry in [
    ("pyc.exec", pyc.exec),
    ("pyc.execute", pyc.execute),
    ("tracer.execute", t.execute),
    ("tracer[...]", t.__getitem__),
]:
    got = outcome(lambda: sorted(via(entry)))
    print(f"a) {label}: expected names ['entry', 'q', 'zz'] observed", got)
    if got != ("ok", ["entry", "q", "zz"]):
        bad.append(label)

want = outcome(lambda: eval(" 1 + 1", {}, {}))
got = outcome(lambda: pyc.eval(" 1 + 1", {}, {}))
print("c) eval(' 1 + 1'): expected", want, "observed", got)
if want != got:
    bad.append("eval blanks")

got = outcome(lambda: t.exec_raw("1 + 1", {}, {}, filename=None, do_eval=True))
print("d) exec_raw('1 + 1', do_eval=True): expected ('ok', 2) observed", got)
if got != ("ok", 2):
    bad.append("exec_raw do_eval")
sys.exit(1 if bad else 0)
