"""demo4: with after_stmt subscribed, the value of a module-level expression statement is retained by the
tracer; a generator (or any object with a finalizer) is then finalized *inside* handler dispatch, where event
handling is switched off: its after_for_loop_iter / after_function_execution are never delivered."""
import ast
import asyncio
import sys
import textwrap

import pyccolo as pyc


def trace(src, events, fname, run_async=None, env=None, silent=()):
    """Run src under a fresh tracer subscribed to `events`; return (stream, exception, env).
    stream entries: (event, node type, lineno, col_offset, source of node, repr(value))"""
    log = []

    class T(pyc.BaseTracer):
        instrument_all_files = True

        @pyc.register_handler(tuple(events))
        def h(self, ret, node, frame, event, *a, **kw):
            if isinstance(node, ast.AST):
                src_ = ast.unparse(node).split("\n")[0]
                log.append((event.value, type(node).__name__, getattr(node, "lineno", None),
                            getattr(node, "col_offset", None), src_, _r(ret)))
            else:
                log.append((event.value, None, None, None, node, _r(ret)))
            return None

        if silent:
            @pyc.register_handler(tuple(silent))
            def hs(self, ret, node, frame, event, *a, **kw):
                return None

    t = T.instance()
    env = {"__name__": "demo_mod"} if env is None else env
    exc = None
    try:
        with t.tracing_enabled():
            try:
                tree = t.make_ast_rewriter(fname).visit(ast.parse(textwrap.dedent(src)))
                exec(compile(tree, fname, "exec"), env)
                if run_async:
                    asyncio.run(env[run_async]())
            except BaseException as e:  # noqa
                exc = e
    finally:
        T.clear_instance()
    return log, exc, env


def _r(v):
    if type(v).__module__ == "builtins" and not callable(v) and " at 0x" not in repr(v):
        return repr(v)
    return "<%s>" % type(v).__name__


def report(title, expected, delivered):
    print(title)
    print("EXPECTED:")
    for e in expected:
        print("   ", e)
    print("DELIVERED:")
    for e in delivered:
        print("   ", e)
    if expected != delivered:
        print("VIOLATION: delivered stream differs from expected stream")
        sys.exit(1)
    print("no violation")
    sys.exit(0)

SRC = """
def g():
    for i in range(3):
        yield i
def start():
    it = g()
    next(it)
    return it
start()
x = 1
"""
BR = [pyc.before_function_body, pyc.after_function_execution, pyc.before_for_loop_body, pyc.after_for_loop_iter]
# every invocation / iteration that begins must also end: the started generator is dropped by statement 9
expected = [
    ("before_function_body", "FunctionDef", 5),
    ("before_function_body", "FunctionDef", 2),
    ("before_for_loop_body", "For", 3),
    ("after_function_execution", "FunctionDef", 5),
    ("after_for_loop_iter", "For", 3),
    ("after_function_execution", "FunctionDef", 2),
]
log0, exc0, _ = trace(SRC, BR, "<sandbox-demo4a>")
print("control (bracket events only) delivers the expected stream:", [(e[0], e[1], e[2]) for e in log0] == expected)
log, exc, _ = trace(SRC, BR + [pyc.after_stmt], "<sandbox-demo4b>")
delivered = [(e[0], e[1], e[2]) for e in log if e[0] != "after_stmt"]
assert exc is None, exc
report("bracket events (after_stmt additionally subscribed; after_stmt entries filtered out)", expected, delivered)
