"""C09 demo 3: two stacked tracers with sys handlers; user code installs a trace function (or uninstalls with
sys.settrace(None)) inside the inner context.  The inner tracer's patched sys.settrace rebuilds the inner
composed function directly on top of the user's function, so the OUTER tracer drops out of the chain: its
handlers get no further events (for the rest of the inner *and* of the outer context), and when the outer
context exits it reinstalls what was there before it, discarding the user's trace function."""
import sys
import pyccolo as pyc

outer_log, inner_log, mine_log = [], [], []


class Outer(pyc.BaseTracer):
    @pyc.register_raw_handler(pyc.call)
    def handle_outer(self, ret, node, frame, event, *_, **__):
        outer_log.append(frame.f_code.co_name)


class Inner(pyc.BaseTracer):
    @pyc.register_raw_handler(pyc.call)
    def handle_inner(self, ret, node, frame, event, *_, **__):
        inner_log.append(frame.f_code.co_name)


def mine(frame, evt, arg):
    if frame.f_code.co_filename == __file__ and evt == "call":
        mine_log.append(frame.f_code.co_name)
    return mine


def a():
    pass


def b():
    pass


def c():
    pass


def d():
    pass


def inner_part(uninstall):
    a()
    sys.settrace(mine)
    b()
    if uninstall:
        sys.settrace(None)
    c()


def run(uninstall):
    del outer_log[:], inner_log[:], mine_log[:]
    try:
        with Outer.instance():
            with Inner.instance():
                inner_part(uninstall)
            d()
        after = sys.gettrace()
    finally:
        sys.settrace(None)
    return list(outer_log), list(inner_log), list(mine_log), getattr(after, "__name__", after)


def main():
    bad = False
    for uninstall in (True, False):
        outer, inner, mine_seen, after = run(uninstall)
        exp_all = ["inner_part", "a", "b", "c"]
        exp_outer = exp_all + ["d"]
        exp_mine = ["b"] if uninstall else ["b", "c", "d"]
        exp_after = None if uninstall else "mine"
        # frames of pyccolo's own __exit__ machinery are in other files; only this file is accepted
        print("user code %s" % ("installs then uninstalls" if uninstall else "installs and leaves installed"))
        print("  expected: outer %r inner %r mine %r afterwards %r" % (exp_outer, exp_all, exp_mine, exp_after))
        print("  observed: outer %r inner %r mine %r afterwards %r" % (outer, inner, mine_seen, after))
        if (outer, inner, mine_seen, after) != (exp_outer, exp_all, exp_mine, exp_after):
            bad = True
    if bad:
        print("VIOLATION: the outer tracer is cut off / the user's trace function is not the one in place afterwards")
        return 1
    print("no violation")
    return 0


if __name__ == "__main__":
    sys.exit(main())
