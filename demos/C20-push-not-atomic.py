"""C20 demo2 (same root cause as demo1, different symptom): a registered field whose type cannot be
called without arguments (object with constructor arguments, function, Enum member, range, ...) makes
EVERY push raise TypeError -- and the failed push is not atomic: the frame has already been appended and the
fields whose initialisers ran before the failing one have already been reset, the others not.
A `with stack.push():` whose body never ran therefore leaves len(stack) == 1 and a half-reset tracer.
Exits 1 when the violation shows."""
import sys

import pyccolo as pyc


class Point:
    def __init__(self, x):
        self.x = x


class T(pyc.BaseTracer):
    def __init__(self, *a, **k):
        super().__init__(*a, **k)
        self.stack = self.make_stack()
        with self.stack.register_stack_state():
            self.a = []
            self.b = []
            self.c = []
            self.d = []
            self.p = Point(3)


def main():
    t = T()
    for n in "abcd":
        getattr(t, n).append(n)
    before = {n: getattr(t, n) for n in "abcdp"}
    body_ran = False
    exc = None
    try:
        with t.stack.push():
            body_ran = True
    except Exception as e:  # noqa
        exc = e
    if exc is None:
        t.stack.pop()
        print("ok (push worked)")
        return 0
    changed = [n for n in "abcdp" if getattr(t, n) is not before[n]]
    print("push raised: %r (body ran: %s)" % (exc, body_ran))
    print("expected: either the push works (p reset to an equivalent of the declared Point(3)), or it fails")
    print("          without side effects: len(stack) == 0, all fields still the objects they were")
    print("observed: len(stack) == %d, fields replaced by fresh values although the push failed: %s"
          % (len(t.stack), changed))
    if len(t.stack) != 0 or changed:
        print("VIOLATION: failed push left a frame / partially reset fields")
        return 1
    print("VIOLATION: a declared field makes push impossible")
    return 1


if __name__ == "__main__":
    sys.exit(main())
