"""C15 demo5: exec() runs textwrap.dedent(text).strip() on the program text; dedent rewrites
whitespace-only lines INSIDE string literals, so the program binds a different value.
(exec_raw does the same.)  Also: leading blank lines are stripped, so line numbers in
tracebacks / SyntaxErrors differ from the text that was passed.
"""
import sys
import traceback
import pyccolo as pyc

bad = []
text = 's = """a\n   \nb"""\nn = len(s)'
l = {}
exec(text, {}, l)
got = pyc.exec(text, {}, {})
print("text     :", repr(text))
print("expected :", l)
print("observed :", got)
if got != l:
    bad.append("exec")

g = {}
pyc.tracer().exec_raw(text, g, g, filename=None)
print("exec_raw : expected s ==", repr(l["s"]), "observed", repr(g["s"]))
if g["s"] != l["s"]:
    bad.append("exec_raw")


def lineno(runner):
    try:
        runner("\n\nx = 1\ny = 1/0", {}, {})
    except ZeroDivisionError as e:
        return traceback.extract_tb(e.__traceback__)[-1].lineno


want_ln, got_ln = lineno(exec), lineno(pyc.exec)
print("line of the failing statement in the traceback: expected", want_ln, "observed", got_ln)
if want_ln != got_ln:
    bad.append("lineno")
sys.exit(1 if bad else 0)
