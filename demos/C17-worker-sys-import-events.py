"""C17: events of code running in a worker thread ARE delivered to a tracer that has not opted
into multiple threads -- for the event kinds that do not go through emit_event._emit_tracer_loop.

A worker calls tracer.exec(...) on a tracer with multiple_threads_allowed = False.  The AST events
(after_stmt, init_module, ...) are withheld by the thread check, but
  * sys events (call / return): tracing_non_context -> _enable_tracing installs the tracer's sys
    trace function in the WORKER thread, and _sys_tracer has no thread check;
  * before_import / after_import: the finder is installed by (and so works for) the worker thread,
    and import_hooks.py calls tracer._emit_event directly;
are delivered to the ordinary handlers, on the worker thread.
"""
import os
import sys
import tempfile
import threading

import pyccolo as pyc

sys.dont_write_bytecode = True
delivered_off_main = []


class T(pyc.BaseTracer):
    multiple_threads_allowed = False

    def should_instrument_file(self, filename):
        return os.path.basename(filename) == "c17_demo7_mod.py"

    @pyc.register_raw_handler(
        (pyc.call, pyc.return_, pyc.after_stmt, pyc.init_module, pyc.before_import, pyc.after_import)
    )
    def on_event(self, ret, node_id, frame, event, *_, **__):
        if threading.current_thread() is not threading.main_thread():
            if frame.f_code.co_name != "should_instrument_file":
                delivered_off_main.append((event.value, frame.f_code.co_name))


def main():
    tmp = tempfile.mkdtemp()
    with open(os.path.join(tmp, "c17_demo7_mod.py"), "w") as f:
        f.write("a = 1\n")
    sys.path.insert(0, tmp)
    t = T.instance()

    def worker():
        t.exec("def f():\n    return 1\nf()\nimport c17_demo7_mod\n")

    th = threading.Thread(target=worker)
    th.start()
    th.join()
    print("worker thread runs tracer.exec(...) on a tracer with multiple_threads_allowed = False:")
    print("  expected: no event delivered on the worker thread")
    print(f"  observed: {delivered_off_main if delivered_off_main else 'none'}")
    return 1 if delivered_off_main else 0


if __name__ == "__main__":
    sys.exit(main())
