"""C09 demo 1: a callable that a traced generator yields (or any callable 'return' argument) is handed
to the interpreter as the frame's local trace function.  When the generator is resumed while the global
trace function declines the frame (inside tracer.tracing_disabled(), or after the context when a
third-party tracer that declines the frame is in place), the interpreter calls the *program's* callable
with (frame, 'line', None): spurious calls, or a TypeError raised inside the user's generator."""
import sys
import pyccolo as pyc

handler_log = []


class CallTracer(pyc.BaseTracer):
    @pyc.register_raw_handler(pyc.call)
    def handle_call(self, ret, node, frame, event, *_, **__):
        handler_log.append((event.value, frame.f_code.co_name))


spurious = []


def callback(*args):
    # a program value; nobody in the program ever calls it
    spurious.append(tuple(a if isinstance(a, (str, type(None))) else type(a).__name__ for a in args))


def gen_a():
    yield callback
    x = 1
    yield x


def gen_b():
    yield (lambda: "no parameters")
    x = 1
    yield x


def program_a(disabled):
    g = gen_a()
    first = next(g)
    with disabled():
        second = next(g)
    return callable(first), second


def program_b(disabled):
    g = gen_b()
    next(g)
    with disabled():
        return next(g)


def outcome(fn, *args):
    try:
        return ("ok", fn(*args))
    except BaseException as e:  # noqa
        return ("raised", type(e).__name__, str(e))


def main():
    import contextlib

    bad = False
    tracer = CallTracer.instance()
    # --- variant A: spurious invocations of the yielded callable
    exp_a = outcome(program_a, contextlib.nullcontext)
    assert spurious == []
    with tracer:
        obs_a = outcome(program_a, tracer.tracing_disabled)
    print("variant A (yielded callable accepts *args)")
    print("  expected: outcome %r, callable invoked 0 times" % (exp_a,))
    print("  observed: outcome %r, callable invoked %d times: %r" % (obs_a, len(spurious), spurious))
    if obs_a != exp_a or spurious:
        bad = True
    # --- variant B: the yielded callable takes no parameters -> TypeError inside the program
    exp_b = outcome(program_b, contextlib.nullcontext)
    with tracer:
        obs_b = outcome(program_b, tracer.tracing_disabled)
    print("variant B (yielded lambda takes no parameters)")
    print("  expected:", exp_b)
    print("  observed:", obs_b)
    if obs_b != exp_b:
        bad = True
    sys.settrace(None)
    # --- variant C: after the context; a third-party tracer that declines every frame is in place
    del spurious[:]

    def third_party(frame, evt, arg):
        return None

    g = gen_a()
    sys.settrace(third_party)
    try:
        with tracer:
            next(g)
        # the pyccolo context is over
        obs_c = outcome(next, g)
    finally:
        sys.settrace(None)
    print("variant C (generator resumed after the context, third-party global tracer declines the frame)")
    print("  expected: ('ok', 1), callable invoked 0 times")
    print("  observed: %r, callable invoked %d times: %r" % (obs_c, len(spurious), spurious))
    if obs_c != ("ok", 1) or spurious:
        bad = True
    if bad:
        print("VIOLATION: a value yielded by the program became the frame's trace function")
        return 1
    print("no violation")
    return 0


if __name__ == "__main__":
    sys.exit(main())
