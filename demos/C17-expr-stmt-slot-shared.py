"""C17: the value saved between a module-level statement's after_stmt emission and its
after_module_stmt emission (BaseTracer._saved_expr_stmt_ret) is one slot per tracer, shared by all
threads.  With a tracer that allows multiple threads, a statement run by a worker between the two
emissions of the main thread makes main's after_module_stmt handler receive
  (a) None instead of its own value (the worker's statement completed), or
  (b) the WORKER's value (the worker is itself between its two emissions).
Deterministic: main parks inside its own after_stmt handler; the worker runs code compiled under
tracing (no context is opened or closed by the worker).
"""
import sys
import threading

import pyccolo as pyc

main_in_handler = threading.Event()
worker_step_done = threading.Event()
worker_may_finish = threading.Event()
state = {"worker": False, "variant": "a"}
main_log = []


class T(pyc.BaseTracer):
    multiple_threads_allowed = True

    @pyc.register_raw_handler(pyc.after_stmt)
    def on_after_stmt(self, ret, node_id, frame, event, *_, **__):
        if threading.current_thread() is threading.main_thread():
            main_log.append(("after_stmt", ret))
            if state["worker"] and ret == 42:
                main_in_handler.set()
                worker_step_done.wait(10)
        elif ret == 99:
            # variant (b): the worker parks between its after_stmt and its after_module_stmt emission
            worker_step_done.set()
            worker_may_finish.wait(10)

    @pyc.register_raw_handler(pyc.after_module_stmt)
    def on_after_module_stmt(self, ret, node_id, frame, event, *_, **__):
        if threading.current_thread() is threading.main_thread():
            main_log.append(("after_module_stmt", ret))


def run(t, worker_code):
    del main_log[:]
    for ev in (main_in_handler, worker_step_done, worker_may_finish):
        ev.clear()
    state["worker"] = worker_code is not None

    def worker():
        main_in_handler.wait(10)
        exec(worker_code, {})
        worker_step_done.set()

    th = None
    if worker_code is not None:
        th = threading.Thread(target=worker)
        th.start()
    t.exec("40 + 2")
    if th is not None:
        worker_may_finish.set()
        th.join()
    return list(main_log)


def main():
    t = T.instance()
    bad = False
    with t:
        expected = run(t, None)
        for variant, src in (("a", "w = 7"), ("b", "90 + 9")):
            fname = f"<sandbox-worker-{variant}>"
            code = compile(t.parse(src, filename=fname), fname, "exec")
            observed = run(t, code)
            print(f"({variant}) worker runs {src!r} while main is between the two emissions of '40 + 2':")
            print(f"  expected main log: {expected}")
            print(f"  observed main log: {observed}")
            bad = bad or observed != expected
    return 1 if bad else 0


if __name__ == "__main__":
    sys.exit(main())
