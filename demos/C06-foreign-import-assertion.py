"""C06: importing a module inside two nested sys-level tracers raises AssertionError from the import hook when
the OUTER tracer does not instrument the file and the INNER one does; a third tracer that was switched off a
moment earlier for that import stays switched off for the rest of its context.

History:  enter Outer(sys, not its file); enter Inner(sys, its file); enter Third(sys, not its file);
          import m; call foo
Expected: the import succeeds; afterwards all three tracers' call handlers fire for foo.
Observed: the import raises AssertionError (TraceLoader.exec_module -> Outer._disable_tracing(): Outer's trace
          function is not the installed one, Inner's is); Third's handlers stay silent afterwards.
"""
import importlib
import os
import sys
import tempfile

import pyccolo as pyc

LOG = []
d = tempfile.mkdtemp(prefix="pyccolo_demo8_")
sys.path.insert(0, d)
with open(os.path.join(d, "demo8_mod.py"), "w") as f:
    f.write("x = 1\n")
importlib.invalidate_caches()


def make(name, instruments):
    class T(pyc.BaseTracer):
        def should_instrument_file(self, filename):
            return instruments and "demo8_mod" in filename

        @pyc.register_raw_handler(pyc.call)
        def handle_call(self, ret, node, frame, *_, **__):
            if frame.f_code.co_name == "foo":
                LOG.append(name)

    T.__name__ = T.__qualname__ = name
    return T


outer, inner, third = make("Outer", False).instance(), make("Inner", True).instance(), make("Third", False).instance()
env = {}
with pyc.tracing_disabled([outer, inner, third]):
    env.update(outer.exec("def foo():\n    return 1\n", env, env))

failed = False
with outer.tracing_enabled():
    with inner.tracing_enabled():
        with third.tracing_enabled():
            del LOG[:]
            env["foo"]()
            print("control, before the import: foo fires", sorted(LOG))
            try:
                importlib.import_module("demo8_mod")
                print("import: ok")
            except AssertionError as e:
                print("import: expected to succeed, observed AssertionError", e)
                failed = True
            del LOG[:]
            env["foo"]()
            print("after the import: foo fires: expected ['Inner', 'Outer', 'Third'], observed", sorted(LOG))
            failed |= sorted(LOG) != ["Inner", "Outer", "Third"]
sys.exit(1 if failed else 0)
