"""C18 demo6: the node table that accompanies the cached bytecode of an imported module is pickled from
ast_bookkeeper_by_fname[path] AFTER the module body has run.  If the module decorates one of its functions
with `tracer.instrumented`, that entry has meanwhile been replaced by the table of the single function, so
the .pkl describes only the function; in the next process every module-level emission resolves to None.

Expected: process 2 (bytecode from cache) hands out the same nodes as process 1."""
import os, subprocess, sys, tempfile, textwrap

DRIVER = textwrap.dedent('''
    import ast, sys
    sys.dont_write_bytecode = False
    import pyccolo as pyc
    class T(pyc.BaseTracer):
        def should_instrument_file(self, filename):
            return filename.endswith('mod_c18_demo6.py')
        @pyc.register_handler((pyc.after_stmt,))
        def h(self, ret, node, frame, event, *a, **k):
            if frame.f_code.co_filename.endswith('mod_c18_demo6.py'):
                print('EVT', 'None' if node is None else ast.unparse(node).splitlines()[0])
    with T.instance().tracing_enabled():
        import mod_c18_demo6
''')
MOD = textwrap.dedent('''
    import pyccolo as pyc
    x = 1
    @pyc.tracer().instrumented
    def f(a):
        b = a + x
        return b
    y = f(2)
''').lstrip()


def main():
    d = tempfile.mkdtemp(prefix='c18_demo6_')
    with open(os.path.join(d, 'driver.py'), 'w') as f:
        f.write(DRIVER)
    with open(os.path.join(d, 'mod_c18_demo6.py'), 'w') as f:
        f.write(MOD)
    env = dict(os.environ)
    env.pop('PYTHONDONTWRITEBYTECODE', None)
    env['PYTHONPATH'] = os.pathsep.join([d] + [p for p in env.get('PYTHONPATH', '').split(os.pathsep) if p])
    outs = []
    for i in (1, 2):
        p = subprocess.run([sys.executable, os.path.join(d, 'driver.py')], cwd=d, env=env, capture_output=True, text=True)
        outs.append([l for l in p.stdout.splitlines() if l.startswith('EVT')])
        if p.returncode:
            print(p.stderr[-1500:])
        print('process %d:' % i, outs[-1])
    if outs[0] != outs[1] or 'EVT None' in outs[0]:
        print('VIOLATION: expected process 2 == process 1 (all nodes resolved)')
        return 1
    return 0


if __name__ == '__main__':
    sys.exit(main())
