"""C11 demo9: local guards are registered against `current_module`, which only a whole-Module rewrite sets.
Rewriting an Expression (`tracer.eval("...")`) or a single function (`tracer.instrumented(f)`) with any guarded
handler fails with AssertionError at rewrite time; if some module WAS rewritten earlier, the guards are filed under
that stale module, nothing initialises them for the code at hand, and it dies with NameError at run time."""
import sys

import pyccolo as pyc

calls = []


class T(pyc.BaseTracer):
    @pyc.register_handler(pyc.init_module)
    def init_module(self, ret, node, frame, *_, **__):
        for guard in self.local_guards_by_module_id.get(id(node), []):
            frame.f_globals[guard] = False

    @pyc.register_handler(pyc.load_name, guard=lambda node: "_G_" + node.id)
    def h(self, ret, node, frame, evt, guard, *_, **__):
        calls.append(node.id)
        frame.f_globals[guard] = True


def fn(x):
    return x + x


t = T.instance()
bad = False
for label, thunk in (
    ("eval('x + x') before any module", lambda: t.eval("x + x", {"x": 1}, {"x": 1})),
    ("instrumented(fn)(2) before any module", lambda: t.instrumented(fn)(2)),
    ("exec of a module (control)", lambda: t.exec("y = 1\nz = y + y", {}, {})["z"]),
    ("eval('x + x') after a module was rewritten", lambda: t.eval("x + x", {"x": 1}, {"x": 1})),
):
    calls.clear()
    try:
        with t.tracing_enabled():
            res, err = thunk(), None
    except BaseException as e:  # noqa
        res, err = None, e
    print("%-45s expected 2 (handler called once); observed %r, handler calls %r, exception %r" % (label, res, calls, err))
    bad |= err is not None or res != 2
if bad:
    print("VIOLATION: code that is not a whole module cannot be rewritten / run with a guarded handler")
    sys.exit(1)
sys.exit(0)
