"""C08 demo 2: a deferred-event handler that runs the pending computation itself (calls the thunk
inside the handler, then returns a thunk yielding that value) gets a WRONG value whenever the
expression contains a subscript and some handler is subscribed to before_subscript_load/store/del:
the subscript is evaluated with index None.

"If a handler returns a replacement computation ..., that is what the program uses instead" and
"a replacement that calls the original evaluates the original" -- here the original, called from the
handler, computes d[None] instead of d[1]."""
import ast
import sys

import pyccolo as pyc


class EagerAssign(pyc.BaseTracer):
    @pyc.before_assign_rhs
    def eager(self, thunk, *_, **__):
        value = thunk()          # evaluate the original expression now ...
        return lambda: value     # ... and hand the program exactly that value

    @pyc.before_subscript_load
    def observe(self, ret, *_, **__):
        return None              # observe only


SRC = """
d = {None: 'value stored under None', 1: 'value stored under 1'}
y = d[1]
calls = []
def idx(): calls.append(1); return 1
lst = ['zero', 'one']
z = lst[idx()]
"""

plain = {}
exec(compile(SRC, "<plain>", "exec"), plain)
traced = {}
EagerAssign.instance().exec_raw(ast.parse(SRC), traced, traced, "<sandbox_demo2>")

print("expected y = %r, observed y = %r" % (plain["y"], traced.get("y")))
print("expected z = %r with idx() called %d time(s); observed z = %r with idx() called %d time(s)"
      % (plain["z"], len(plain["calls"]), traced.get("z"), len(traced.get("calls", []))))
print("  (lst[None] raised TypeError inside the handler; pyccolo swallows handler exceptions and falls back to the"
      " original thunk, which then ran a second time)")
if traced.get("y") != plain["y"] or len(traced.get("calls", [])) != len(plain["calls"]):
    print("VIOLATION: the original computation, called from the handler, evaluated d[None] instead of d[1]")
    sys.exit(1)
print("no violation")
sys.exit(0)
