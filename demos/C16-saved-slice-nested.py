"""C16 (and the saved-slice slot of C17): an instrumented subscript evaluated by a 'line' handler
changes the RESULT of the program's own subscript.

The rewritten `d[k]` is  emit(before_subscript_load, ..., attr_or_subscript=k)[emit(_load_saved_slice)].
The index travels between the two emissions in one slot per thread (emit_event._saved_slice).
When the index is written on a line of its own, a sys 'line' event falls between the two
emissions.  A 'line' handler is not treated as a running handler, and even a nested emission that
is withheld writes and clears the slot, so a subscript evaluated by the handler (a debugger-like
watch expression here) leaves None in the slot: the program reads d[None] instead of d['x'].
"""
import sys

import pyccolo as pyc

PROGRAM = """
def prog(d, k):
    return d[
        k
    ]
out = prog({'x': 10, None: -1}, 'x')
"""


class T(pyc.BaseTracer):
    watch = False

    @pyc.register_raw_handler(pyc.line)
    def on_line(self, ret, node_id, frame, event, *_, **__):
        if self.watch and frame.f_code.co_name == "prog":
            self.eval("tbl['a']", {"tbl": {"a": 1}})  # the handler evaluates a watch expression

    @pyc.register_raw_handler(pyc.before_subscript_load)
    def on_subscript(self, ret, *_, **__):
        pass


def main():
    t = T.instance()
    expected = t.exec(PROGRAM)["out"]
    T.watch = True
    try:
        observed = t.exec(PROGRAM)["out"]
    except BaseException as exc:  # a mapping without the key None raises KeyError(None)
        observed = repr(exc)
    print("prog({'x': 10, None: -1}, 'x') with a 'line' handler that evaluates tbl['a']:")
    print(f"  expected result: {expected}")
    print(f"  observed result: {observed}")
    return 1 if observed != expected else 0


if __name__ == "__main__":
    sys.exit(main())
