"""C04 demo 6: `after_stmt` on a module-level expression statement (`42`): the value left by the after_stmt
handlers is what the statement "continues with" -- it is handed on as the `ret` of `after_module_stmt`.
The hand-over is done by a BaseTracer handler (`_save_expr_stmt_ret_for_later`) that runs FIRST inside every tracer
and a load event whose last answer wins, so what arrives is the value as it ENTERED THE LAST tracer:
  one tracer, after_stmt handler returns 5          -> after_module_stmt is told 42
  A returns 5, B (last) returns nothing             -> after_module_stmt is told 5
  A returns nothing, B (last) returns 5             -> after_module_stmt is told 42
The fold leaves 5 in all three arrangements (and "always the original 42" would at least be one rule)."""
import sys

import pyccolo as pyc

told = []


def make(name, after_stmt_outcome):
    def on_after_stmt(self, ret, *_, **__):
        return after_stmt_outcome

    def on_after_module_stmt(self, ret, *_, **__):
        told.append((name, ret))

    return type(pyc.BaseTracer)(
        name,
        (pyc.BaseTracer,),
        dict(
            on_after_stmt=pyc.register_handler(pyc.after_stmt)(on_after_stmt),
            on_after_module_stmt=pyc.register_handler(pyc.after_module_stmt)(on_after_module_stmt),
        ),
    )


def run(classes):
    del told[:]
    if len(classes) == 1:
        with classes[0].instance():
            pyc.exec("42", local_env={})
    else:
        with classes[0].instance():
            with classes[1].instance():
                pyc.exec("42", local_env={})
    for cls in classes:
        cls.clear_instance()
    return told[0][1]  # what the first after_module_stmt handler is told


single = run([make("A", 5)])
first_overrides = run([make("A", 5), make("B", None)])
last_overrides = run([make("A", None), make("B", 5)])
if not (single == first_overrides == last_overrides == 5):
    print("VIOLATION (C04, after_stmt value handed to after_module_stmt)")
    print(" expected: after_module_stmt is told 5 (the value left by the after_stmt handlers) in all three arrangements")
    print(f" observed: one tracer returning 5 -> {single!r}; [A:5, B:nothing] -> {first_overrides!r}; [A:nothing, B:5] -> {last_overrides!r}")
    sys.exit(1)
print("ok")
