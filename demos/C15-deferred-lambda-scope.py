"""C15 demo7 (instrumented): a handler on any before-expression event makes the rewriter wrap
the program's own expression in a lambda.  That moves it into another scope:

* pyc.eval with distinct locals: names of the local mapping are not found (NameError)
* pyc.exec: a walrus binding made inside the wrapped expression is dropped from the result,
  locals() inside it is empty, a class body can no longer read its own names
"""
import sys
import pyccolo as pyc

bad = []


class T(pyc.BaseTracer):
    @pyc.register_raw_handler(
        (pyc.before_list_literal, pyc.before_assign_rhs, pyc.before_fstring)
    )
    def h(self, ret, *_, **__):
        return None  # change nothing


t = T.instance()


def outcome(fn):
    try:
        return ("ok", fn())
    except BaseException as e:  # noqa
        return ("raised", type(e).__name__, str(e))


for expr in ["[a]", "f'{a}'"]:
    want = outcome(lambda: eval(expr, {}, {"a": 1}))
    got = outcome(lambda: t.eval(expr, {}, {"a": 1}))
    print(f"eval({expr!r}, {{}}, {{'a': 1}})")
    print("   expected:", want)
    print("   observed:", got)
    if want != got:
        bad.append(expr)


def py_exec(text):
    l = {}
    exec(text, {}, l)
    return l


for text in [
    "r = (w := 3) + 1",
    "x = 1\nr = sorted(locals())",
    "class C:\n    a = 1\n    b = [a]\nr = C.b",
]:
    want = outcome(lambda: {k: v for k, v in py_exec(text).items() if k != "C"})
    got = outcome(lambda: {k: v for k, v in t.exec(text, {}, {}).items() if k != "C"})
    print(f"exec({text!r})")
    print("   expected:", want)
    print("   observed:", got)
    if want != got:
        bad.append(text)
sys.exit(1 if bad else 0)
