"""C11 demo6: in the guarded-off copy of a loop body (global guards enabled; emitted for `exempt_from_guards`
handlers) the guard-naming function and the `when=` condition are called with a THROWAWAY copy of the node, not
with the registered node the handler is later given.  Any naming / condition based on node identity
(`"_guard_%d" % id(node)`, raw node ids, lookups in the tracer's bookkeeping) therefore gives a different answer
for the SAME occurrence: the handler sets its guard at the first occurrence and is called again at the next."""
import ast
import sys

import pyccolo as pyc

calls = []
raw_calls = []


class T(pyc.BaseTracer):
    global_guards_enabled = True

    @pyc.register_handler(pyc.init_module)
    def init_module(self, ret, node, frame, *_, **__):
        for guard in self.local_guards_by_module_id.get(id(node), []):
            frame.f_globals[guard] = False

    # after the first iteration, switch the loop to its guarded-off copy (the usual use of global guards)
    @pyc.register_raw_handler(pyc.after_for_loop_iter)
    def after_iter(self, ret, node_id, frame, evt, *_, guard=None, **__):
        self.activate_guard(guard)

    @pyc.register_handler(
        pyc.load_name,
        when=lambda node: node.id == "v",
        guard=lambda node: "_guard_%d" % id(node),
        exempt_from_guards=True,
    )
    def load_v(self, ret, node, frame, evt, guard, *_, **__):
        calls.append((node.id, node.lineno, id(node), guard))
        frame.f_globals[guard] = True  # once per node is enough

    # a condition over the raw node id: "is this one of the nodes the tracer knows about?"
    @pyc.register_raw_handler(
        pyc.after_call,
        when=lambda node_id: node_id in T.ast_node_by_id,
        exempt_from_guards=True,
    )
    def call(self, ret, node_id, *_, **__):
        raw_calls.append(self.ast_node_by_id[node_id].lineno)


SRC = "v = 1\nfor i in range(3):\n    w = v\n    u = abs(i)\n"
t = T.instance()
with t.tracing_enabled():
    tree = t.make_ast_rewriter("<sandbox_demo6>").visit(ast.parse(SRC))
    exec(compile(tree, "<sandbox_demo6>", "exec"), {})

print("load_name handler with guard named after id(node):")
print("  expected: 1 call for the one `v` on line 3 (it sets its guard at the first occurrence)")
print("  observed: %d calls:" % len(calls))
for c in calls:
    print("    node id %d (line %d) called with guard %s" % (c[2], c[1], c[3]))
raw_calls[:] = [ln for ln in raw_calls if ln == 4]  # ignore range(3) on line 2
print("after_call raw handler, condition `node_id in ast_node_by_id` (true for every registered node):")
print("  expected calls for abs(i) on line 4 in all 3 iterations: [4, 4, 4]; observed:", raw_calls)
bad = len(calls) != 1 or raw_calls != [4, 4, 4]
if bad:
    print("VIOLATION: guard maker / condition are asked about a temporary copy in guarded-off code")
    sys.exit(1)
sys.exit(0)
