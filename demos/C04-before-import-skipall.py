"""C04 demo 4: `before_import` (ret = source path) and SkipAll.
The import hook (TraceLoader.get_filename) calls each tracer's `_emit_event` itself instead of going through the
stack loop of emit_event.py, and does not unpack the internal pair `(SkipAll, value)` that a tracer returns when one
of its handlers returned SkipAll.  With ONE tracer whose only before_import handler returns SkipAll, the value left
is the unchanged path, so the import must succeed; instead the pair becomes "the path" and the import dies with
AttributeError: 'tuple' object has no attribute 'rsplit'.  With two tracers the next tracer's handler is still run
(SkipAll does not end it) and is told the pair as `ret`."""
import importlib
import os
import sys
import tempfile

import pyccolo as pyc

sys.dont_write_bytecode = True
tmpdir = tempfile.mkdtemp()
with open(os.path.join(tmpdir, "c04_demo4_mod.py"), "w") as f:
    f.write("VAL = 'ok'\n")
sys.path.insert(0, tmpdir)

told = []


class SkipsAll(pyc.BaseTracer):
    def should_instrument_file(self, filename):
        return filename.startswith(tmpdir)

    @pyc.register_raw_handler(pyc.before_import)
    def before(self, ret, *_, qualified_module_name=None, **__):
        if qualified_module_name == "c04_demo4_mod":
            return pyc.SkipAll


class Other(pyc.BaseTracer):
    def should_instrument_file(self, filename):
        return filename.startswith(tmpdir)

    @pyc.register_raw_handler(pyc.before_import)
    def before(self, ret, *_, qualified_module_name=None, **__):
        if qualified_module_name == "c04_demo4_mod":
            told.append(ret)


def attempt(classes):
    sys.modules.pop("c04_demo4_mod", None)
    try:
        if len(classes) == 1:
            with classes[0].instance():
                return importlib.import_module("c04_demo4_mod").VAL
        with classes[0].instance():
            with classes[1].instance():
                return importlib.import_module("c04_demo4_mod").VAL
    except Exception as exc:  # noqa
        return f"import raised {type(exc).__name__}: {exc}"
    finally:
        sys.modules.pop("c04_demo4_mod", None)


problems = []
single = attempt([SkipsAll])
if single != "ok":
    problems.append(f"one tracer, before_import handler returns SkipAll: expected the module to import (VAL == 'ok'); observed: {single}")
del told[:]
attempt([Other, SkipsAll])  # the hook visits the stack in reverse, so SkipsAll's handler runs first
if any(isinstance(r, tuple) for r in told):
    problems.append(f"two tracers: the tracer after the SkipAll must not run at all; it ran and was told ret={told[0]!r}")

if problems:
    print("VIOLATION (C04, SkipAll on before_import)")
    for p in problems:
        print(" -", p)
    sys.exit(1)
print("ok")
