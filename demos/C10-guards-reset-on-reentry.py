"""demo4: an activated guard does not stay active until the tracer deactivates it: leaving the tracing
context and entering it again silently deactivates EVERY guard.  With the `instrumented` decorator (one
tracing context per call) a function guard therefore never outlives the call in which it was activated.

Property C10: invocations that start while the guard is active deliver no events from that body until the
guard is deactivated.  (No deactivate_guard call is ever made here.)
"""
import ast
import sys

import pyccolo as pyc

LOG = []


class T(pyc.BaseTracer):
    global_guards_enabled = True
    instrument_all_files = True

    @pyc.register_raw_handler(pyc.after_function_execution)
    def bracket(self, ret, node, frame, event, *a, guard=None, **kw):
        LOG.append("bracket")
        self.activate_guard(guard)  # never deactivated by this tracer

    @pyc.register_raw_handler(pyc.load_name)
    def load(self, ret, node, frame, event, *a, **kw):
        n = self.ast_node_by_id.get(node)
        if getattr(n, "id", None) == "x":
            LOG.append("x")  # `x` is only loaded inside the body of f


SRC_DEF = """
def f(x):
    return x + 1
r1 = f(1)      # instrumented; its bracket event activates f's guard
r2 = f(2)      # guard active: silent
"""
SRC_CALL = "r3 = f(3)\n"

t = T.instance()
env = {}
with t.tracing_enabled():
    exec(compile(t.make_ast_rewriter("<demo4-a>").visit(ast.parse(SRC_DEF)), "<demo4-a>", "exec"), env)
first_ctx = list(LOG)
LOG.clear()
with t.tracing_enabled():  # e.g. the next notebook cell / the next tracer.exec(...) call
    exec(compile(t.make_ast_rewriter("<demo4-b>").visit(ast.parse(SRC_CALL)), "<demo4-b>", "exec"), env)
second_ctx = list(LOG)
LOG.clear()

print("first context : events from f's body:", first_ctx, "(expected ['x', 'bracket']: only the first call)")
print("second context: events from f's body:", second_ctx, "(expected []: the guard was never deactivated)")


# the same through the public `instrumented` decorator
def g(x):
    return x + 1


g_traced = t.instrumented(g)
per_call = []
for arg in (1, 2, 3):
    LOG.clear()
    g_traced(arg)
    per_call.append(list(LOG))
print("instrumented(g), events per call:", per_call, "(expected [['x', 'bracket'], [], []])")

bad = False
if first_ctx != ["x", "bracket"]:
    print("unexpected baseline in the first context")
if second_ctx:
    bad = True
    print("VIOLATION: expected no events from f's body in the second context, observed", second_ctx)
if per_call[1:] != [[], []]:
    bad = True
    print("VIOLATION: expected calls 2 and 3 of the instrumented function to be silent, observed", per_call[1:])
sys.exit(1 if bad else 0)
