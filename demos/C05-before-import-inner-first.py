"""C05 (service order): `before_import` is delivered innermost tracer first.

Two observing tracers A (outer) and B (inner) both subscribe to before_import / init_module / load_name /
after_import and both instrument a small module that is imported while both are active.  For every
occurrence the tracers must be served in activation order (A then B).  init_module, load_name, after_import
are; before_import is served B then A (TraceLoader.get_filename loops over reversed(self._tracers)).
"""
import os
import shutil
import sys
import tempfile

import pyccolo as pyc

MOD = "c05_demo1_mod"
log = []


def mk(tag):
    class T(pyc.BaseTracer):
        bytecode_caching_allowed = False

        def should_instrument_file(self, filename):
            return filename.endswith(MOD + ".py")

        @pyc.register_raw_handler(
            (pyc.before_import, pyc.init_module, pyc.load_name, pyc.after_import)
        )
        def h(self, ret, node_id, frame, event, *_, **__):
            log.append((tag, event.name))

    T.__name__ = tag
    return T


A, B = mk("A"), mk("B")
d = tempfile.mkdtemp()
try:
    with open(os.path.join(d, MOD + ".py"), "w") as f:
        f.write("x = 1\ny = x\n")
    sys.path.insert(0, d)
    with A.instance():
        with B.instance():
            __import__(MOD)
finally:
    sys.path.remove(d)
    shutil.rmtree(d, ignore_errors=True)

# group consecutive entries of the same event kind into occurrences of two deliveries each
bad = []
for i in range(0, len(log) - 1, 2):
    (t1, e1), (t2, e2) = log[i], log[i + 1]
    if e1 == e2 and (t1, t2) != ("A", "B"):
        bad.append((e1, t1, t2))
if bad:
    print("VIOLATION (C05 order): expected every occurrence served A (outer) then B (inner)")
    print("observed log:", log)
    print("occurrences served in the wrong order:", bad)
    sys.exit(1)
print("ok: all occurrences served outermost first", log)
sys.exit(0)
