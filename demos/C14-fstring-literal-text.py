"""C14 demo 4: the literal part of an f-string that spells the token is rewritten (Python >= 3.12 tokenization)

Run with pyccolo importable (PYTHONPATH); exits 1 and prints expected vs observed when the violation shows, 0 otherwise."""
import ast
import sys

import pyccolo as pyc
from pyccolo.syntax_augmentation import (
    AugmentationSpec,
    AugmentationType,
    make_syntax_augmenter,
)


def make_tracer(specs):
    """A tracer declaring `specs`; its handlers log (kind, name, lineno, tokens) for every node that
    get_augmentations() reports as augmented, at load_name / after_attribute_load / after_binop."""
    specs = list(specs)
    log = []

    class Tr(pyc.BaseTracer):
        @property
        def syntax_augmentation_specs(self):
            return specs

        def _note(self, kind, name, node):
            augs = self.get_augmentations(id(node))
            if augs:
                log.append((kind, name, node.lineno, tuple(sorted(s.token for s in augs))))

        @pyc.load_name
        def _h_name(self, ret, node, *_, **__):
            self._note("Name", node.id, node)
            return ret

        @pyc.after_attribute_load
        def _h_attr(self, ret, node, *_, **__):
            self._note("Attribute", node.attr, node)
            return ret

        @pyc.after_binop
        def _h_binop(self, ret, node, *_, **__):
            self._note("BinOp", type(node.op).__name__, node)
            return ret

    tracer = Tr.instance()
    tracer.aug_log = log
    return tracer


PRELUDE = (
    "class O:\n"
    "    def __init__(self, **kw):\n"
    "        self.__dict__.update(kw)\n"
    "a = O(b=O(c=5), n=1)\n"
    "x = 3\n"
    "y = 4\n"
    "f = abs\n"
)
N_PRELUDE = PRELUDE.count("\n")


class _Recorder:
    """stands in for the AstRewriter: the augmenter only calls register_augmented_position on it"""

    def __init__(self):
        self.positions = []

    def register_augmented_position(self, spec, lineno, col_offset):
        self.positions.append((lineno, col_offset))


def augment(src, spec):
    """the library's text transformation for one spec: (rewritten text, recorded (line, col) of each hit)"""
    rec = _Recorder()
    return make_syntax_augmenter(rec, spec)(src), rec.positions


def run(specs, body):
    """exec PRELUDE + body under a fresh tracer; returns (env or exception, sorted log)"""
    tracer = make_tracer(specs)
    try:
        env = tracer.exec(PRELUDE + body, {})
    except BaseException as e:  # noqa
        return e, sorted(tracer.aug_log)
    return env, sorted(tracer.aug_log)


failures = []


def check(what, expected, observed):
    ok = expected == observed
    print(("ok   " if ok else "FAIL ") + what)
    if not ok:
        print("     expected:", expected)
        print("     observed:", observed)
        failures.append(what)


def finish():
    if failures:
        print("%d violation(s) shown" % len(failures))
        sys.exit(1)
    print("no violation shown")
    sys.exit(0)
# ---- demo 4: the literal part of an f-string that spells the token is rewritten (Python >= 3.12 tokenization) ----
dot = AugmentationSpec(AugmentationType.dot, "?.", ".")
prefix = AugmentationSpec(AugmentationType.prefix, "$", "")
binop = AugmentationSpec(AugmentationType.binop, "|>", "|")

src = 'price = f"${x}"\n'
out, pos = augment(src, prefix)
check('f"${x}": text untouched', src, out)
check('f"${x}": no position recorded', [], pos)

src = 'msg = f"{x}?.{y}"\n'
out, pos = augment(src, dot)
check('f"{x}?.{y}": text untouched', src, out)

src = 'msg = f"|>{x}"\n'
out, pos = augment(src, binop)
check('f"|>{x}": text untouched', src, out)

# control: plain strings are left alone, replacement fields are code
out, pos = augment('p = "${x}" + f"{a?.b}"\n', prefix)
check("control: plain string", 'p = "${x}" + f"{a?.b}"\n', out)

res, log = run([prefix], 'price = f"${x}"\n')
check('exec: value of f"${x}"', "$3", res["price"] if not isinstance(res, BaseException) else repr(res))
res, log = run([dot], 'msg = f"{x}?.{y}"\n')
check('exec: value of f"{x}?.{y}"', "3?.4", res["msg"] if not isinstance(res, BaseException) else repr(res))
finish()
