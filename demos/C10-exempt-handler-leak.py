"""demo1: registering ONE guard-exempt handler for an event makes the guarded-off copy of every loop body
deliver that event to ALL handlers of the event, including the ordinary (non-exempt) ones.

Property C10: after the guard of a loop is activated, iterations that start while it is active deliver no
events from that body, except to handlers registered as guard-exempt.
"""
import ast
import sys

import pyccolo as pyc

SRC = """
out = []
for i in range(4):
    out.append(i)
"""


def run(tracer_cls, log):
    log.clear()
    env = {}
    t = tracer_cls.instance()
    with t.tracing_enabled():
        tree = t.make_ast_rewriter("<demo1-%s>" % tracer_cls.__name__).visit(ast.parse(SRC))
        exec(compile(tree, "<demo1>", "exec"), env)
    return env["out"]


LOG = []


class OnlyOrdinary(pyc.BaseTracer):
    global_guards_enabled = True
    instrument_all_files = True

    @pyc.register_raw_handler(pyc.after_for_loop_iter)
    def bracket(self, ret, node, frame, event, *a, guard=None, **kw):
        LOG.append(("bracket", None))
        self.activate_guard(guard)  # activated at the end of iteration 0

    @pyc.register_raw_handler(pyc.load_name)
    def ordinary(self, ret, node, frame, event, *a, **kw):
        LOG.append(("ordinary", self.ast_node_by_id[node].id))


class WithExempt(pyc.BaseTracer):
    global_guards_enabled = True
    instrument_all_files = True

    @pyc.register_raw_handler(pyc.after_for_loop_iter)
    def bracket(self, ret, node, frame, event, *a, guard=None, **kw):
        LOG.append(("bracket", None))
        self.activate_guard(guard)  # activated at the end of iteration 0

    @pyc.register_raw_handler(pyc.load_name)
    def ordinary(self, ret, node, frame, event, *a, **kw):
        LOG.append(("ordinary", self.ast_node_by_id[node].id))

    @pyc.register_raw_handler(pyc.load_name, exempt_from_guards=True)
    def exempt(self, ret, node, frame, event, *a, **kw):
        LOG.append(("exempt", self.ast_node_by_id[node].id))


def body_loads(who):
    # loads of `out` / `i` are the events that come from the loop body (`range` is the loop's iterable)
    return [x for x in LOG if x[0] == who and x[1] in ("out", "i")]


out_a = run(OnlyOrdinary, LOG)
base = len(body_loads("ordinary"))
out_b = run(WithExempt, LOG)
ordinary = len(body_loads("ordinary"))
exempt = len(body_loads("exempt"))
brackets = len([x for x in LOG if x[0] == "bracket"])

print("results:", out_a, out_b)
print("bracket events (guard activated at the first one):", brackets)
print("ordinary handler, no exempt handler registered: %d body events (expected 2: iteration 0 only)" % base)
print("exempt handler:                                 %d body events (expected 8: all 4 iterations)" % exempt)
print("ordinary handler, exempt handler also registered: %d body events (expected 2: iteration 0 only)" % ordinary)

ok = out_a == out_b == [0, 1, 2, 3] and base == 2 and brackets == 1
if not ok:
    print("unexpected baseline, demo inconclusive")
    sys.exit(0)
if ordinary != 2:
    print(
        "VIOLATION: expected the non-exempt handler to get 2 events from the loop body (iteration 0), "
        "observed %d: iterations 1-3 started while the guard was active and still delivered load_name "
        "events to a handler that is NOT guard-exempt" % ordinary
    )
    sys.exit(1)
print("no violation")
sys.exit(0)
