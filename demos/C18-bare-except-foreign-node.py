"""C18 demo4: for a bare `except:` the rewriter invents a Name node (BaseException) inside the tree that is
compiled and bakes ITS id into the exception_handler_type emission.  That node is in no table and dies
with the rewritten tree; its address is then free for nodes of later instrumentations.

Expected: the handler of the bare `except:` of bare_c18_demo4.py is always given the same thing: a node of
bare_c18_demo4.py (or consistently None).  Observed: None at first, later a node of an unrelated file."""
import ast, gc, re, sys
import pyccolo as pyc


class T(pyc.BaseTracer):
    def __init__(self, *a, **k):
        super().__init__(*a, **k)
        self.seen = []

    @pyc.register_handler(pyc.exception_handler_type)
    def h(self, ret, node, frame, event, *a, **k):
        if frame.f_code.co_filename == 'bare_c18_demo4.py':
            self.seen.append(node)


N = 40
SRC = "".join("""
def f%d():
    try:
        raise ValueError()
    except:
        return 1
""" % i for i in range(N))


def owner(node):
    return sorted(f for f, bk in T.ast_bookkeeper_by_fname.items() if id(node) in bk.ast_node_by_id)


def main():
    t = T.instance()
    env = {}
    # trees of other files, parsed ahead of time (e.g. a batch of cells / modules)
    others = [ast.parse("a = b.c(d)[e] + f(g, h)\n" * (1 + i % 7)) for i in range(200)]
    with t.tracing_enabled(tracing_enabled_file='bare_c18_demo4.py'):
        tree = t.make_ast_rewriter('bare_c18_demo4.py').visit(ast.parse(SRC))
        nids = [int(m) for m in re.findall(r"exception_handler_type', (\d+)", ast.unparse(tree))]
        assert len(nids) == N
        print('ids baked into the emissions that are in ast_node_by_id: %d of %d' % (sum(n in T.ast_node_by_id for n in nids), N))
        exec(compile(tree, 'bare_c18_demo4.py', 'exec'), env)
        del tree
        gc.collect()
        for k in range(N):
            env['f%d' % k]()
        print('first calls: handlers got', set(t.seen))
        k = 0
        for i, o in enumerate(others):
            t.make_ast_rewriter('other_c18_demo4_%d.py' % i).visit(o)
            hit = [j for j, n in enumerate(nids) if n in T.ast_node_by_id]
            if hit:
                k = hit[0]
                print('after instrumenting %d other files the id used by f%d is taken by a node of' % (i + 1, k), owner(T.ast_node_by_id[nids[k]]))
                break
        env['f%d' % k]()
        got = t.seen[-1]
        print('later call : handler got', None if got is None else '%s %r of %s' % (type(got).__name__, ast.unparse(got), owner(got)))
    if got is not None and 'bare_c18_demo4.py' not in owner(got):
        print('VIOLATION: expected a node of bare_c18_demo4.py (or None as before); observed a node of another file')
        return 1
    if t.seen[0] is None:
        print('(no address reuse this time; the emission still refers to an unregistered node: node=None)')
    return 0


if __name__ == '__main__':
    sys.exit(main())
