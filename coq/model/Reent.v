(* Re-entrancy model (C16): emissions whose handlers run instrumented code, i.e. produce nested emissions.
   A behaviour is a finite tree: the unfolding of one run.  Transcribes the switch handling of
   emit_event._emit_event / _emit_tracer_loop / allow_reentrant_event_handling and the per-tracer / per-handler
   gating of tracer._emit_event.  No proofs in this file. *)
From Coq Require Import List NArith Bool.
Import ListNotations.

Inductive ctl : Set := CContinue | CSkip | CSkipAll.
Inductive tag : Set :=
  | TgEm                                          (* one dynamic emission; children: a TgTracer per stacked tracer *)
  | TgTracer (allow_re propagate hard_disabled multi : bool)   (* children: a TgHandler per handler of the event, definition order *)
  | TgHandler (id : N) (reentrant raises : bool) (c : ctl) (* children: what the handler body does if invoked (acts), then it raises
                                                     or returns nothing / Skip / SkipAll *)
  | TgRegion                                      (* with allow_reentrant_event_handling(): acts *)
  | TgCatch.                                      (* try: acts  except Exception: pass *)
Inductive node : Set := Node (t : tag) (cs : list node).

Record st : Set := {
  fA : bool;               (* _allow_event_handling *)
  fR : bool;               (* _allow_reentrant_event_handling *)
  depth : nat;             (* handlers currently running *)
  in_main : bool;          (* running in the main thread? (constant) *)
  log : list (nat * bool * N)  (* per handler invocation: handlers already running, opted-in?, handler occurrence id *)
}.
Definition set_flags (s : st) (a r : bool) : st := {| fA := a; fR := r; depth := depth s; in_main := in_main s; log := log s |}.

(* ---- the inner loops of `run`, named *)
Definition aloop_of (f : node -> st -> bool * st) : list node -> st -> bool * st :=
  fix aloop (az : list node) (s : st) {struct az} : bool * st :=
    match az with
    | [] => (false, s)
    | a :: az' => let '(r, s') := f a s in if r then (true, s') else aloop az' s'
    end.

Definition invoke (f : node -> st -> bool * st) (id : N) (allow_re reentrant : bool) (acts : list node) (s : st) : bool * st :=
  let opted := fR s || (allow_re && reentrant) in
  let s_in := {| fA := fA s; fR := fR s; depth := S (depth s); in_main := in_main s; log := log s ++ [(depth s, opted, id)] |} in
  let '(r, s_out) := aloop_of f acts s_in in
  (r, {| fA := fA s_out; fR := fR s_out; depth := depth s; in_main := in_main s; log := log s_out |}).

Definition hloop_of (f : node -> st -> bool * st) (re_only allow_re propagate : bool) : list node -> st -> nat * st :=
  fix hloop (hs : list node) (s : st) {struct hs} : nat * st :=
    match hs with
    | [] => (0, s)
    | Node (TgHandler id reentrant raises c) acts :: hs' =>
        if re_only && negb reentrant then hloop hs' s
        else
          let '(r, s') := invoke f id allow_re reentrant acts s in
          if r || raises then if propagate then (2, s') else hloop hs' s'
          else match c with CContinue => hloop hs' s' | CSkip => (0, s') | CSkipAll => (1, s') end
    | _ :: hs' => hloop hs' s
    end.

Definition tloop_of (f : node -> st -> bool * st) (is_re re_only : bool) : list node -> st -> bool * st :=
  fix tloop (ts : list node) (s : st) {struct ts} : bool * st :=
    match ts with
    | [] => (false, s)
    | Node (TgTracer allow_re propagate hard_disabled multi) handlers :: ts' =>
        if negb (in_main s) && negb multi then tloop ts' s        (* thread check *)
        else if is_re && negb allow_re && negb (fR s) then tloop ts' s
        else if hard_disabled then tloop ts' s
        else
          let '(res, s') := hloop_of f re_only allow_re propagate handlers s in
          match res with 0 => tloop ts' s' | 1 => (false, s') | _ => (true, s') end
    | _ :: ts' => tloop ts' s
    end.


(* result: true = an exception propagates out *)
Fixpoint run (n : node) (s : st) {struct n} : bool * st :=
  match n with
  | Node TgEm tracers =>
      let is_re := negb (fA s) in
      let re_only := is_re && negb (fR s) in
      let '(raised, s1) := tloop_of run is_re re_only tracers (set_flags s false (fR s)) in
      (raised, set_flags s1 (fA s) (fR s))                     (* finally: both switches restored *)
  | Node TgRegion acts =>
      let '(r, s1) := aloop_of run acts (set_flags s (fA s) true) in
      (r, set_flags s1 (fA s1) (fR s))
  | Node TgCatch acts =>
      let '(r, s1) := aloop_of run acts s in (false, s1)
  | Node _ _ => (false, s)
  end.

Definition st0 : st := {| fA := true; fR := false; depth := 0; in_main := true; log := [] |}.
Definition st0_worker : st := {| fA := true; fR := false; depth := 0; in_main := false; log := [] |}.

(* a sequence of top-level emissions (program statements) *)
Fixpoint run_all (ns : list node) (s : st) : list bool * st :=
  match ns with
  | [] => ([], s)
  | n :: ns' => let '(r, s1) := run n s in let '(rs, s2) := run_all ns' s1 in (r :: rs, s2)
  end.
