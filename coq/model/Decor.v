(* The `instrumented` decorator (tracer.py::_InternalBaseTracer.instrumented, __init__.py::instrumented):
   - the wrapper enters tracing_enabled(...) for each tracer of the list, in list order (utils.multi_context = ExitStack),
     runs the function and leaves the contexts in a `finally` path: a decorated call IS the history `wrap ts body` of the
     context machine model/Ctx.v;
   - the rewritten code object is the first code constant of the recompiled snippet that carries the function's name.
   No proofs in this file. *)
From Coq Require Import List NArith Bool Arith.
Import ListNotations.
From PyccoloV Require Import model.Ctx.

Fixpoint wrap (ts : list nat) (body : list item) : list item :=
  match ts with
  | [] => body
  | t :: ts' => [ICtx t false (wrap ts' body)]
  end.

(* the body of the decorated function: instrumented function-body code, then it returns or raises *)
Definition fbody (raises : bool) : list item := ISite KFunc :: (if raises then [IRaise] else []).

Definition select (name : N) (consts : list (option N)) : option nat :=      (* co_consts: Some n = a code object named n *)
  (fix go (l : list (option N)) (i : nat) : option nat :=
     match l with
     | [] => None
     | Some n :: l' => if N.eqb n name then Some i else go l' (S i)
     | None :: l' => go l' (S i)
     end) consts 0.
