(* The `instrumented` decorator (tracer.py::_InternalBaseTracer.instrumented, __init__.py::instrumented):
   - the wrapper enters tracing_enabled(...) for each tracer of the list, in list order (utils.multi_context = ExitStack),
     runs the function and leaves the contexts in a `finally` path: a decorated call IS the history `wrap ts body` of the
     context machine model/Ctx.v;
   - the rewritten code object is the first code constant of the recompiled snippet that carries the function's name
     (`select`); since f44fd25 (`find_function_code`) the search descends, level by level, into the code objects that evaluate type
     parameters (PEP 695: the code of `def f[T](...)` is a constant of `<generic parameters of f>`), and into nothing else
     (`find_code` over code-object trees).
   No proofs in this file. *)
From Coq Require Import List NArith Bool Arith.
Import ListNotations.
From PyccoloV Require Import model.Ctx.

Fixpoint wrap (ts : list nat) (body : list item) : list item :=
  match ts with
  | [] => body
  | t :: ts' => [ICtx t false (wrap ts' body)]
  end.

(* the body of the decorated function: instrumented function-body code, then it returns or raises *)
Definition fbody (raises : bool) : list item := ISite KFunc :: (if raises then [IRaise] else []).

Definition select (name : N) (consts : list (option N)) : option nat :=      (* co_consts: Some n = a code object named n *)
  (fix go (l : list (option N)) (i : nat) : option nat :=
     match l with
     | [] => None
     | Some n :: l' => if N.eqb n name then Some i else go l' (S i)
     | None :: l' => go l' (S i)
     end) consts 0.

(* ---- tracer.find_function_code: code objects as trees (only the code-object constants matter) *)
Inductive cobj : Set := CO (uid : N) (cname : N) (generic : bool) (consts : list cobj).
    (* uid: which object; cname: co_name; generic: co_name starts with "<generic parameters" *)
Definition co_uid (c : cobj) : N := match c with CO u _ _ _ => u end.
Definition co_name (c : cobj) : N := match c with CO _ n _ _ => n end.
Definition co_generic (c : cobj) : bool := match c with CO _ _ g _ => g end.
Definition co_consts (c : cobj) : list cobj := match c with CO _ _ _ cs => cs end.
Definition next_consts (level : list cobj) : list cobj := flat_map co_consts level.
(* while level: consts = the code constants of the level; the first one with the name wins; else level = its generic-parameter objects *)
Fixpoint find_code (fuel : nat) (level : list cobj) (name : N) : option cobj :=
  match fuel with
  | 0 => None
  | S k =>
      match level with
      | [] => None
      | _ => match find (fun c => N.eqb (co_name c) name) (next_consts level) with
             | Some c => Some c
             | None => find_code k (filter co_generic (next_consts level)) name
             end
      end
  end.
Fixpoint depth (c : cobj) : nat :=
  match c with CO _ _ _ cs => S ((fix go (l : list cobj) : nat := match l with [] => 0 | x :: l' => Nat.max (depth x) (go l') end) cs) end.
