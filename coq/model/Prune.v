(* K-erasure (DESIGN 3.4 "prune"): `erasek keep t` removes from a rewritten tree every emit site whose event is NOT kept
   and every guard / fallback scaffold, leaving the kept sites in place in a canonical form (guard names dropped,
   a before-body event carried by a guard test turned into the statement form).  Two rewriter outputs of the same
   program under event sets E1 within E2 must K-erase, for K = E1, to the same tree (C03); the output of a rewrite for
   a stack of tracers and the output for one of them alone must K-erase to the same tree for K = that tracer's events
   (C05).  It is bottom-up like Erase.erase and fails closed (None) on shapes it does not recognise.
   No proofs in this file. *)
From Coq Require Import List ZArith NArith Bool.
Import ListNotations.
From PyccoloV Require Import gen.PyAst gen.Ids gen.Events model.Tree model.Erase.
Local Open Scope N_scope.

(* generic bottom-up traversal: children first (a child may become zero or several trees), then the root rewrite *)
Fixpoint erase_gen (pst : N -> list scalar -> list (list tree) -> option (list tree)) (t : tree) {struct t} : option (list tree) :=
  match t with
  | NoneNode => Some [NoneNode]
  | T k sc fs =>
      match (fix gof (l : list (list tree)) {struct l} : option (list (list tree)) :=
               match l with
               | [] => Some []
               | f :: l' =>
                   match (fix gol (u : list tree) {struct u} : option (list tree) :=
                            match u with
                            | [] => Some []
                            | x :: u' => match erase_gen pst x, gol u' with Some a, Some b => Some (a ++ b) | _, _ => None end
                            end) f, gof l' with
                   | Some a, Some b => Some (a :: b)
                   | _, _ => None
                   end
               end) fs with
      | Some fs' => pst k sc fs'
      | None => None
      end
  end.

Definition mem (x : N) (l : list N) : bool := existsb (N.eqb x) l.

(* which sites stay: the kept events; and an after_stmt site that CARRIES A VALUE (a module-level expression statement)
   whenever after_module_stmt is kept, because that site is what saves the value for it *)
Definition keeps (K : list N) (ev : N) (has_ret : bool) : bool :=
  mem ev K || (has_ret && N.eqb ev (ev_code E_after_stmt) && mem (ev_code E_after_module_stmt) K).

(* guard names are id()s of throw-away copies, and the `guard=` keyword is only passed when global guards are enabled:
   a kept site's `guard=` keyword is dropped *)
Definition is_guard_kw (kw : tree) : bool :=
  match kw with T k [SId x] [[_]] => N.eqb k kkeyword && N.eqb x id_guard_kw | _ => false end.
Definition norm_emit (t : tree) : tree :=
  match t with
  | T k [] [[f]; args; kws] => T k [] [[f]; args; filter (fun kw => negb (is_guard_kw kw)) kws]
  | _ => t
  end.

(* the before-body emit carried by a guard test  BoolOp(And, [Name TE/FTE; Name guard; EMIT(before_.._body, ret=True)]) *)
Definition guard_test_emit (t : tree) : option (N * tree) :=
  match t with
  | T k [] [[_]; vs] =>
      if N.eqb k kBoolOp then
        match find (fun v => match emit_parts v with Some _ => true | None => false end) vs with
        | Some e => match emit_parts e with Some (ev, _, _, _) => Some (ev, e) | None => None end
        | None => None
        end
      else None
  | _ => None
  end.

(* the replacement branch of a before_stmt expansion starts with EXEC_SAVED_THUNK(), possibly as the value carried by a
   kept after_stmt site (a module-level expression statement) *)
Definition is_thunk_call (t : tree) : bool :=
  match t with T kc [] [[f]; []; []] => N.eqb kc kCall && name_is id_thunk f | _ => false end.
Definition is_thunk_value (v : tree) : bool :=
  is_thunk_call v ||
  match emit_parts v with
  | Some (_, _, _, kws) => match kw_value id_ret kws with Some r => is_thunk_call r | None => false end
  | None => false
  end.

Definition postk (K : list N) (k : N) (sc : list scalar) (fs : list (list tree)) : option (list tree) :=
  let self := T k sc fs in
  if N.eqb k kCall then
    match emit_parts self with
    | Some (ev, nid, rest, kws) =>
        match kw_value id_ret kws with
        | Some r =>
            match tlam_parts r with
            | Some _ => Some [norm_emit self]                               (* deferred: decided at the application node *)
            | None => if is_subscript_before_event ev || is_body_bracket_event ev
                      then Some [norm_emit self]                            (* decided at the Subscript / guard test / Expr *)
                      else if keeps K ev true then Some [norm_emit self] else Some [r]
            end
        | None => Some [norm_emit self]                                     (* statement-level emit: parents decide *)
        end
    | None =>
        match fs with
        | [[f]; args; []] =>
            match emit_parts f with
            | Some (ev, nid, rest, kws) =>
                match kw_value id_ret kws with
                | Some r =>
                    match tlam_parts r with
                    | Some (largs, body) =>
                        if keeps K ev true then Some [self]
                        else
                        match lambda_params largs, args with
                        | Some [], [] => Some [body]
                        | Some ps, _ =>
                            match body with
                            | T kb [] [[l]; ops; comps] =>
                                if N.eqb kb kCompare then
                                  match comps, ps, args with
                                  | c0 :: crest, [px; py], [a; b] =>
                                      if name_is id_cmp_x l && name_is id_cmp_y c0 && N.eqb px id_cmp_x && N.eqb py id_cmp_y
                                      then Some [T kCompare [] [[a]; ops; b :: crest]] else None
                                  | _, _, _ => None
                                  end
                                else if N.eqb kb kBinOp then
                                  match ops, comps, ps, args with
                                  | [op], [r2], [px; py], [a; b] =>
                                      if name_is id_x l && name_is id_y r2 && N.eqb px id_x && N.eqb py id_y then Some [T kBinOp [] [[a]; [op]; [b]]] else None
                                  | _, _, _, _ => None
                                  end
                                else None
                            | _ => None
                            end
                        | None, _ => None
                        end
                    | None => Some [self]
                    end
                | None => Some [self]
                end
            | None => Some [self]
            end
        | _ => Some [self]
        end
    end
  else if N.eqb k kIfExp then
    match fs with
    | [[test]; [b]; [o]] => if is_guard_test test then Some [b] else Some [self]
    | _ => Some [self]
    end
  else if N.eqb k kIf then
    match fs with
    | [[test]; b; o] =>
        if is_guard_test test then
          match guard_test_emit test with
          | Some (ev, e) => if keeps K ev true then Some (T kExpr [] [[e]] :: b) else Some b
          | None => Some b
          end
        else if is_emit_of E_before_stmt test then
          if keeps K (ev_code E_before_stmt) false then Some [self]
          else
            match b with
            | T ke [] [[v]] :: _ => if N.eqb ke kExpr && is_thunk_value v then Some o else None
            | _ => None
            end
        else Some [self]
    | _ => Some [self]
    end
  else if N.eqb k kTry then
    match fs with
    | [b; []; []; []] => Some b
    | [b; [T kh [SId nm] [[ty]; hb]]; []; []] =>
        if N.eqb kh kExceptHandler && N.eqb nm id_name_error && name_is id_NameError ty then Some b else Some [self]
    | _ => Some [self]
    end
  else if N.eqb k kExpr then
    match fs with
    | [[v]] => match emit_parts v with
               | Some (ev, _, _, kws) =>
                   match kw_value id_ret kws with
                   | None => if keeps K ev false then Some [self] else Some []
                   | Some r =>
                       if is_body_bracket_event ev && tree_eqb r (T kConstant [SBool true; SNone] [])
                       then (if keeps K ev true then Some [self] else Some []) else Some [self]
                   end
               | None => Some [self]
               end
    | _ => Some [self]
    end
  else if N.eqb k kSubscript then
    match fs with
    | [[v]; [s]; ctx] =>
        match emit_parts v with
        | Some (ev, _, _, kws) =>
            if is_subscript_before_event ev then
              if keeps K ev true then Some [self]
              else
              match kw_value id_ret kws, kw_value id_attr_or_subscript kws with
              | Some v0, Some s0 =>
                  if is_emit_of E_priv_load_saved_slice s then Some [T k sc [[v0]; [s0]; ctx]] else None
              | _, _ => None
              end
            else Some [self]
        | None => if is_emit_of E_priv_load_saved_slice s then None else Some [self]
        end
    | _ => Some [self]
    end
  else Some [self].

Definition erasek (K : list N) : tree -> option (list tree) := erase_gen (postk K).

Definition check_proj (K : list N) (out1 out2 : tree) : bool :=
  match erasek K out1, erasek K out2 with
  | Some a, Some b => trees_eqb a b
  | _, _ => false
  end.

(* "emission sites only for subscribed events and the internal helpers needed to serve them": the two private events,
   and after_stmt when after_module_stmt is subscribed *)
Definition site_allowed (subscribed : list N) (ev : N) : bool :=
  mem ev subscribed || N.eqb ev (ev_code E_priv_load_saved_slice) || N.eqb ev (ev_code E_priv_load_saved_expr_stmt_ret)
  || (N.eqb ev (ev_code E_after_stmt) && mem (ev_code E_after_module_stmt) subscribed).
Definition check_only_subscribed (subscribed : list N) (out : tree) : bool :=
  forallb (fun s => site_allowed subscribed (fst s)) (sites out).

(* the kept sites of a tree in traversal order: what the K-filtered stream is generated from *)
Definition kept_sites (K : list N) (out : tree) : list (N * scalar) := filter (fun s => mem (fst s) K) (sites out).
