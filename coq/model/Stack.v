(* Model of pyccolo/trace_stack.py (TraceStack) over a tracer's __dict__.
   Values are pure: a container is its contents, a TraceStack is its list of saved tuples.  The model therefore
   has no aliasing; that the implementation has none either (for operations that go through the tracer's
   attributes) is what the K-stack correspondence validates, with mutation-after-push cases.
   No proofs in this file. *)
From Coq Require Import List ZArith NArith Bool.
Import ListNotations.

Definition field := N.

Inductive val : Set :=
  | VNone | VInt (z : Z) | VBool (b : bool) | VStr (s : N) | VFloat (f : N)
  | VCont (k : N) (items : list Z)           (* k: 0 list, 1 dict, 2 set, 3 tuple, ... (declared type) *)
  | VNest (k : N) (inner : list (list Z))    (* a container (k: 0 list, 1 dict) whose elements are lists: mutable values inside a mutable value *)
  | VStack (frames : list (list val)).       (* TraceStack._stack, oldest first (Python list order) *)

Fixpoint lz_eqb (l1 l2 : list Z) : bool :=
  match l1, l2 with [] , [] => true | x :: l1', y :: l2' => Z.eqb x y && lz_eqb l1' l2' | _, _ => false end.
Fixpoint llz_eqb (l1 l2 : list (list Z)) : bool :=
  match l1, l2 with [] , [] => true | x :: l1', y :: l2' => lz_eqb x y && llz_eqb l1' l2' | _, _ => false end.
Fixpoint val_eqb (a b : val) {struct a} : bool :=
  match a, b with
  | VNone, VNone => true
  | VInt x, VInt y => Z.eqb x y
  | VBool x, VBool y => Bool.eqb x y
  | VStr x, VStr y => N.eqb x y
  | VFloat x, VFloat y => N.eqb x y
  | VCont k xs, VCont j ys => N.eqb k j && (fix eql (l1 l2 : list Z) := match l1, l2 with
                                             | [], [] => true | x :: l1', y :: l2' => Z.eqb x y && eql l1' l2'
                                             | _, _ => false end) xs ys
  | VNest k xs, VNest j ys => N.eqb k j && llz_eqb xs ys
  | VStack fa, VStack fb =>
      (fix eqf (l1 l2 : list (list val)) := match l1, l2 with
         | [], [] => true
         | t1 :: l1', t2 :: l2' =>
             (fix eqt (u1 u2 : list val) := match u1, u2 with
                | [], [] => true | x :: u1', y :: u2' => val_eqb x y && eqt u1' u2' | _, _ => false end) t1 t2
             && eqf l1' l2'
         | _, _ => false end) fa fb
  | _, _ => false
  end.

(* ---- the tracer's __dict__ *)
Definition mgr := list (field * val).
Fixpoint dget (m : mgr) (f : field) : option val :=
  match m with [] => None | (g, v) :: m' => if N.eqb g f then Some v else dget m' f end.
Fixpoint dset (m : mgr) (f : field) (v : val) : mgr :=
  match m with [] => [(f, v)] | (g, w) :: m' => if N.eqb g f then (g, v) :: m' else (g, w) :: dset m' f v end.
Definition ddel (m : mgr) (f : field) : mgr := filter (fun p => negb (N.eqb (fst p) f)) m.

(* ---- what register_stack_state computes *)
Inductive init : Set :=
  | IConst (v : val)      (* None / int / bool / str / float: lambda: init_val *)
  | IFresh (k : N) (items : list Z)   (* anything else: a fresh (deep) copy of the value it was declared with *)
  | IFreshN (k : N) (inner : list (list Z))   (* ... deep: the lists inside are fresh copies too *)
  | IClone.               (* a nested TraceStack: stack_item._clone *)
Record decl : Set := { auto : list (field * init); manual : list field }.
(* _stack_item_names(): chain(initializers.keys(), manual set) *)
Definition names (d : decl) : list field := map fst (auto d) ++ manual d.
Definition init_of (v : val) : init :=
  match v with
  | VStack _ => IClone
  | VNone => IConst VNone
  | VInt _ | VBool _ | VStr _ | VFloat _ => IConst v
  | VCont k items => IFresh k items
  | VNest k inner => IFreshN k inner
  end.
(* _clone (after fix: the clone gets its own empty _stack) *)
Definition run_init (i : init) : val :=
  match i with IConst v => v | IFresh k items => VCont k items | IFreshN k inner => VNest k inner | IClone => VStack [] end.

Definition decls := list (field * decl).     (* stack attribute name -> its registration *)
Fixpoint decl_of (ds : decls) (s : field) : option decl :=
  match ds with [] => None | (g, d) :: ds' => if N.eqb g s then Some d else decl_of ds' s end.

(* ---- operations *)
Inductive op : Set :=
  | OPush (s : field)                (* entering `with stack.push():` *)
  | OPushCheck (s : field)           (* leaving it: the manual-initialisation check *)
  | OSet (g : field) (v : val)       (* tracer.g = v   (v not a stack) *)
  | OAppend (g : field) (z : Z)      (* tracer.g.append(z) / .add(z) / [z] = z: in-place mutation of a container *)
  | OAppendIn (g : field) (i : nat) (z : Z)   (* tracer.g[i].append(z): in-place mutation of a list INSIDE the container *)
  | ORead (s g : field) (h : Z)      (* stack.get_field(g, height=h); depth d is height -d *)
  | OLen (s : field)
  | OPop (s : field)
  | OClear (s : field).

Inductive out : Set :=
  | Done | OutVal (v : val) | OutLen (n : N)
  | ErrKey | ErrIndex | ErrValue | ErrAttr.

Fixpoint get_all (m : mgr) (ns : list field) : option (list val) :=
  match ns with
  | [] => Some []
  | n :: ns' => match dget m n, get_all m ns' with Some v, Some vs => Some (v :: vs) | _, _ => None end
  end.
Fixpoint set_all (m : mgr) (ns : list field) (vs : list val) : mgr :=      (* zip(names, tuple) *)
  match ns, vs with n :: ns', v :: vs' => set_all (dset m n v) ns' vs' | _, _ => m end.
Definition reinit (m : mgr) (au : list (field * init)) : mgr :=
  fold_left (fun m fi => dset m (fst fi) (run_init (snd fi))) au m.
Definition del_all (m : mgr) (ns : list field) : mgr := fold_left ddel ns m.
Fixpoint index_of (f : field) (ns : list field) : option nat :=
  match ns with [] => None | n :: ns' => if N.eqb n f then Some 0 else option_map S (index_of f ns') end.
(* Python list indexing with a possibly negative index *)
Definition py_index {A} (l : list A) (h : Z) : option A :=
  let n := Z.of_nat (length l) in
  let i := if (h <? 0)%Z then (n + h)%Z else h in
  if ((0 <=? i) && (i <? n))%Z then nth_error l (Z.to_nat i) else None.

Definition frames_of (m : mgr) (s : field) : option (list (list val)) :=
  match dget m s with Some (VStack fr) => Some fr | _ => None end.

Definition do_pop (d : decl) (m : mgr) (s : field) (fr : list (list val)) : mgr * out :=
  match rev fr with
  | [] => (m, ErrIndex)
  | t :: rfr' => (set_all (dset m s (VStack (rev rfr'))) (names d) t, Done)
  end.

Definition step (ds : decls) (m : mgr) (o : op) : mgr * out :=
  match o with
  | OPush s =>
      match decl_of ds s, frames_of m s with
      | Some d, Some fr =>
          match get_all m (names d) with
          | None => (m, ErrKey)
          | Some t =>
              let m1 := dset m s (VStack (fr ++ [t])) in
              let m2 := reinit m1 (auto d) in
              (del_all m2 (manual d), Done)
          end
      | _, _ => (m, ErrAttr)
      end
  | OPushCheck s =>
      match decl_of ds s with
      | Some d => if forallb (fun f => match dget m f with Some _ => true | None => false end) (manual d)
                  then (m, Done) else (m, ErrValue)
      | None => (m, ErrAttr)
      end
  | OSet g v =>
      match v, dget m g with
      | VStack _, _ | _, Some (VStack _) => (m, ErrAttr)       (* outside the modelled operations *)
      | _, _ => (dset m g v, Done)
      end
  | OAppend g z =>
      match dget m g with
      | Some (VCont k items) => if N.eqb k 3 then (m, ErrAttr)             (* tuples are immutable *)
                                else (dset m g (VCont k (items ++ [z])), Done)
      | _ => (m, ErrAttr)
      end
  | OAppendIn g i z =>
      match dget m g with
      | Some (VNest k inner) =>
          match nth_error inner i with
          | Some l => (dset m g (VNest k (firstn i inner ++ (l ++ [z]) :: skipn (S i) inner)), Done)
          | None => (m, ErrIndex)
          end
      | _ => (m, ErrAttr)
      end
  | ORead s g h =>
      match decl_of ds s, frames_of m s with
      | Some d, Some fr =>
          match py_index fr h with                         (* self._stack[height] is evaluated first *)
          | None => (m, ErrIndex)
          | Some t => match index_of g (names d) with
                      | None => (m, ErrKey)
                      | Some i => match nth_error t i with Some v => (m, OutVal v) | None => (m, ErrIndex) end
                      end
          end
      | _, _ => (m, ErrAttr)
      end
  | OLen s => match frames_of m s with Some fr => (m, OutLen (N.of_nat (length fr))) | None => (m, ErrAttr) end
  | OPop s =>
      match decl_of ds s, frames_of m s with
      | Some d, Some fr => do_pop d m s fr
      | _, _ => (m, ErrAttr)
      end
  | OClear s =>
      match decl_of ds s, frames_of m s with
      | Some d, Some fr =>
          let fr1 := firstn 1 fr in                       (* self._stack = self._stack[:1] *)
          let m1 := dset m s (VStack fr1) in
          match fr1 with [] => (m1, Done) | _ => do_pop d m1 s fr1 end
      | _, _ => (m, ErrAttr)
      end
  end.

Fixpoint run_trace (ds : decls) (m : mgr) (ops : list op) : list (out * mgr) :=
  match ops with
  | [] => []
  | o :: ops' => let '(m1, r) := step ds m o in (r, m1) :: run_trace ds m1 ops'
  end.

Fixpoint run (ds : decls) (m : mgr) (ops : list op) : mgr * list out :=
  match ops with
  | [] => (m, [])
  | o :: ops' => let '(m1, r) := step ds m o in let '(m2, rs) := run ds m1 ops' in (m2, r :: rs)
  end.

(* ---- registration: the declaration script of a tracer's __init__ *)
Inductive item : Set :=
  | DField (f : field) (v : val) (man : option N)   (* self.f = v ; man = Some i: inside the i-th
                                                       needing_manual_initialization block of the enclosing stack *)
  | DStack (f : field) (items : list item).         (* self.f = self.make_stack(); with self.f.register_stack_state(): items *)

Fixpoint collect (it : item) : list (field * val) :=
  match it with
  | DField f v _ => [(f, v)]
  | DStack f items => (f, VStack []) :: flat_map collect items
  end.
Definition direct_manual (items : list item) : list (field * N) :=
  flat_map (fun it => match it with DField f _ (Some i) => [(f, i)] | _ => [] end) items.
Definition last_block (items : list item) : option N :=
  fold_left (fun acc fi => match acc with None => Some (snd fi) | Some a => Some (N.max a (snd fi)) end)
            (direct_manual items) None.
Definition mem (f : field) (l : list field) : bool := existsb (N.eqb f) l.
Definition block_decl (items : list item) : decl :=
  let keys := flat_map collect items in
  let man := map fst (direct_manual items) in       (* every needing_manual_initialization block adds its fields (a later block used
                                                      to REPLACE the earlier ones: finding C20-manual-blocks-replace, fixed) *)
  {| auto := map (fun fv => (fst fv, init_of (snd fv))) (filter (fun fv => negb (mem (fst fv) man)) keys);
     manual := man |}.
Fixpoint all_decls (it : item) : decls :=
  match it with
  | DField _ _ _ => []
  | DStack f items => (f, block_decl items) :: flat_map all_decls items
  end.
Definition init_mgr (tops : list item) : mgr := flat_map collect tops.
Definition init_decls (tops : list item) : decls := flat_map all_decls tops.
