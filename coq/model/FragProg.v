(* ONE fragment with loops AND functions (DESIGN 3, "FragProg"): the statement layers of model/FragLoop.v (`while` with `else`, `break`,
   `continue`, test and body guards) and of model/FragFun.v (module-level `def`, `return`, calls of named functions as right-hand
   sides, function guards) merged, plus `for x in range(...)` loops (the builtin `range` is the one builtin callee; a for loop has a body
   guard and no test guard; its iterable is bracketed by before_for_iter / after_for_iter), so that loops run inside functions, functions are called from loops, `return` leaves a loop through
   the `try / finally` of an instrumented iteration, recursion goes through loops.  Expressions and right-hand sides (`texpr`, `rhs`, their
   rewriters `ie` / `ir`, evaluators `eval_e` / `eval_r`, references `ref_e` / `ref_r`, scoping) are those of FragSem.v / FragFun.v.
   What is new with respect to the two separate fragments is their interplay in the rewriter:
     - the pristine copy of a LOOP body (run while the body guard is off) keeps, for nested loops, a guarded test with the same
       expression on both sides (`ppr`), and is otherwise untouched - calls in it are plain calls;
     - the pristine copy of a FUNCTION body (run while the function guard is off) is untouched altogether: loops in it are plain loops;
   and in the semantics: two kinds of fuel (iterations per execution of a loop; call depth), outcomes `break` / `continue` / `return`
   travelling through `try / finally`, one guard policy `pol` over test, body and function guards.
   Modelling assumptions as in FragFun.v (guard names bound: the NameError fallback re-raises; a rewritten definition's local names are
   read off its pristine copy).  No proofs in this file. *)
From Coq Require Import List ZArith NArith Bool.
Import ListNotations.
From PyccoloV Require Import gen.PyAst gen.Ids gen.Events model.Tree model.Erase model.RwFrag model.FragSem model.FragFun.
Local Open Scope N_scope.

Inductive guard : Set := GTest (n : N) | GBody (n : N) | GFun (n : N) | GFBody (n : N).      (* while test, while body, function body, for body *)
Definition guard_id (g : guard) : N := match g with GTest n => 5000000 + 2 * n | GBody n | GFun n | GFBody n => 5000000 + 2 * n + 1 end.
Definition guard_node (g : guard) : N := match g with GTest n | GBody n | GFun n | GFBody n => n end.

Inductive pstmt : Set :=
  | PExpr (n : N) (r : rhs)
  | PAssign (n : N) (targets : list N) (r : rhs)
  | PPass (n : N)
  | PIf (n : N) (t : texpr) (b o : list pstmt)
  | PWhile (n : N) (t : texpr) (b o : list pstmt)
  | PFor (n : N) (x : N) (it : rhs) (b o : list pstmt)                           (* for x in it: b else: o -- `it` evaluates to a range *)
  | PBreak (n : N)
  | PContinue (n : N)
  | PReturn (n : N) (r : option rhs)
  | PDef (n : N) (name : N) (params : list N) (body : list pstmt)
  (* what the rewriter adds *)
  | PEmit (e : event) (n : N) (ret : option rhs) (g : option (option guard))
  | PBefore (n : N) (thunk_branch own : list pstmt)
  | PWhileG (n : N) (g : guard) (t' t : texpr) (b o : list pstmt)               (* while (t' if TRACING and g else t): b else: o *)
  | PGuardIf (g : guard) (before : option N) (instr pristine : list pstmt)       (* if [FUNCTION_]TRACING and g [and EMIT(before_..., n, ret=True)]: instr else: pristine *)
  | PTry (b fin : list pstmt)
  | PNameTry (b p : list pstmt).

Definition pid (s : pstmt) : N :=
  match s with
  | PExpr n _ | PAssign n _ _ | PPass n | PIf n _ _ _ | PWhile n _ _ _ | PFor n _ _ _ _ | PBreak n | PContinue n | PReturn n _ | PDef n _ _ _
  | PEmit _ n _ _ | PBefore n _ _ | PWhileG n _ _ _ _ _ => n
  | PGuardIf g _ _ _ => guard_node g
  | PTry _ _ | PNameTry _ _ => 0
  end.

(* ---------------------------------------------------------------- reading a source tree *)
Definition p_is_docstring (s : pstmt) : bool := match s with PExpr _ (RExp (XConst _ (SStr _))) => true | _ => false end.

(* top: directly in the module body (definitions allowed); infun: inside a function body (return allowed) *)
Fixpoint of_ps (top infun : bool) (s : tree) (n : N) {struct s} : option pstmt :=
  match s with
  | NoneNode => None
  | T k sc fs =>
      let goss := fun (infun : bool) => fix gol (u : list tree) (j : N) {struct u} : option (list pstmt) :=
                    match u with
                    | [] => Some []
                    | x :: u' => match of_ps false infun x j, gol u' (j + nsize x) with Some a, Some b => Some (a :: b) | _, _ => None end
                    end in
      if N.eqb k kExpr then
        match sc, fs with [], [[v]] => match of_r v (n + 1) with Some v' => Some (PExpr n v') | None => None end | _, _ => None end
      else if N.eqb k kAssign then
        match sc, fs with
        | [SNone], [targets; [v]] =>
            match targets_of targets, of_r v (n + 1 + nsizes targets) with Some xs, Some v' => Some (PAssign n xs v') | _, _ => None end
        | _, _ => None
        end
      else if N.eqb k kPass then match sc, fs with [], [] => Some (PPass n) | _, _ => None end
      else if N.eqb k kBreak then match sc, fs with [], [] => Some (PBreak n) | _, _ => None end
      else if N.eqb k kContinue then match sc, fs with [], [] => Some (PContinue n) | _, _ => None end
      else if N.eqb k kIf || N.eqb k kWhile then
        match sc, fs with
        | [], [[test]; b; o] =>
            let nb := n + 1 + nsize test in
            match of_e test (n + 1), goss infun b nb, goss infun o (nb + nsizes b) with
            | Some t', Some b', Some o' => Some (if N.eqb k kIf then PIf n t' b' o' else PWhile n t' b' o') | _, _, _ => None end
        | _, _ => None
        end
      else if N.eqb k kFor then
        match sc, fs with
        | [SNone], [[target]; [iter]; b; o] =>
            let nb := n + 1 + nsize target + nsize iter in
            match target_of target, of_r iter (n + 1 + nsize target), goss infun b nb, goss infun o (nb + nsizes b) with
            | Some x, Some it, Some b', Some o' => Some (PFor n x it b' o') | _, _, _, _ => None end
        | _, _ => None
        end
      else if N.eqb k kReturn then
        if infun then
          match sc, fs with
          | [], [[]] => Some (PReturn n None)
          | [], [[v]] => match of_r v (n + 1) with Some v' => Some (PReturn n (Some v')) | None => None end
          | _, _ => None
          end
        else None
      else if N.eqb k kFunctionDef then
        if top then
          match sc, fs with
          | [SId name; SNone], [[T ka [] [[]; ps; []; []; []; []; []]]; body; []; []; []] =>
              if N.eqb ka karguments then
                match params_of ps, goss true body (n + 2 + nsizes ps) with
                | Some ps', Some (s0 :: body') => if p_is_docstring s0 then None else Some (PDef n name ps' (s0 :: body'))
                | _, _ => None
                end
              else None
          | _, _ => None
          end
        else None
      else None
  end.

Definition of_pmodule (m : tree) : option (list pstmt) :=
  match m with
  | T k [] [body; []] =>
      if N.eqb k kModule then
        (fix gol (u : list tree) (j : N) {struct u} : option (list pstmt) :=
           match u with
           | [] => Some []
           | x :: u' => match of_ps true false x j, gol u' (j + nsize x) with Some a, Some b => Some (a :: b) | _, _ => None end
           end) body 1
      else None
  | _ => None
  end.

(* ---------------------------------------------------------------- printing *)
Definition pguard_name (g : guard) : tree := nm_load (guard_id g).
Definition pguard_kw (g : option guard) : tree :=
  kw id_guard_kw (match g with Some g' => T kConstant [SStr (guard_id g'); SNone] [] | None => none_const end).
Definition tracing_name (g : guard) : N := match g with GFun _ => id_fte | _ => id_te end.
Definition before_event (g : guard) : event := match g with GFun _ => E_before_function_body | GFBody _ => E_before_for_loop_body | _ => E_before_while_loop_body end.

Fixpoint tps (s : pstmt) : tree :=
  match s with
  | PExpr _ r => T kExpr [] [[tr r]]
  | PAssign _ xs r => T kAssign [SNone] [map nm_store xs; [tr r]]
  | PPass _ => T kPass [] []
  | PIf _ t b o => T kIf [] [[tt t]; map tps b; map tps o]
  | PWhile _ t b o => T kWhile [] [[tt t]; map tps b; map tps o]
  | PFor _ x it b o => T kFor [SNone] [[nm_store x]; [tr it]; map tps b; map tps o]
  | PBreak _ => T kBreak [] []
  | PContinue _ => T kContinue [] []
  | PReturn _ None => T kReturn [] [[]]
  | PReturn _ (Some r) => T kReturn [] [[tr r]]
  | PDef _ name ps body =>
      T kFunctionDef [SId name; SNone] [[T karguments [] [[]; map mk_param ps; []; []; []; []; []]]; map tps body; []; []; []]
  | PEmit e n r g =>
      stmt_emit e n ((match r with Some v => [kw id_ret (tr v)] | None => [] end)
                     ++ (match g with Some g' => [pguard_kw g'] | None => [] end)
                     ++ (match r, g with
                         | Some _, None => if event_eqb e E_before_function_body || event_eqb e E_before_while_loop_body || event_eqb e E_before_for_loop_body then [guards_none] else []
                         | _, _ => []
                         end))
  | PBefore n tb own => T kIf [] [[emit_call E_before_stmt n []]; map tps tb; map tps own]
  | PWhileG _ g t' t b o =>
      T kWhile [] [[T kIfExp [] [[fand_test [nm_load id_te; pguard_name g]]; [tt t']; [tt t]]]; map tps b; map tps o]
  | PGuardIf g before i p =>
      T kIf [] [[fand_test ([nm_load (tracing_name g); pguard_name g]
                            ++ match before with Some n => [emit_ret (before_event g) n true_c] | None => [] end)];
                map tps i; map tps p]
  | PTry b fin => T kTry [] [map tps b; []; []; map tps fin]
  | PNameTry b p =>
      T kTry [] [map tps b;
                 [T kExceptHandler [SId id_name_error] [[nm_load id_NameError];
                    T kIf [] [[name_error_test]; [T kRaise [] [[]; []]]; []] :: map tps p]];
                 []; []]
  end.
Definition tp_module (body : list pstmt) : tree := T kModule [] [map tps body; []].

(* ---------------------------------------------------------------- the rewriter *)
Section Instr.
Variable c : rcfg.
Variable ge : bool.                 (* global guards enabled *)

(* the copy of a LOOP body that runs while its body guard is off: untouched, except that nested loops keep a guarded test *)
Fixpoint ppr (s : pstmt) : pstmt :=
  match s with
  | PIf n t b o => PIf n t (map ppr b) (map ppr o)
  | PWhile n t b o => if ge then PWhileG n (GTest n) t t (map ppr b) (map ppr o) else PWhile n t (map ppr b) (map ppr o)
  | PFor n x it b o => PFor n x it (map ppr b) (map ppr o)
  | other => other
  end.

Definition pmain_and_after (wants_after is_module : bool) (n : N) (m : pstmt) (m_is_expr : bool) (m_value : rhs) : list pstmt :=
  if wants_after then
    if m_is_expr && is_module then [PEmit E_after_stmt n (Some m_value) None] else [m; PEmit E_after_stmt n None None]
  else [m].

Fixpoint pis (is_module : bool) (s : pstmt) {struct s} : list pstmt :=
  let n := pid s in
  let main : pstmt :=
    match s with
    | PExpr n r => PExpr n (wrapR c E_after_expr_stmt n (ir c r))
    | PAssign n xs r => PAssign n xs (wrapR c E_after_assign_rhs (rid r) (defR c E_before_assign_rhs (rid r) (ir c r)))
    | PIf n t b o => PIf n (wrap c E_after_if_test n (ie c t)) (flat_map (pis false) b) (flat_map (pis false) o)
    | PWhile n t b o =>
        let t' := wrap c E_after_while_test n (ie c t) in
        let b' := flat_map (pis false) b in
        let with_after := if sub c E_after_while_loop_iter
                          then [PTry b' [PEmit E_after_while_loop_iter n None (Some (if ge then Some (GBody n) else None))]]
                          else b' in
        if ge then
          PWhileG n (GTest n) t' t
            [PGuardIf (GBody n) (if sub c E_before_while_loop_body then Some n else None) with_after (map ppr b)]
            (flat_map (pis false) o)
        else
          PWhile n t'
            ((if sub c E_before_while_loop_body then [PEmit E_before_while_loop_body n (Some (RExp (XConst 0 (SBool true)))) None] else []) ++ with_after)
            (flat_map (pis false) o)
    | PFor n x it b o =>
        let it' := wrapR c E_after_for_iter (rid it) (defR c E_before_for_iter (rid it) (ir c it)) in
        let b' := flat_map (pis false) b in
        let with_after := if sub c E_after_for_loop_iter
                          then [PTry b' [PEmit E_after_for_loop_iter n None (Some (if ge then Some (GFBody n) else None))]]
                          else b' in
        if ge then
          PFor n x it' [PGuardIf (GFBody n) (if sub c E_before_for_loop_body then Some n else None) with_after (map ppr b)] (flat_map (pis false) o)
        else
          PFor n x it'
            ((if sub c E_before_for_loop_body then [PEmit E_before_for_loop_body n (Some (RExp (XConst 0 (SBool true)))) None] else []) ++ with_after)
            (flat_map (pis false) o)
    | PReturn n (Some r) => PReturn n (Some (wrapR c E_after_return (rid r) (defR c E_before_return (rid r) (ir c r))))
    | PDef n name ps body =>
        let b' := flat_map (pis false) body in
        let with_after := if sub c E_after_function_execution
                          then [PTry b' [PEmit E_after_function_execution n None (Some (if ge then Some (GFun n) else None))]]
                          else b' in
        PDef n name ps
          [PNameTry
             (if ge then [PGuardIf (GFun n) (if sub c E_before_function_body then Some n else None) with_after body]
              else (if sub c E_before_function_body then [PEmit E_before_function_body n (Some (RExp (XConst 0 (SBool true)))) None] else []) ++ with_after)
             body]
    | other => other
    end in
  let wants_after := sub c E_after_stmt || (sub c E_after_module_stmt && is_module) in
  let own := match s with
             | PReturn _ _ => [main]
             | _ => pmain_and_after wants_after is_module n main (match s with PExpr _ _ => true | _ => false end)
                      (match main with PExpr _ v => v | _ => RExp XThunkCall end)
             end in
  let expanded :=
    if sub c E_before_stmt
    then [PBefore n (pmain_and_after wants_after is_module n (PExpr 0 (RExp XThunkCall)) true (RExp XThunkCall)) own]
    else own in
  if is_module && sub c E_after_module_stmt
  then expanded ++ [PEmit E_after_module_stmt n (Some (RExp (XLoadSaved n))) None]
  else expanded.

Definition pinstr_module0 (body : list pstmt) : list pstmt :=
  (if sub c E_init_module then [PEmit E_init_module 0 None None] else [])
  ++ flat_map (pis true) body
  ++ (if sub c E_exit_module then [PEmit E_exit_module 0 None None] else []).
End Instr.

(* a module docstring stays as written and first (as in FragSem.tdoc / trest) *)
Definition pdoc (body : list pstmt) : list pstmt := match body with d :: _ => if p_is_docstring d then [d] else [] | [] => [] end.
Definition prest (body : list pstmt) : list pstmt := match body with d :: rest => if p_is_docstring d then rest else body | [] => [] end.
Definition pinstr_module (c : rcfg) (ge : bool) (body : list pstmt) : list pstmt := pdoc body ++ pinstr_module0 c ge (prest body).

(* ---------------------------------------------------------------- the definitions of a program, scoping *)
Fixpoint pfind_def (n : N) (s : pstmt) {struct s} : option (list N * list pstmt) :=
  match s with
  | PDef m _ ps body => if N.eqb m n then Some (ps, body) else None
  | PBefore _ _ own =>
      (fix go (u : list pstmt) : option (list N * list pstmt) :=
         match u with [] => None | x :: u' => match pfind_def n x with Some d => Some d | None => go u' end end) own
  | _ => None
  end.
Fixpoint pdefs_of (body : list pstmt) (n : N) : option (list N * list pstmt) :=
  match body with [] => None | x :: u => match pfind_def n x with Some d => Some d | None => pdefs_of u n end end.

Fixpoint passigned (s : pstmt) {struct s} : list N :=
  let al := fix al (u : list pstmt) : list N := match u with [] => [] | x :: u' => passigned x ++ al u' end in
  match s with
  | PAssign _ xs _ => xs
  | PIf _ _ b o | PWhile _ _ b o | PWhileG _ _ _ _ b o => al b ++ al o
  | PFor _ x _ b o => x :: al b ++ al o
  | PDef _ name _ _ => [name]
  | PBefore _ tb own => al tb ++ al own
  | PGuardIf _ _ i p => al i ++ al p
  | PTry b fin => al b ++ al fin
  | PNameTry b p => al p
  | _ => []
  end.
Definition passigned_l (u : list pstmt) : list N := flat_map passigned u.

(* ---------------------------------------------------------------- evaluation *)
Inductive pexc : Set := PO (x : fexc) | PBrk | PCnt.       (* an exception / out of fuel / `return`; `break` / `continue` on their way to the loop *)
Record pres : Set := { p_exc : option pexc; p_env : env; p_saved : val; p_log : list entry }.
Definition pexc_of (q : rr) : option pexc := match q with ROk _ => None | RErr x => Some (PO x) end.
(* `break` / `continue` outside a loop are syntax errors in Python: no parsed program reaches the last case *)
Definition pcall_result (x : option pexc) : rr :=
  match x with None => ROk VNone | Some (PO (FRet v)) => ROk v | Some (PO x') => RErr x' | Some _ => RErr (FX ETypeError) end.

Section Sem.
Variable binop : N -> val -> val -> res val.
Variable cmpop : N -> val -> val -> res bool.
Variable unop : N -> val -> res val.
Variable truth : val -> bool.
Variable cval : scalar -> val.
Variable is_and : N -> bool.
Variable c : rcfg.
Variable pol : list entry -> guard -> bool.       (* from the stream delivered so far: is the guard on *)
Variable fuel : nat.                              (* iterations per execution of a loop *)

Notation eval_e := (eval_e binop cmpop unop truth cval is_and).
Notation ref_e := (ref_e binop cmpop unop truth cval is_and).
Notation eval_r := (eval_r binop cmpop unop truth cval is_and).
Notation ref_r := (ref_r binop cmpop unop truth cval is_and).
Definition pgon (pre : list entry) (g : guard) : bool := pol (filter_log c pre) g.
Definition pseq (a : pres) (k : env -> val -> list entry -> pres) (pre : list entry) : pres :=
  match p_exc a with
  | Some _ => a
  | None => let b := k (p_env a) (p_saved a) (pre ++ p_log a) in
            {| p_exc := p_exc b; p_env := p_env b; p_saved := p_saved b; p_log := p_log a ++ p_log b |}
  end.

Section WithCall.
Variable call : callT.

Fixpoint pexec_s (sc : scope) (glob : env) (s : pstmt) (r : env) (saved : val) (pre : list entry) {struct s} : pres :=
  let exec_l := fix exec_l (u : list pstmt) (r : env) (saved : val) (pre : list entry) {struct u} : pres :=
                  match u with
                  | [] => {| p_exc := None; p_env := r; p_saved := saved; p_log := [] |}
                  | x :: u' => pseq (pexec_s sc glob x r saved pre) (exec_l u') pre
                  end in
  let loop := fun (test : env -> list entry -> res val * list entry) (b o : list pstmt) =>
                fix loop (f : nat) (r : env) (saved : val) (pre : list entry) {struct f} : pres :=
                  match f with
                  | O => {| p_exc := Some (PO FFuel); p_env := r; p_saved := saved; p_log := [] |}
                  | S f' =>
                      let '(q, lt) := test r pre in
                      match q with
                      | Err e => {| p_exc := Some (PO (FX e)); p_env := r; p_saved := saved; p_log := lt |}
                      | Ok vt =>
                          if truth vt then
                            let a := exec_l b r saved (pre ++ lt) in
                            match p_exc a with
                            | Some PBrk => {| p_exc := None; p_env := p_env a; p_saved := p_saved a; p_log := lt ++ p_log a |}
                            | None | Some PCnt =>
                                let z := loop f' (p_env a) (p_saved a) (pre ++ lt ++ p_log a) in
                                {| p_exc := p_exc z; p_env := p_env z; p_saved := p_saved z; p_log := lt ++ p_log a ++ p_log z |}
                            | Some _ => {| p_exc := p_exc a; p_env := p_env a; p_saved := p_saved a; p_log := lt ++ p_log a |}
                            end
                          else let a := exec_l o r saved (pre ++ lt) in
                               {| p_exc := p_exc a; p_env := p_env a; p_saved := p_saved a; p_log := lt ++ p_log a |}
                      end
                  end in
  let floop := fun (x : N) (b o : list pstmt) =>
                 fix floop (k : nat) (i : Z) (r : env) (saved : val) (pre : list entry) {struct k} : pres :=
                   match k with
                   | O => exec_l o r saved pre
                   | S k' =>
                       let a := exec_l b (upd r x (VInt i)) saved pre in
                       match p_exc a with
                       | Some PBrk => {| p_exc := None; p_env := p_env a; p_saved := p_saved a; p_log := p_log a |}
                       | None | Some PCnt =>
                           let z := floop k' (i + 1)%Z (p_env a) (p_saved a) (pre ++ p_log a) in
                           {| p_exc := p_exc z; p_env := p_env z; p_saved := p_saved z; p_log := p_log a ++ p_log z |}
                       | Some _ => a
                       end
                   end in
  match s with
  | PExpr _ v =>
      let '(q, sv, l) := eval_r call (look sc glob r) (globs sc glob r) v saved pre in
      {| p_exc := pexc_of q; p_env := r; p_saved := sv; p_log := l |}
  | PAssign _ xs v =>
      let '(q, sv, l) := eval_r call (look sc glob r) (globs sc glob r) v saved pre in
      match q with
      | ROk x => {| p_exc := None; p_env := fold_left (fun r' y => upd r' y x) xs r; p_saved := sv; p_log := l |}
      | RErr e => {| p_exc := Some (PO e); p_env := r; p_saved := sv; p_log := l |}
      end
  | PPass _ => {| p_exc := None; p_env := r; p_saved := saved; p_log := [] |}
  | PIf _ t b o =>
      let '(q, l) := eval_e t (look sc glob r) in
      match q with
      | Ok vt => let a := exec_l (if truth vt then b else o) r saved (pre ++ l) in
                 {| p_exc := p_exc a; p_env := p_env a; p_saved := p_saved a; p_log := l ++ p_log a |}
      | Err e => {| p_exc := Some (PO (FX e)); p_env := r; p_saved := saved; p_log := l |}
      end
  | PWhile _ t b o => loop (fun r _ => eval_e t (look sc glob r)) b o fuel r saved pre
  | PWhileG _ g t' t b o => loop (fun r pre => if pgon pre g then eval_e t' (look sc glob r) else eval_e t (look sc glob r)) b o fuel r saved pre
  | PFor _ x it b o =>
      let '(q, sv, l) := eval_r call (look sc glob r) (globs sc glob r) it saved pre in
      match q with
      | ROk (VRange lo hi) => let z := floop x b o (Z.to_nat (hi - lo)) lo r sv (pre ++ l) in
                              {| p_exc := p_exc z; p_env := p_env z; p_saved := p_saved z; p_log := l ++ p_log z |}
      | ROk _ => {| p_exc := Some (PO (FX ETypeError)); p_env := r; p_saved := sv; p_log := l |}       (* not iterable (strings are outside the instance) *)
      | RErr e => {| p_exc := Some (PO e); p_env := r; p_saved := sv; p_log := l |}
      end
  | PBreak _ => {| p_exc := Some PBrk; p_env := r; p_saved := saved; p_log := [] |}
  | PContinue _ => {| p_exc := Some PCnt; p_env := r; p_saved := saved; p_log := [] |}
  | PReturn _ None => {| p_exc := Some (PO (FRet VNone)); p_env := r; p_saved := saved; p_log := [] |}
  | PReturn _ (Some v) =>
      let '(q, sv, l) := eval_r call (look sc glob r) (globs sc glob r) v saved pre in
      {| p_exc := Some (PO (match q with ROk x => FRet x | RErr e => e end)); p_env := r; p_saved := sv; p_log := l |}
  | PDef n name _ _ => {| p_exc := None; p_env := upd r name (VFun n); p_saved := saved; p_log := [] |}
  | PEmit e n None _ =>
      {| p_exc := None; p_env := r; p_saved := (if event_eqb e E_after_stmt then VNone else saved); p_log := [(e, n, Some VNone)] |}
  | PEmit e n (Some (RExp (XLoadSaved _))) _ =>
      {| p_exc := None; p_env := r; p_saved := VNone; p_log := [(e, n, Some saved)] |}
  | PEmit e n (Some v) _ =>
      let '(q, sv, l) := eval_r call (look sc glob r) (globs sc glob r) v saved pre in
      match q with
      | ROk x => {| p_exc := None; p_env := r; p_saved := (if event_eqb e E_after_stmt then x else sv); p_log := l ++ [(e, n, Some x)] |}
      | RErr x => {| p_exc := Some (PO x); p_env := r; p_saved := sv; p_log := l |}
      end
  | PBefore n _ own =>
      let a := exec_l own r saved (pre ++ [(E_before_stmt, n, Some VNone)]) in
      {| p_exc := p_exc a; p_env := p_env a; p_saved := p_saved a; p_log := (E_before_stmt, n, Some VNone) :: p_log a |}
  | PGuardIf g before i p =>
      if pgon pre g then
        match before with
        | Some n => let a := exec_l i r saved (pre ++ [(before_event g, n, Some (cval (SBool true)))]) in
                    {| p_exc := p_exc a; p_env := p_env a; p_saved := p_saved a; p_log := (before_event g, n, Some (cval (SBool true))) :: p_log a |}
        | None => exec_l i r saved pre
        end
      else exec_l p r saved pre
  | PTry b fin =>
      let a := exec_l b r saved pre in
      let z := exec_l fin (p_env a) (p_saved a) (pre ++ p_log a) in
      {| p_exc := match p_exc z with Some x => Some x | None => p_exc a end;
         p_env := p_env z; p_saved := p_saved z; p_log := p_log a ++ p_log z |}
  | PNameTry b _ => exec_l b r saved pre
  end.

Definition pexec_l (sc : scope) (glob : env) := fix exec_l (u : list pstmt) (r : env) (saved : val) (pre : list entry) {struct u} : pres :=
  match u with
  | [] => {| p_exc := None; p_env := r; p_saved := saved; p_log := [] |}
  | x :: u' => pseq (pexec_s sc glob x r saved pre) (exec_l u') pre
  end.
End WithCall.

Definition pdo_call (ptab : N -> option (list N * list pstmt)) (inner : callT) : callT :=
  fun f vs glob saved pre =>
    match ptab f with
    | None => (RErr (FX ETypeError), saved, [])
    | Some (ps, body) =>
        if Nat.eqb (length ps) (length vs) then
          let a := pexec_l inner (Some (ps ++ passigned_l body)) glob body (bind ps vs (fun _ => None)) saved pre in
          (pcall_result (p_exc a), p_saved a, p_log a)
        else (RErr (FX ETypeError), saved, [])
    end.
Fixpoint pcall (ptab : N -> option (list N * list pstmt)) (d : nat) {struct d} : callT :=
  match d with
  | O => fun _ _ _ saved _ => (RErr FFuel, saved, [])
  | S d' => pdo_call ptab (pcall ptab d')
  end.
Definition prun (d : nat) (body : list pstmt) (r : env) (saved : val) : pres :=
  pexec_l (pcall (pdefs_of body) d) None (fun _ => None) body r saved [].

(* ---------------------------------------------------------------- the reference: source semantics + the event stream, gated by the guards *)
Variable ge : bool.
Record prres : Set := { pr_exc : option pexc; pr_env : env; pr_log : list entry }.
Definition prseq (a : prres) (k : env -> list entry -> prres) (pre : list entry) : prres :=
  match pr_exc a with
  | Some _ => a
  | None => let b := k (pr_env a) (pre ++ pr_log a) in {| pr_exc := pr_exc b; pr_env := pr_env b; pr_log := pr_log a ++ pr_log b |}
  end.

Section WithCallR.
Variable callr : callR.

(* quiet: inside a pristine copy (of a loop body or of a function body) nothing is emitted -- except by the functions called from it *)
Fixpoint pref_s (quiet is_module : bool) (sc : scope) (glob : env) (s : pstmt) (r : env) (pre : list entry) {struct s} : prres :=
  let ref_l := fun (quiet : bool) => fix ref_l (u : list pstmt) (r : env) (pre : list entry) {struct u} : prres :=
                 match u with
                 | [] => {| pr_exc := None; pr_env := r; pr_log := [] |}
                 | x :: u' => prseq (pref_s quiet false sc glob x r pre) (ref_l u') pre
                 end in
  let say := fsay quiet in
  let n := pid s in
  let pre0 := pre ++ say [(E_before_stmt, n, Some VNone)] in
  let body : option pexc * env * list entry * val :=
    match s with
    | PExpr _ v => let '(q, l) := ref_r callr quiet (look sc glob r) (globs sc glob r) v pre0 in
                   (pexc_of q, r, l ++ say (emitted_r E_after_expr_stmt n q), match q with ROk x => x | RErr _ => VNone end)
    | PAssign _ xs v =>
        let '(q, l) := ref_r callr quiet (look sc glob r) (globs sc glob r) v (pre0 ++ say [(E_before_assign_rhs, rid v, None)]) in
        (pexc_of q, match q with ROk x => fold_left (fun r' y => upd r' y x) xs r | RErr _ => r end,
         say [(E_before_assign_rhs, rid v, None)] ++ l ++ say (emitted_r E_after_assign_rhs (rid v) q), VNone)
    | PPass _ => (None, r, [], VNone)
    | PBreak _ => (Some PBrk, r, [], VNone)
    | PContinue _ => (Some PCnt, r, [], VNone)
    | PIf _ t b o =>
        let '(q, l) := ref_e t (look sc glob r) in
        match q with
        | Ok vt => let l1 := say (l ++ [(E_after_if_test, n, Some vt)]) in
                   let a := ref_l quiet (if truth vt then b else o) r (pre0 ++ l1) in
                   (pr_exc a, pr_env a, l1 ++ pr_log a, VNone)
        | Err e => (Some (PO (FX e)), r, say l, VNone)
        end
    | PWhile _ t b o =>
        let z := (fix loop (f : nat) (r : env) (pre : list entry) {struct f} : prres :=
                    match f with
                    | O => {| pr_exc := Some (PO FFuel); pr_env := r; pr_log := [] |}
                    | S f' =>
                        let '(q, l) := ref_e t (look sc glob r) in
                        let loud_t := negb quiet && (negb ge || pgon pre (GTest n)) in
                        let lt := if loud_t then l ++ emitted E_after_while_test n q else [] in
                        match q with
                        | Err e => {| pr_exc := Some (PO (FX e)); pr_env := r; pr_log := lt |}
                        | Ok vt =>
                            if truth vt then
                              let loud_b := negb quiet && (negb ge || pgon (pre ++ lt) (GBody n)) in
                              let lb := if loud_b then [(E_before_while_loop_body, n, Some (cval (SBool true)))] else [] in
                              let a := ref_l (negb loud_b) b r (pre ++ lt ++ lb) in
                              let la := if loud_b then [(E_after_while_loop_iter, n, Some VNone)] else [] in
                              match pr_exc a with
                              | Some PBrk => {| pr_exc := None; pr_env := pr_env a; pr_log := lt ++ lb ++ pr_log a ++ la |}
                              | None | Some PCnt =>
                                  let z := loop f' (pr_env a) (pre ++ lt ++ lb ++ pr_log a ++ la) in
                                  {| pr_exc := pr_exc z; pr_env := pr_env z; pr_log := lt ++ lb ++ pr_log a ++ la ++ pr_log z |}
                              | Some _ => {| pr_exc := pr_exc a; pr_env := pr_env a; pr_log := lt ++ lb ++ pr_log a ++ la |}
                              end
                            else let a := ref_l quiet o r (pre ++ lt) in
                                 {| pr_exc := pr_exc a; pr_env := pr_env a; pr_log := lt ++ pr_log a |}
                        end
                    end) fuel r pre0 in
        (pr_exc z, pr_env z, pr_log z, VNone)
    | PFor _ x it b o =>
        let '(q, l) := ref_r callr quiet (look sc glob r) (globs sc glob r) it (pre0 ++ say [(E_before_for_iter, rid it, None)]) in
        let lit := say [(E_before_for_iter, rid it, None)] ++ l ++ say (emitted_r E_after_for_iter (rid it) q) in
        match q with
        | ROk (VRange lo hi) =>
            let z := (fix floop (k : nat) (i : Z) (r : env) (pre : list entry) {struct k} : prres :=
                        match k with
                        | O => ref_l quiet o r pre
                        | S k' =>
                            let loud_b := negb quiet && (negb ge || pgon pre (GFBody n)) in
                            let lb := if loud_b then [(E_before_for_loop_body, n, Some (cval (SBool true)))] else [] in
                            let a := ref_l (negb loud_b) b (upd r x (VInt i)) (pre ++ lb) in
                            let la := if loud_b then [(E_after_for_loop_iter, n, Some VNone)] else [] in
                            match pr_exc a with
                            | Some PBrk => {| pr_exc := None; pr_env := pr_env a; pr_log := lb ++ pr_log a ++ la |}
                            | None | Some PCnt =>
                                let z := floop k' (i + 1)%Z (pr_env a) (pre ++ lb ++ pr_log a ++ la) in
                                {| pr_exc := pr_exc z; pr_env := pr_env z; pr_log := lb ++ pr_log a ++ la ++ pr_log z |}
                            | Some _ => {| pr_exc := pr_exc a; pr_env := pr_env a; pr_log := lb ++ pr_log a ++ la |}
                            end
                        end) (Z.to_nat (hi - lo)) lo r (pre0 ++ lit) in
            (pr_exc z, pr_env z, lit ++ pr_log z, VNone)
        | ROk _ => (Some (PO (FX ETypeError)), r, lit, VNone)
        | RErr e => (Some (PO e), r, lit, VNone)
        end
    | PReturn _ None => (Some (PO (FRet VNone)), r, [], VNone)
    | PReturn _ (Some v) =>
        let '(q, l) := ref_r callr quiet (look sc glob r) (globs sc glob r) v (pre0 ++ say [(E_before_return, rid v, None)]) in
        (Some (PO (match q with ROk x => FRet x | RErr e => e end)), r,
         say [(E_before_return, rid v, None)] ++ l ++ say (emitted_r E_after_return (rid v) q), VNone)
    | PDef n name _ _ => (None, upd r name (VFun n), [], VNone)
    | _ => (Some (PO (FX ETypeError)), r, [], VNone)
    end in
  let '(x, r', l, v) := body in
  let after_value := if is_module then v else VNone in
  {| pr_exc := x; pr_env := r';
     pr_log := say [(E_before_stmt, n, Some VNone)] ++ l ++
               match x with
               | Some _ => []
               | None => say ((E_after_stmt, n, Some after_value) :: (if is_module then [(E_after_module_stmt, n, Some after_value)] else []))
               end |}.

Definition pref_l (quiet is_module : bool) (sc : scope) (glob : env) := fix ref_l (u : list pstmt) (r : env) (pre : list entry) {struct u} : prres :=
  match u with
  | [] => {| pr_exc := None; pr_env := r; pr_log := [] |}
  | x :: u' => prseq (pref_s quiet is_module sc glob x r pre) (ref_l u') pre
  end.
End WithCallR.

Definition pdo_callr (ptab : N -> option (list N * list pstmt)) (inner : callR) : callR :=
  fun f vs glob pre =>
    match ptab f with
    | None => (RErr (FX ETypeError), [])
    | Some (ps, body) =>
        if Nat.eqb (length ps) (length vs) then
          let loud := negb ge || pgon pre (GFun f) in
          let lb := if loud then [(E_before_function_body, f, Some (cval (SBool true)))] else [] in
          let a := pref_l inner (negb loud) false (Some (ps ++ passigned_l body)) glob body (bind ps vs (fun _ => None)) (pre ++ lb) in
          (pcall_result (pr_exc a), lb ++ pr_log a ++ (if loud then [(E_after_function_execution, f, Some VNone)] else []))
        else (RErr (FX ETypeError), [])
    end.
Fixpoint pcallr (ptab : N -> option (list N * list pstmt)) (d : nat) {struct d} : callR :=
  match d with
  | O => fun _ _ _ _ => (RErr FFuel, [])
  | S d' => pdo_callr ptab (pcallr ptab d')
  end.

Definition pref_module0 (d : nat) (body : list pstmt) (r : env) : prres :=
  let a := pref_l (pcallr (pdefs_of body) d) false true None (fun _ => None) body r [(E_init_module, 0, Some VNone)] in
  {| pr_exc := pr_exc a; pr_env := pr_env a;
     pr_log := (E_init_module, 0, Some VNone) :: pr_log a ++ match pr_exc a with None => [(E_exit_module, 0, Some VNone)] | Some _ => [] end |}.
Definition pref_module (d : nat) (body : list pstmt) (r : env) : prres := pref_module0 d (prest body) r.
End Sem.
