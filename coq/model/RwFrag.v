(* A Gallina model of pyccolo's rewriter on a FRAGMENT of Python (DESIGN 3, "RwFrag"): the two passes
   ExprRewriter (visit_Name, visit_Constant, visit_BinOp, visit_Compare, visit_Expr, visit_assignment, visit_If,
   generic_visit) and StatementInserter (_handle_stmt with before_stmt / after_stmt / after_module_stmt expansion,
   init_module / exit_module), with EmitterMixin.emit, for unconditional subscriptions and no guards (no loops,
   functions, lambdas or comprehensions in the fragment, so no guard is ever generated).
   `rw_module c m` produces the very tree the real rewriter produces (compared by tree equality on generated programs,
   ./check C01), node ids being traversal indices of the source tree.  The model is total (unknown kinds go through
   the generic case) but only claimed faithful on `in_frag`.  No proofs in this file. *)
From Coq Require Import List ZArith NArith Bool.
Import ListNotations.
From PyccoloV Require Import gen.PyAst gen.Ids gen.Events model.Tree model.Erase.
Local Open Scope N_scope.

Record rcfg : Set := { sub : event -> bool }.          (* an unconditional handler is registered for the event *)

Definition nsize (t : tree) : N := N.of_nat (size t).
Definition nsizes (l : list tree) : N := fold_right (fun x a => nsize x + a) 0 l.

(* ---- the shapes EmitterMixin.emit and the statement templates build *)
Definition nm_load (x : N) : tree := T kName [SId x] [[load_ctx]].
Definition cst_ev (e : event) : tree := T kConstant [SStr (ev_code e); SNone] [].
Definition cst_nid (n : N) : tree := T kConstant [SNid n; SNone] [].
Definition kw (x : N) (v : tree) : tree := T kkeyword [SId x] [[v]].
Definition guards_none : tree := kw id_guards_kw none_const.
Definition emit_call (e : event) (n : N) (kws : list tree) : tree := T kCall [] [[nm_load id_emit]; [cst_ev e; cst_nid n]; kws].
Definition emit_ret (e : event) (n : N) (r : tree) : tree := emit_call e n [kw id_ret r; guards_none].
Definition no_args : tree := T karguments [] [[]; []; []; []; []; []; []].
Definition mk_arg (x : N) : tree := T karg [SId x; SNone] [[]].
Definition args2 (x y : N) : tree := T karguments [] [[]; [mk_arg x; mk_arg y]; []; []; []; []; []].
Definition tlam (args body : tree) : tree := T kCall [] [[nm_load id_tlam]; [T kLambda [] [[args]; [body]]]; []].
Definition emit_deferred (e : event) (n : N) (thunk : tree) (args : list tree) : tree :=
  T kCall [] [[emit_call e n [kw id_ret thunk; guards_none]]; args; []].
Definition wrap_if (b : bool) (f : tree -> tree) (t : tree) : tree := if b then f t else t.
Definition expr_stmt (v : tree) : tree := T kExpr [] [[v]].
Definition thunk_call : tree := T kCall [] [[nm_load id_thunk]; []; []].

Definition is_load (fs : list (list tree)) : bool :=
  match fs with [[T k [] []]] => N.eqb k kLoad | _ => false end.
Definition const_event (sc : list scalar) : option event :=
  match sc with
  | SInt _ :: _ => Some E_after_int
  | SBool _ :: _ => Some E_after_bool
  | SNone :: _ => Some E_after_none
  | SStr _ :: _ => Some E_after_string
  | _ => None
  end.

(* ---- ExprRewriter on expressions; n = traversal index of t in the pristine tree *)
Fixpoint rwe (c : rcfg) (t : tree) (n : N) {struct t} : tree :=
  match t with
  | NoneNode => NoneNode
  | T k sc fs =>
      let generic :=
        T k sc ((fix gof (l : list (list tree)) (i : N) {struct l} : list (list tree) :=
                   match l with
                   | [] => []
                   | f :: l' =>
                       (fix gol (u : list tree) (j : N) {struct u} : list tree :=
                          match u with [] => [] | x :: u' => rwe c x j :: gol u' (j + nsize x) end) f i
                       :: gof l' (i + nsizes f)
                   end) fs (n + 1)) in
      if N.eqb k kName then
        if is_load fs && sub c E_load_name then emit_ret E_load_name n t else t
      else if N.eqb k kConstant then
        match const_event sc with
        | Some e => if sub c e then emit_ret e n t else t
        | None => t
        end
      else if N.eqb k kBinOp then
        match fs with
        | [[l]; [op]; [r]] =>
            let nl := n + 1 in
            let nr := n + 1 + nsize l + nsize op in
            let l' := wrap_if (sub c E_left_binop_arg) (emit_ret E_left_binop_arg nl) (rwe c l nl) in
            let r' := wrap_if (sub c E_right_binop_arg) (emit_ret E_right_binop_arg nr) (rwe c r nr) in
            let node := T kBinOp [] [[l']; [op]; [r']] in
            let ret := if sub c E_before_binop
                       then emit_deferred E_before_binop n
                              (tlam (args2 id_x id_y) (T kBinOp [] [[nm_load id_x]; [op]; [nm_load id_y]])) [l'; r']
                       else node in
            wrap_if (sub c E_after_binop) (emit_ret E_after_binop n) ret
        | _ => generic
        end
      else if N.eqb k kCompare then
        match fs with
        | [[l]; ops; comps] =>
            let nl := n + 1 in
            let nc := n + 1 + nsize l + nsizes ops in
            let l' := wrap_if (sub c E_left_compare_arg) (emit_ret E_left_compare_arg nl) (rwe c l nl) in
            let comps' := (fix goc (u : list tree) (j : N) {struct u} : list tree :=
                             match u with
                             | [] => []
                             | x :: u' => wrap_if (sub c E_compare_arg) (emit_ret E_compare_arg j) (rwe c x j) :: goc u' (j + nsize x)
                             end) comps nc in
            let node := T kCompare [] [[l']; ops; comps'] in
            let ret := if sub c E_before_compare
                       then match comps' with
                            | c0 :: crest =>
                                emit_deferred E_before_compare n
                                  (tlam (args2 id_cmp_x id_cmp_y) (T kCompare [] [[nm_load id_cmp_x]; ops; nm_load id_cmp_y :: crest])) [l'; c0]
                            | [] => node
                            end
                       else node in
            wrap_if (sub c E_after_compare) (emit_ret E_after_compare n) ret
        | _ => generic
        end
      else generic
  end.

(* ---- the two passes on statements, fused: what _handle_stmt appends for statement s (index n) of a body list *)
Definition stmt_emit (e : event) (n : N) (kws : list tree) : tree := expr_stmt (emit_call e n kws).

Fixpoint rws (c : rcfg) (is_module : bool) (s : tree) (n : N) {struct s} : list tree :=
  match s with
  | NoneNode => [NoneNode]
  | T k sc fs =>
      let body_list := fix gol (u : list tree) (j : N) {struct u} : list tree :=
                         match u with [] => [] | x :: u' => rws c false x j ++ gol u' (j + nsize x) end in
      (* 1. ExprRewriter.visit(s), then StatementInserter.visit(s): the statement itself *)
      let main : tree :=
        if N.eqb k kExpr then
          match fs with
          | [[v]] => T k sc [[wrap_if (sub c E_after_expr_stmt) (emit_ret E_after_expr_stmt n) (rwe c v (n + 1))]]
          | _ => s
          end
        else if N.eqb k kAssign then
          match fs with
          | [targets; [v]] =>
              let nv := n + 1 + nsizes targets in
              let v1 := rwe c v nv in
              let v2 := if sub c E_before_assign_rhs then emit_deferred E_before_assign_rhs nv (tlam no_args v1) [] else v1 in
              T k sc [targets; [wrap_if (sub c E_after_assign_rhs) (emit_ret E_after_assign_rhs nv) v2]]
          | _ => s
          end
        else if N.eqb k kIf then
          match fs with
          | [[test]; b; o] =>
              let nb := n + 1 + nsize test in
              T k sc [[wrap_if (sub c E_after_if_test) (emit_ret E_after_if_test n) (rwe c test (n + 1))];
                      body_list b nb; body_list o (nb + nsizes b)]
          | _ => s
          end
        else s in
      (* 2. _make_main_and_after_stmt_stmts *)
      let wants_after := sub c E_after_stmt || (sub c E_after_module_stmt && is_module) in
      let main_and_after (m : tree) (m_is_expr : bool) (m_value : tree) : list tree :=
        if wants_after then
          if m_is_expr && is_module then [stmt_emit E_after_stmt n [kw id_ret m_value]]
          else [m; stmt_emit E_after_stmt n []]
        else [m] in
      let own := main_and_after main (N.eqb k kExpr) (match main with T _ _ [[v]] => v | _ => main end) in
      (* 3. before_stmt expansion *)
      let expanded :=
        if sub c E_before_stmt
        then [T kIf [] [[emit_call E_before_stmt n []]; main_and_after (expr_stmt thunk_call) true thunk_call; own]]
        else own in
      (* 4. after_module_stmt *)
      if is_module && sub c E_after_module_stmt
      then expanded ++ [stmt_emit E_after_module_stmt n [kw id_ret (emit_call E_priv_load_saved_expr_stmt_ret n [])]]
      else expanded
  end.

Definition rw_body (c : rcfg) (is_module : bool) : list tree -> N -> list tree :=
  fix gol (u : list tree) (j : N) {struct u} : list tree :=
    match u with [] => [] | x :: u' => rws c is_module x j ++ gol u' (j + nsize x) end.

(* a module docstring stays as written and stays FIRST: no event is emitted for it or around it, init_module comes after it (__doc__ survives) *)
Definition mod_doc (body : list tree) : list tree :=
  match body with d :: _ => if is_docstring_strict d then [d] else [] | [] => [] end.
Definition mod_rest (body : list tree) : list tree :=
  match body with d :: rest => if is_docstring_strict d then rest else body | [] => [] end.
Definition mod_start (body : list tree) : N :=
  match body with d :: _ => if is_docstring_strict d then 1 + nsize d else 1 | [] => 1 end.

Definition rw_module (c : rcfg) (m : tree) : tree :=
  match m with
  | T k sc [body; ti] =>
      T k sc [mod_doc body
              ++ (if sub c E_init_module then [stmt_emit E_init_module 0 []] else [])
              ++ rw_body c true (mod_rest body) (mod_start body)
              ++ (if sub c E_exit_module then [stmt_emit E_exit_module 0 []] else []); ti]
  | _ => m
  end.

(* ---- the fragment *)
Definition reserved (x : N) : bool := x <? 100.            (* the exporter interns user identifiers from 100 upwards *)
Definition frag_expr_kind (k : N) : bool :=
  existsb (N.eqb k) [kName; kConstant; kBinOp; kCompare; kUnaryOp; kBoolOp; kIfExp].
Definition leaf_kind (k : N) : bool :=      (* contexts and operators: nodes without fields *)
  existsb (N.eqb k) [kLoad; kStore; kAdd; kSub; kMult; kDiv; kMod; kFloorDiv; kPow; kAnd; kOr; kNot; kUSub; kUAdd; kInvert;
                     kEq; kNotEq; kLt; kLtE; kGt; kGtE; kIs; kIsNot; kIn; kNotIn; kBitAnd; kBitOr; kBitXor; kLShift; kRShift].
Fixpoint in_frag_e (t : tree) {struct t} : bool :=
  match t with
  | NoneNode => false
  | T k sc fs =>
      let kids := (fix gof (l : list (list tree)) : bool := match l with [] => true | f :: l' =>
                    (fix gol (u : list tree) : bool := match u with [] => true | x :: u' => in_frag_e x && gol u' end) f && gof l' end) fs in
      if leaf_kind k then match sc, fs with [], [] => true | _, _ => false end
      else if N.eqb k kName then match sc, fs with [SId x], [[T kc [] []]] => negb (reserved x) && (N.eqb kc kLoad || N.eqb kc kStore) | _, _ => false end
      else if N.eqb k kConstant then match sc, fs with [v; SNone], [] => match const_event sc with Some _ => true | None => false end | _, _ => false end
      else if N.eqb k kBinOp then match sc, fs with [], [[_]; [_]; [_]] => kids | _, _ => false end
      else if N.eqb k kCompare then match sc, fs with [], [[_]; ops; comps] => kids && Nat.eqb (length ops) (length comps) && negb (Nat.eqb (length comps) 0) | _, _ => false end
      else if N.eqb k kUnaryOp then match sc, fs with [], [[_]; [_]] => kids | _, _ => false end
      else if N.eqb k kBoolOp then match sc, fs with [], [[_]; vs] => kids && negb (Nat.eqb (length vs) 0) | _, _ => false end
      else if N.eqb k kIfExp then match sc, fs with [], [[_]; [_]; [_]] => kids | _, _ => false end
      else false
  end.
Fixpoint in_frag_s (s : tree) {struct s} : bool :=
  match s with
  | NoneNode => false
  | T k sc fs =>
      if N.eqb k kExpr then match sc, fs with [], [[v]] => in_frag_e v | _, _ => false end
      else if N.eqb k kAssign then match sc, fs with [SNone], [targets; [v]] => forallb in_frag_e targets && negb (Nat.eqb (length targets) 0) && in_frag_e v | _, _ => false end
      else if N.eqb k kPass then match sc, fs with [], [] => true | _, _ => false end
      else if N.eqb k kIf then
        match sc, fs with
        | [], [[test]; b; o] =>
            in_frag_e test && negb (Nat.eqb (length b) 0)
            && (fix gol (u : list tree) : bool := match u with [] => true | x :: u' => in_frag_s x && gol u' end) b
            && (fix gol (u : list tree) : bool := match u with [] => true | x :: u' => in_frag_s x && gol u' end) o
        | _, _ => false
        end
      else false
  end.
Definition in_frag (m : tree) : bool :=
  match m with
  | T k [] [body; []] => N.eqb k kModule && forallb in_frag_s body
  | _ => false
  end.
