(* C02, static half: every emit site of the rewriter output names a node of the SOURCE (by traversal index) and hands
   the handler an expression; `site_ok` checks that this expression, once its own instrumentation is erased, is exactly
   the source construct the event table says the event reports (the node itself, or one fixed child of it).
   No proofs in this file. *)
From Coq Require Import List ZArith NArith Bool.
Import ListNotations.
From PyccoloV Require Import gen.PyAst gen.Ids gen.Events model.Tree model.Erase.
Local Open Scope N_scope.

Inductive sel : Set := SelSelf | SelField (n : nat)
  | SelExcType.   (* the type expression of an except clause; for a bare `except:` the node is the clause itself and the value is BaseException *)

(* the event table (DESIGN section 11), value column: which construct's value the event carries, relative to its node *)
Definition value_table : list (event * sel) :=
  [ (E_load_name, SelSelf); (E_after_bool, SelSelf); (E_after_bytes, SelSelf); (E_after_complex, SelSelf); (E_after_float, SelSelf);
    (E_after_int, SelSelf); (E_after_none, SelSelf); (E_after_string, SelSelf); (E_ellipsis, SelSelf); (E_after_fstring, SelSelf);
    (E_after_binop, SelSelf); (E_left_binop_arg, SelSelf); (E_right_binop_arg, SelSelf);
    (E_after_compare, SelSelf); (E_left_compare_arg, SelSelf); (E_compare_arg, SelSelf);
    (E_after_call, SelSelf); (E_after_argument, SelSelf); (E_after_attribute_load, SelSelf); (E_after_subscript_load, SelSelf);
    (E_after_list_literal, SelSelf); (E_after_tuple_literal, SelSelf); (E_after_set_literal, SelSelf); (E_after_dict_literal, SelSelf);
    (E_list_elt, SelSelf); (E_tuple_elt, SelSelf); (E_set_elt, SelSelf); (E_dict_key, SelSelf); (E_dict_value, SelSelf);
    (E_after_lambda, SelSelf); (E_after_comprehension_if, SelSelf); (E_after_comprehension_elt, SelSelf);
    (E_after_dict_comprehension_key, SelSelf); (E_after_dict_comprehension_value, SelSelf);
    (E_after_assign_rhs, SelSelf); (E_after_augassign_rhs, SelSelf); (E_after_return, SelSelf); (E_after_for_iter, SelSelf);
    (E_decorator, SelSelf); (E_exception_handler_type, SelExcType);
    (* the node is the statement / the enclosing expression, the value is that of one child *)
    (E_after_if_test, SelField 0); (E_after_while_test, SelField 0); (E_before_call, SelField 0);
    (E_before_attribute_load, SelField 0); (E_before_attribute_store, SelField 0); (E_before_attribute_del, SelField 0);
    (E_before_subscript_load, SelField 0); (E_before_subscript_store, SelField 0); (E_before_subscript_del, SelField 0);
    (E_after_lambda_body, SelField 1) ].

Definition sel_of (ev : N) : option sel :=
  match find (fun p => N.eqb (ev_code (fst p)) ev) value_table with Some p => Some (snd p) | None => None end.

(* the nodes of a tree in the order StatementMapper / astexport number them *)
Fixpoint preorder (t : tree) {struct t} : list tree :=
  match t with
  | NoneNode => []
  | T k sc fs =>
      t :: (fix gof (l : list (list tree)) : list tree := match l with [] => [] | f :: l' =>
              (fix gol (u : list tree) : list tree := match u with [] => [] | x :: u' => preorder x ++ gol u' end) f ++ gof l' end) fs
  end.

Definition base_exception_name : tree := T kName [SId id_BaseException] [[T kLoad [] []]].

Definition select (s : sel) (t : tree) : option tree :=
  match s, t with
  | SelSelf, _ => Some t
  | SelField n, T _ _ fs => match nth n fs [] with [x] => Some x | _ => None end
  | SelExcType, T k _ fs =>
      if N.eqb k kExceptHandler
      then match fs with [] :: _ => Some base_exception_name | _ => None end     (* only a clause WITHOUT a type expression is its own event node *)
      else Some t
  | _, _ => None
  end.

Definition site_ok (pre : list tree) (t : tree) : bool :=
  match emit_parts t with
  | Some (ev, nid, _, kws) =>
      match sel_of ev, kw_value id_ret kws with
      | Some s, Some r =>
          match tlam_parts r with
          | Some _ => true
          | None =>
              match erase r with
              | Some [x] =>
                  match nid with
                  | SNid n =>
                      match nth_error pre (N.to_nat n) with
                      | Some node => match select s node with Some v => tree_eqb x (norm v) | None => false end
                      | None => false
                      end
                  | _ => false          (* every site names a node of the source *)
                  end
              | _ => false
              end
          end
      | _, _ => true
      end
  | None => true
  end.

Fixpoint sites_ok (pre : list tree) (t : tree) {struct t} : bool :=
  match t with
  | NoneNode => true
  | T k sc fs =>
      site_ok pre t &&
      (fix gof (l : list (list tree)) : bool := match l with [] => true | f :: l' =>
         (fix gol (u : list tree) : bool := match u with [] => true | x :: u' => sites_ok pre x && gol u' end) f && gof l' end) fs
  end.

Definition check_sites (src out : tree) : bool := sites_ok (preorder src) out.

(* the events with an emit site in the rewritten tree (C03: only subscribed events and the two private helpers) *)
Definition site_events (t : tree) : list N := map fst (sites t).
Definition helper_event (ev : N) : bool :=
  N.eqb ev (ev_code E_priv_load_saved_slice) || N.eqb ev (ev_code E_priv_load_saved_expr_stmt_ret).
Definition check_site_events (subscribed : list N) (out : tree) : bool :=
  forallb (fun ev => helper_event ev || existsb (N.eqb ev) subscribed) (site_events out).
