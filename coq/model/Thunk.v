From Coq Require Import List NArith Bool Arith Lia.
Import ListNotations.

(* The slot in which a before_stmt emission leaves the value its handlers finally returned, and from which the rewritten
   statement   if <emit before_stmt>: <exec saved thunk>() else: <original>   takes it again.
   shared    : one slot per tracer for the whole process (true) or one per tracer and thread (false)
   store_all : the emission stores on every tracer of the stack (true) or only on those that may see the thread (false) *)
Section Thunk.
Variable shared store_all : bool.
Variable multi : nat -> bool.          (* tracer k allows multiple threads *)
Variable top : nat.                    (* index of the tracer entered last: its exec-saved-thunk entry point is installed *)

Inductive outcome : Set := Orig | Ran (v : N) | Fail.
Definition slots := nat -> nat -> option N.         (* thread (0 when shared) -> tracer -> value *)
Record thread : Set := { todo : list (option N);    (* statements left: the replacement its handlers leave, if any *)
                         waiting : bool;            (* between the emission and the exec of the head statement *)
                         outs : list outcome; dead : bool }.
Record st := { threads : nat -> thread; sl : slots }.

Definition key (t : nat) : nat := if shared then 0 else t.
Definition visible (t k : nat) : bool := (t =? 0) || multi k.
Definition store (s : slots) (t : nat) (r : option N) : slots :=
  fun t0 k0 => if (t0 =? key t) && (store_all || visible t k0) then r else s t0 k0.
Definition clear (s : slots) (t : nat) : slots :=
  fun t0 k0 => if (t0 =? key t) && (k0 =? top) then None else s t0 k0.
Definition upd (f : nat -> thread) (t : nat) (x : thread) : nat -> thread := fun t0 => if t0 =? t then x else f t0.

Definition step (s : st) (t : nat) : st :=
  let th := threads s t in
  if dead th then s else
  match todo th with
  | [] => s
  | r :: rest =>
      if waiting th then
        match sl s (key t) top with
        | Some v => {| threads := upd (threads s) t {| todo := rest; waiting := false; outs := outs th ++ [Ran v]; dead := false |};
                       sl := clear (sl s) t |}
        | None => {| threads := upd (threads s) t {| todo := rest; waiting := false; outs := outs th ++ [Fail]; dead := true |}; sl := sl s |}
        end
      else
        let sl' := store (sl s) t r in
        match r with
        | Some _ => {| threads := upd (threads s) t {| todo := todo th; waiting := true; outs := outs th; dead := false |}; sl := sl' |}
        | None => {| threads := upd (threads s) t {| todo := rest; waiting := false; outs := outs th ++ [Orig]; dead := false |}; sl := sl' |}
        end
  end.

Definition run (sched : list nat) (s : st) : st := fold_left step sched s.

Definition spec_out (r : option N) : outcome := match r with Some v => Ran v | None => Orig end.
(* what the thread has done so far followed by what its remaining statements do when it runs alone *)
Definition expected (th : thread) : list outcome := outs th ++ map spec_out (todo th).

Definition init (progs : nat -> list (option N)) : st :=
  {| threads := fun t => {| todo := progs t; waiting := false; outs := []; dead := false |}; sl := fun _ _ => None |}.
End Thunk.
