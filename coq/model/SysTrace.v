(* System-trace composition (C09): CPython 3.12's trace protocol (sysmodule.c trace_trampoline: 'call' goes to the
   thread's global trace function, every other event to the frame's f_trace; a non-None result replaces f_trace) and
   tracer.py's _sys_tracer / _make_composed_tracer / _call_existing_tracer after the repairs.
   A run is a tree of frames; generator resumptions are separate frames.  No proofs in this file. *)
From Coq Require Import List NArith Bool.
Import ListNotations.

Inductive sevt : Set := SCall | SLine | SRet | SExc.
Inductive tag : Set := TFrame (accepted : bool) (name : N) | TLine | TExc.     (* accepted: the tracer's file filter passes *)
Inductive node : Set := Nd (t : tag) (cs : list node).                        (* children of a frame: its events in order *)

(* third-party tracer: its global function logs 'call' and returns a local function for the frames it accepts *)
Record third : Set := { tp_accepts : N -> bool; tp_self : bool (* returns itself rather than a distinct local function *) }.
Record cfg : Set := { sub : sevt -> bool; tp : option third }.

Inductive tfv : Set :=
  | VNone
  | VTpGlob | VTpLoc                 (* the third party's global / local function *)
  | VSys                             (* tracer.sys_tracer: composed with the third party's GLOBAL function (if any) *)
  | VComp (l : tfv).                 (* _make_composed_tracer(l): composed with a local function of the third party, or with nothing *)

Definition is_none (v : tfv) : bool := match v with VNone => true | _ => false end.
Inductive who : Set := WH | WG | WL.       (* a pyccolo handler / the third party's global function / its local function *)
Definition is_h (w : who) : bool := match w with WH => true | _ => false end.
Definition logent : Set := (who * sevt * N)%type.

(* calling a third-party function *)
Definition call_tp (c : cfg) (v : tfv) (e : sevt) (name : N) : tfv * list logent :=
  match c.(tp), v with
  | Some t, VTpGlob =>
      match e with
      | SCall => ((if tp_accepts t name then (if tp_self t then VTpGlob else VTpLoc) else VNone), [(WG, e, name)])
      | _ => (VTpGlob, [(WG, e, name)])
      end
  | Some t, VTpLoc => (VTpLoc, [(WL, e, name)])
  | _, _ => (VNone, [])
  end.

(* calling any trace function value for an event of frame (accepted, name) *)
Definition call_v (c : cfg) (v : tfv) (e : sevt) (accepted : bool) (name : N) : tfv * list logent :=
  match v with
  | VNone => (VNone, [])
  | VTpGlob | VTpLoc => call_tp c v e name
  | VSys | VComp _ =>
      let existing := match v with VSys => (match c.(tp) with Some _ => VTpGlob | None => VNone end) | VComp l => l | _ => VNone end in
      (* my_ret = self._sys_tracer(...) : handlers run when the file filter passes *)
      let mylog := if accepted && sub c e then [(WH, e, name)] else [] in
      let my_traces := accepted in            (* on 'call': sys_tracer (with or without a call handler, after the repair) *)
      let '(ex_ret, exlog) := call_tp c existing e name in
      let res := match e with
                 | SCall =>
                     if my_traces then
                       if negb (is_none ex_ret) then VComp ex_ret
                       else if negb (is_none existing) then VComp VNone
                       else VSys
                     else ex_ret
                 | _ => VNone               (* keep the frame's current local trace function *)
                 end in
      (res, mylog ++ exlog)
  end.

(* the interpreter *)
Definition items_loop (rec : node -> list logent) (c : cfg) (acc : bool) (name : N) :=
  fix go (its : list node) (ft : tfv) {struct its} : tfv * list logent :=
    match its with
    | [] => (ft, [])
    | Nd TLine _ :: its' =>
        let '(r, l) := call_v c ft SLine acc name in
        let '(ft', l') := go its' (if is_none r then ft else r) in (ft', l ++ l')
    | Nd TExc _ :: its' =>
        let '(r, l) := call_v c ft SExc acc name in
        let '(ft', l') := go its' (if is_none r then ft else r) in (ft', l ++ l')
    | (Nd (TFrame _ _) _ as f) :: its' =>
        let l := rec f in
        let '(ft', l') := go its' ft in (ft', l ++ l')
    end.

Fixpoint run (c : cfg) (glob : tfv) (n : node) {struct n} : list logent :=
  match n with
  | Nd (TFrame acc name) items =>
      let '(ft0, l0) := call_v c glob SCall acc name in
      let '(ft1, l1) := items_loop (run c glob) c acc name items ft0 in
      let '(_, l2) := call_v c ft1 SRet acc name in
      l0 ++ l1 ++ l2
  | _ => []
  end.

(* what a plain recorder that accepts the same files sees *)
Definition events_loop (rec : node -> list (sevt * N)) (acc : bool) (name : N) :=
  fix go (its : list node) {struct its} : list (sevt * N) :=
    match its with
    | [] => []
    | Nd TLine _ :: its' => (if acc then [(SLine, name)] else []) ++ go its'
    | Nd TExc _ :: its' => (if acc then [(SExc, name)] else []) ++ go its'
    | (Nd (TFrame _ _) _ as f) :: its' => rec f ++ go its'
    end.
Fixpoint events (n : node) {struct n} : list (sevt * N) :=
  match n with
  | Nd (TFrame acc name) items =>
      (if acc then [(SCall, name)] else []) ++ events_loop events acc name items ++ (if acc then [(SRet, name)] else [])
  | _ => []
  end.

Definition handler_log (l : list logent) : list (sevt * N) := map (fun e => (snd (fst e), snd e)) (filter (fun e => is_h (fst (fst e))) l).
(* which of its functions was called, with which event, for which frame *)
Definition third_log (l : list logent) : list logent := filter (fun e => negb (is_h (fst (fst e)))) l.
Definition global_of (c : cfg) : tfv := match c.(tp) with Some _ => VTpGlob | None => VNone end.
