(* tracer.exec (C15): the five scaffold statements around the spliced program, over the caller's local mapping L
   and globals G.  The program is abstracted as the sequence of binding operations it performs on its (function)
   locals and on globals, possibly cut short by an exception.  Names are interned:
     0 "__", 1 "builtins", 2 "_X5ix_pyccolo_local_env", 3 "_X5ix_pyccolo_sandbox", 4..9 names starting with "@",
     30..39 keys that cannot be parameter names ("class", "a b", "None", "__debug__"), every other number >= 10 an ordinary identifier.
   No proofs in this file. *)
From Coq Require Import List ZArith NArith Bool.
Import ListNotations.

Definition assoc := list (N * Z).
Fixpoint aget (m : assoc) (k : N) : option Z :=
  match m with [] => None | (j, v) :: m' => if N.eqb j k then Some v else aget m' k end.
Definition adel (m : assoc) (k : N) : assoc := filter (fun p => negb (N.eqb (fst p) k)) m.
Definition aset (m : assoc) (k : N) (v : Z) : assoc := adel m k ++ [(k, v)].      (* dict: (re)binding; order is not observable *)

Definition n_dunder : N := 0. Definition n_builtins : N := 1. Definition n_env : N := 2. Definition n_fun : N := 3.
Definition at_prefixed (k : N) : bool := (4 <=? k)%N && (k <=? 9)%N.
Definition internal (k : N) : bool := N.eqb k n_env || N.eqb k n_fun.
Definition usable (k : N) : bool := negb (at_prefixed k) && negb (N.eqb k n_dunder).
Definition cannot_be_param (k : N) : bool := (30 <=? k)%N && (k <=? 39)%N.      (* not k.isidentifier() or keyword.iskeyword(k) or k == "__debug__" *)
(* args_to_use: the supplied names that become keyword-only parameters (gd = the names the outermost scope of the program declares global) *)
Definition is_param (gd : list N) (k : N) : bool := usable k && negb (cannot_be_param k) && negb (existsb (N.eqb k) gd).
(* passed_through: handed back unchanged ("@..." and "__" are dropped, as before) *)
Definition passes_through (gd : list N) (k : N) : bool := negb (is_param gd k) && usable k.

Inductive op : Set :=
  | Bind (k : N) (v : Z)       (* k = v       (k not declared global) *)
  | Del (k : N)                (* del k *)
  | GBind (k : N) (v : Z).     (* global k; k = v *)
Record prog : Set := { ops : list op; raises_after : option nat;      (* Some i: an exception escapes after i operations *)
                       gdecl : list N }.                               (* `global a, b` at the top of the text *)

Definition apply_op (st : assoc * assoc) (o : op) : assoc * assoc :=
  let '(loc, g) := st in
  match o with
  | Bind k v => (aset loc k v, g)
  | Del k => (adel loc k, g)
  | GBind k v => (loc, aset g k v)
  end.
Definition run_ops (l : list op) (st : assoc * assoc) : assoc * assoc := fold_left apply_op l st.

(* for k in passed_through: if k in local_env: result.setdefault(k, local_env[k]) *)
Definition setdefaults (res pt : assoc) : assoc :=
  fold_left (fun r kv => match aget r (fst kv) with Some _ => r | None => aset r (fst kv) (snd kv) end) pt res.

(* returns (Some result | None if the program raised, caller's local mapping afterwards, globals afterwards) *)
Definition exec_model (L G : assoc) (p : prog) : option assoc * assoc * assoc :=
  let env := L in                                           (* _X5ix_pyccolo_local_env = dict(locals()) *)
  let params := filter (fun kv => is_param (gdecl p) (fst kv)) env in   (* keyword-only parameters; the rest lands in **__ *)
  let pt := filter (fun kv => passes_through (gdecl p) (fst kv)) L in
  match raises_after p with
  | Some i =>
      let '(_, g) := run_ops (firstn i (ops p)) (params, G) in
      (* try: ... finally: local_env.pop(fun_name, None); local_env.pop(env_name, None) *)
      (None, adel (adel (aset (aset L n_env 0) n_fun 0) n_fun) n_env, g)
  | None =>
      let '(loc, g) := run_ops (ops p) (params, G) in
      let res0 := aset loc n_dunder 0 in                    (* locals() also shows the **__ catch-all *)
      let res := adel (adel res0 n_dunder) n_builtins in    (* .pop("__", None); .pop("builtins", None) *)
      (Some (setdefaults res pt), adel (adel (aset (aset L n_env 0) n_fun 0) n_fun) n_env, g)
  end.

(* the property's reference: run the same text as the body of a function whose parameters are the supplied names *)
Definition spec_result (L G : assoc) (p : prog) : assoc * assoc := run_ops (ops p) (L, G).

(* ---- locals IS globals (what exec uses when called at module level without mappings, or with only a globals mapping): one
   mapping M.  The scaffold's two names are parked in M while the program runs; a `global k; k = v` of the program writes M; the
   names handed back unchanged are read from M AFTER the program has run (so a supplied name the program declares global comes
   back with its new value).  Returns (Some result | None if the program raised, M afterwards). *)
Definition exec_same (M : assoc) (p : prog) : option assoc * assoc :=
  let params := filter (fun kv => is_param (gdecl p) (fst kv)) M in
  let pt_names := map fst (filter (fun kv => passes_through (gdecl p) (fst kv)) M) in
  let M1 := aset (aset M n_env 0) n_fun 0 in                 (* env = dict(locals()); def sandbox(...) *)
  match raises_after p with
  | Some i =>
      let '(_, g) := run_ops (firstn i (ops p)) (params, M1) in
      (None, adel (adel g n_fun) n_env)
  | None =>
      let '(loc, g) := run_ops (ops p) (params, M1) in
      let res := adel (adel (aset loc n_dunder 0) n_dunder) n_builtins in
      let pt := flat_map (fun k => match aget g k with Some v => [(k, v)] | None => [] end) pt_names in
      (Some (setdefaults res pt), adel (adel g n_fun) n_env)
  end.
(* the reference: the text as the body of a function whose parameters are the supplied names that can be parameters and are not
   declared global, the function's globals being the mapping itself *)
Definition spec_same (M : assoc) (p : prog) : assoc * assoc :=
  run_ops (ops p) (filter (fun kv => is_param (gdecl p) (fst kv)) M, M).
