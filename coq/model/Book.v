(* ast_bookkeeping.BookkeepingVisitor (C18) over a generic tree: every AST node has an id, may be a statement, and
   has children that sit either in a single-node field or in a list field.  After the repair the visitor's
   `_current_containing_stmt` is saved and restored around every child, i.e. it is passed down.  The visitor is
   modelled as the list of table writes it performs, in order.  No proofs in this file. *)
From Coq Require Import List NArith Bool.
Import ListNotations.

Inductive node : Set := Nd (is_stmt : bool) (id : N) (children : list (bool * node)).   (* bool: child sits in a list field *)
Definition nid (n : node) : N := match n with Nd _ i _ => i end.
Definition nstmt (n : node) : bool := match n with Nd s _ _ => s end.
Definition nchildren (n : node) : list (bool * node) := match n with Nd _ _ cs => cs end.

Inductive write : Set :=
  | WNode (k : N)                   (* ast_node_by_id[k] = the node with id k *)
  | WCsDefault (k : N) (s : N)      (* containing_stmt_by_id.setdefault(k, s) *)
  | WCsSet (k : N) (s : N)          (* containing_stmt_by_id[k] = s *)
  | WCa (k : N) (p : N)             (* containing_ast_by_id[k] = p *)
  | WPs (k : N) (p : N).            (* parent_stmt_by_id[k] = p *)

Fixpoint visit (cur : option N) (n : node) {struct n} : list write :=
  match n with
  | Nd st i cs =>
      let cur' := if st then Some i else cur in
      (match cur' with Some c => [WCsDefault i c] | None => [] end)
      ++ [WNode i]
      ++ flat_map (fun bc : bool * node =>
                     let '(inlist, c) := bc in
                     WCa (nid c) i ::
                     (if inlist then
                        (* list field: parent statement = this node if it is a statement; for statements hanging off a
                           non-statement node (excepthandler, match_case): the statement that node belongs to *)
                        if st then [WPs (nid c) i]
                        else if nstmt c then match cur with Some p => [WPs (nid c) p] | None => [] end else []
                      else match cur' with Some s => [WCsSet (nid c) s] | None => [] end)) cs
      ++ (fix go (l : list (bool * node)) : list write :=
            match l with [] => [] | (_, c) :: l' => visit cur' c ++ go l' end) cs
  end.

(* table lookups: replay the writes in order *)
Fixpoint cs_lookup (ws : list write) (k : N) (acc : option N) : option N :=
  match ws with
  | [] => acc
  | WCsDefault j s :: ws' => cs_lookup ws' k (if N.eqb j k then match acc with None => Some s | _ => acc end else acc)
  | WCsSet j s :: ws' => cs_lookup ws' k (if N.eqb j k then Some s else acc)
  | _ :: ws' => cs_lookup ws' k acc
  end.
Fixpoint ps_lookup (ws : list write) (k : N) (acc : option N) : option N :=
  match ws with
  | [] => acc
  | WPs j p :: ws' => ps_lookup ws' k (if N.eqb j k then Some p else acc)
  | _ :: ws' => ps_lookup ws' k acc
  end.
Fixpoint ca_lookup (ws : list write) (k : N) (acc : option N) : option N :=
  match ws with
  | [] => acc
  | WCa j p :: ws' => ca_lookup ws' k (if N.eqb j k then Some p else acc)
  | _ :: ws' => ca_lookup ws' k acc
  end.

(* all nodes, in traversal order (StatementMapper.visit) *)
Fixpoint nodes (n : node) : list node :=
  match n with Nd _ _ cs => n :: (fix go (l : list (bool * node)) := match l with [] => [] | (_, c) :: l' => nodes c ++ go l' end) cs end.
