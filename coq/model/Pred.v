(* Node conditions (predicate.py) and where a conditional handler runs (ast_rewriter.py: one composite per event decides
   the emission site; tracer.py::_emit_event: per-handler delivery test; misc_ast_utils.py::emit + _emit_event: local
   guards).  The boolean decision functions come from gen/PredGen.v (regenerated from the sources on every run); the
   recursion over predicate structures is written here.  `env c` is the truth value of base condition number c on the node
   at hand (the node is fixed throughout: every function here is "at one node").  No proofs in this file. *)
From Coq Require Import List NArith Bool Arith.
Import ListNotations.
From PyccoloV Require Import gen.PredGen.

Inductive pred : Set :=
  | PTrue | PFalse                         (* the singletons Predicate.TRUE / Predicate.FALSE: identity matters *)
  | PBase (static : bool) (c : N)          (* Predicate(condition number c, static=...) *)
  | PComp (is_any : bool) (parts : list pred).   (* CompositePredicate(parts, reducer=any|all) *)

Definition ident_of (p : pred) : ident := match p with PTrue => IsTrue | PFalse => IsFalse | _ => IsOther end.

(* CompositePredicate.any / .all : coalescing, then _create *)
Definition pany (ps : list pred) : pred :=
  match any_coalesce (map ident_of ps) with CTrue => PTrue | CFalse => PFalse | CCreate a => PComp a ps end.
Definition pall (ps : list pred) : pred :=
  match all_coalesce (map ident_of ps) with CTrue => PTrue | CFalse => PFalse | CCreate a => PComp a ps end.

(* the attribute .static *)
Fixpoint p_static (p : pred) : bool :=
  match p with
  | PTrue | PFalse => singleton_static
  | PBase s _ => s
  | PComp _ parts =>
      comp_static (length (filter comp_is_dynamic_part
        ((fix go (l : list pred) : list bool := match l with [] => [] | x :: l' => p_static x :: go l' end) parts)))
  end.

(* Python's any(...) / all(...) over the values of a generator *)
Definition reduce (is_any : bool) (l : list bool) : bool := if is_any then existsb (fun b => b) l else forallb (fun b => b) l.

Section AtNode.
  Variable env : N -> bool.

  (* (p(node), p.dynamic_call(node)) *)
  Fixpoint evalp (p : pred) : bool * bool :=
    match p with
    | PTrue => (true, base_dynamic_call singleton_static true)
    | PFalse => (false, base_dynamic_call singleton_static false)
    | PBase s c => (env c, base_dynamic_call s (env c))
    | PComp a parts =>
        let rs := (fix go (l : list pred) : list (bool * (bool * bool)) :=
                     match l with [] => [] | x :: l' => (p_static x, evalp x) :: go l' end) parts in
        let elt := fun (r : bool * (bool * bool)) => if comp_parts_use_full_call then fst (snd r) else snd (snd r) in
        let call_all := reduce a (map elt rs) in
        let call_dyn := reduce a (map elt (filter (fun r => comp_is_dynamic_part (fst r)) rs)) in
        (call_all, comp_dynamic_call (p_static p) call_all call_dyn)
    end.
  Definition callp (p : pred) : bool := fst (evalp p).
  Definition dynp (p : pred) : bool := snd (evalp p).

  (* what the condition MEANS: the boolean combination of its base conditions *)
  Fixpoint holds (p : pred) : bool :=
    match p with
    | PTrue => true
    | PFalse => false
    | PBase _ c => env c
    | PComp a parts =>
        if a then (fix go (l : list pred) : bool := match l with [] => false | x :: l' => holds x || go l' end) parts
        else (fix go (l : list pred) : bool := match l with [] => true | x :: l' => holds x && go l' end) parts
    end.

  (* ---- one event, the predicates hs of ALL its handlers (all stacked tracers), at this node *)
  Definition site (hs : list pred) : bool := callp (if site_reducer_is_any then pany hs else pall hs).    (* is an emit call generated? *)
  Definition deliver (p : pred) : bool :=                                                                (* _emit_event's test for one handler *)
    deliver_test (ident_eqb (ident_of p) IsTrue) (p_static p) (dynp p) (callp p).
  Definition invoked (hs : list pred) (p : pred) : bool := site hs && deliver p.

  (* ---- local guards: gs = the guard names the handlers of the event compute for this node (emit builds
          `g1 or g2 ... ? <pristine node> : <emit call>`), G = which names are truthy in the module's globals *)
  Variable G : N -> bool.
  Definition pristine_taken (gs : list N) : bool := existsb G gs.
  Definition guard_skips (g : option N) : bool := match g with Some x => G x | None => false end.     (* _emit_event: `continue` *)
  Definition invoked_g (hs : list pred) (gs : list N) (p : pred) (g : option N) : bool :=
    negb (pristine_taken gs) && site hs && negb (guard_skips g) && deliver p.
End AtNode.

(* composites never empty (CompositePredicate.__call__ asserts it) *)
Fixpoint wf (p : pred) : bool :=
  match p with
  | PComp _ parts => negb (Nat.eqb (length parts) 0) &&
      (fix go (l : list pred) : bool := match l with [] => true | x :: l' => wf x && go l' end) parts
  | _ => true
  end.

(* ---- conditions that RAISE on some nodes (a condition written for one node shape, `n.func.id == "f"`, asked about another).
   `envx c` = Some b: base condition c answers b at the node; None: it raises.  Every value below is `option bool`, None = an
   exception leaves the evaluation; the *_x decision functions of gen/PredGen.v follow Python's evaluation order (`or`, `and`,
   `x if c else y` evaluate only what Python evaluates), comp_part_guard is what CompositePredicate.__call__ does with a part
   that raises, and any() / all() stop at the first deciding element. *)
Definition reduce_x (is_any : bool) : list (option bool) -> option bool :=
  fix go (l : list (option bool)) : option bool :=
    match l with
    | [] => Some (negb is_any)
    | None :: _ => None
    | Some b :: l' => if Bool.eqb b is_any then Some is_any else go l'
    end.

Section AtNodeX.
  Variable envx : N -> option bool.

  Fixpoint evalx (p : pred) : option bool * option bool :=
    match p with
    | PTrue => (Some true, base_dynamic_call_x singleton_static (Some true))
    | PFalse => (Some false, base_dynamic_call_x singleton_static (Some false))
    | PBase s c => (envx c, base_dynamic_call_x s (envx c))
    | PComp a parts =>
        let rs := (fix go (l : list pred) : list (bool * (option bool * option bool)) :=
                     match l with [] => [] | x :: l' => (p_static x, evalx x) :: go l' end) parts in
        let elt := fun (r : bool * (option bool * option bool)) =>
                     comp_part_guard (if comp_parts_use_full_call then fst (snd r) else snd (snd r)) in
        let call_all := reduce_x a (map elt rs) in
        let call_dyn := reduce_x a (map elt (filter (fun r => comp_is_dynamic_part (fst r)) rs)) in
        (call_all, comp_dynamic_call_x (p_static p) call_all call_dyn)
    end.

  (* the rewriter's decision for the site: None = the exception leaves AstRewriter.visit, nothing is rewritten *)
  Definition site_x (hs : list pred) : option bool := fst (evalx (if site_reducer_is_any then pany hs else pall hs)).
  (* _emit_event's test sits in a try: an exception skips the handler (should_propagate_handler_exception is False by default;
     the translator checks the try) *)
  Definition deliver_x (p : pred) : bool :=
    match deliver_test_x (ident_eqb (ident_of p) IsTrue) (p_static p) (snd (evalx p)) (fst (evalx p)) with
    | Some b => b | None => false end.
  Definition invoked_x (hs : list pred) (p : pred) : option bool :=
    match site_x hs with Some s => Some (s && deliver_x p) | None => None end.
End AtNodeX.

Definition invoked_gx (envx : N -> option bool) (G : N -> bool) (hs : list pred) (gs : list N) (p : pred) (g : option N) : option bool :=
  match site_x envx hs with
  | Some s => Some (negb (pristine_taken G gs) && s && negb (guard_skips G g) && deliver_x envx p)
  | None => None
  end.

(* "a condition that raises for a node is not satisfied by it" *)
Definition total (envx : N -> option bool) (c : N) : bool := match envx c with Some b => b | None => false end.
