(* HANDLERS THAT OVERRIDE on the fragment of model/FragSem.v (DESIGN 3, "FragOv"): the same terms and the same rewriter `instr_module`,
   but a handler may hand back a value of its own.
     hv e n x : what the handler of a value event does with the value x it is given at node n (None: nothing; Some y: y is used instead;
                pyc.Null is Some VNone);
     hd e n   : what the handler of a deferred (before-expression) event hands back (None: nothing; Some v: the computation is replaced by
                the constant v - the operands that are arguments of the deferred call are still evaluated, what sits inside the thunk is not).
   `eval_o` / `exec_o`: evaluation of instrumented terms; `ref_o`: the reference - source semantics in which the handlers of the SUBSCRIBED
   events act on the values as the event table says.  No proofs in this file. *)
From Coq Require Import List ZArith NArith Bool.
Import ListNotations.
From PyccoloV Require Import gen.PyAst gen.Ids gen.Events model.Tree model.Erase model.RwFrag model.FragSem.
Local Open Scope N_scope.

Section Ov.
Variable binop : N -> val -> val -> res val.
Variable cmpop : N -> val -> val -> res bool.
Variable unop : N -> val -> res val.
Variable truth : val -> bool.
Variable cval : scalar -> val.
Variable is_and : N -> bool.
Variable hv : event -> N -> val -> option val.
Variable hd : event -> N -> option val.

Definition app_hv (e : event) (n : N) (x : val) : val := match hv e n x with Some y => y | None => x end.
Definition ov_res (e : event) (n : N) (q : res val) : res val := match q with Ok x => Ok (app_hv e n x) | Err z => Err z end.

Fixpoint eval_o (t : texpr) (r : env) {struct t} : res val * list entry :=
  let chain := fix chain (vprev : val) (ops : list N) (comps : list texpr) {struct comps} : res val * list entry :=
                 match ops, comps with
                 | o :: ops', x :: comps' =>
                     match eval_o x r with
                     | (Ok vc, lc) =>
                         match cmpop o vprev vc with
                         | Ok true => match comps' with [] => (Ok (VBool true), lc) | _ => let '(q, lq) := chain vc ops' comps' in (q, lc ++ lq) end
                         | Ok false => (Ok (VBool false), lc)
                         | Err e => (Err e, lc)
                         end
                     | (Err e, lc) => (Err e, lc)
                     end
                 | _, _ => (Ok (VBool true), [])
                 end in
  match t with
  | XName _ x => (match r x with Some v => Ok v | None => Err ENameError end, [])
  | XConst _ sc => (Ok (cval sc), [])
  | XBin _ l op rr =>
      match eval_o l r with
      | (Ok vl, ll) => match eval_o rr r with
                       | (Ok vr, lr) => (binop op vl vr, ll ++ lr)
                       | (Err e, lr) => (Err e, ll ++ lr)
                       end
      | (Err e, ll) => (Err e, ll)
      end
  | XCmp _ l ops comps =>
      match eval_o l r with
      | (Ok vl, ll) => let '(q, lq) := chain vl ops comps in (q, ll ++ lq)
      | (Err e, ll) => (Err e, ll)
      end
  | XUn _ op e => match eval_o e r with (Ok v, l) => (unop op v, l) | (Err x, l) => (Err x, l) end
  | XBool _ op es =>
      (fix go (u : list texpr) {struct u} : res val * list entry :=
         match u with
         | [] => (Ok VNone, [])
         | [x] => eval_o x r
         | x :: u' =>
             match eval_o x r with
             | (Ok v, l) => if (if is_and op then negb (truth v) else truth v) then (Ok v, l) else let '(q, lq) := go u' in (q, l ++ lq)
             | (Err e, l) => (Err e, l)
             end
         end) es
  | XIfE _ c a b =>
      match eval_o c r with
      | (Ok vc, lc) => let '(q, lq) := if truth vc then eval_o a r else eval_o b r in (q, lc ++ lq)
      | (Err e, lc) => (Err e, lc)
      end
  | XEmit e n v => let '(q, l) := eval_o v r in (ov_res e n q, l ++ emitted e n q)
  | XDefBin n op l rr =>
      match eval_o l r with
      | (Ok vl, ll) => match eval_o rr r with
                       | (Ok vr, lr) => (match hd E_before_binop n with Some y => Ok y | None => binop op vl vr end, (E_before_binop, n, None) :: ll ++ lr)
                       | (Err e, lr) => (Err e, (E_before_binop, n, None) :: ll ++ lr)
                       end
      | (Err e, ll) => (Err e, (E_before_binop, n, None) :: ll)
      end
  | XDefCmp n ops l c0 crest =>
      match eval_o l r with
      | (Ok vl, ll) =>
          match eval_o c0 r with
          | (Ok v0, l0) =>
              match hd E_before_compare n with
              | Some y => (Ok y, (E_before_compare, n, None) :: ll ++ l0)
              | None =>
                  match ops with
                  | o :: ops' =>
                      match cmpop o vl v0 with
                      | Ok true => match crest with
                                   | [] => (Ok (VBool true), (E_before_compare, n, None) :: ll ++ l0)
                                   | _ => let '(q, lq) := chain v0 ops' crest in (q, (E_before_compare, n, None) :: ll ++ l0 ++ lq)
                                   end
                      | Ok false => (Ok (VBool false), (E_before_compare, n, None) :: ll ++ l0)
                      | Err e => (Err e, (E_before_compare, n, None) :: ll ++ l0)
                      end
                  | [] => (Ok (VBool true), (E_before_compare, n, None) :: ll ++ l0)
                  end
              end
          | (Err e, l0) => (Err e, (E_before_compare, n, None) :: ll ++ l0)
          end
      | (Err e, ll) => (Err e, (E_before_compare, n, None) :: ll)
      end
  | XDefRhs n v =>
      match hd E_before_assign_rhs n with
      | Some y => (Ok y, [(E_before_assign_rhs, n, None)])
      | None => let '(q, l) := eval_o v r in (q, (E_before_assign_rhs, n, None) :: l)
      end
  | XLoadSaved _ => (Err ETypeError, [])
  | XThunkCall => (Err ETypeError, [])
  end.

Fixpoint exec_os (s : tstmt) (r : env) (saved : val) {struct s} : sres :=
  let exec_l := fix exec_l (u : list tstmt) (r : env) (saved : val) {struct u} : sres :=
                  match u with
                  | [] => {| s_exc := None; s_env := r; s_saved := saved; s_log := [] |}
                  | x :: u' =>
                      let a := exec_os x r saved in
                      match s_exc a with
                      | Some _ => a
                      | None => let b := exec_l u' (s_env a) (s_saved a) in
                                {| s_exc := s_exc b; s_env := s_env b; s_saved := s_saved b; s_log := s_log a ++ s_log b |}
                      end
                  end in
  match s with
  | SExpr _ v => let '(q, l) := eval_o v r in
                 {| s_exc := match q with Ok _ => None | Err e => Some e end; s_env := r; s_saved := saved; s_log := l |}
  | SAssign _ xs v =>
      let '(q, l) := eval_o v r in
      match q with
      | Ok x => {| s_exc := None; s_env := fold_left (fun r' y => upd r' y x) xs r; s_saved := saved; s_log := l |}
      | Err e => {| s_exc := Some e; s_env := r; s_saved := saved; s_log := l |}
      end
  | SPass _ => {| s_exc := None; s_env := r; s_saved := saved; s_log := [] |}
  | SIf _ t b o =>
      let '(q, l) := eval_o t r in
      match q with
      | Ok vt => let a := exec_l (if truth vt then b else o) r saved in
                 {| s_exc := s_exc a; s_env := s_env a; s_saved := s_saved a; s_log := l ++ s_log a |}
      | Err e => {| s_exc := Some e; s_env := r; s_saved := saved; s_log := l |}
      end
  | SEmit e n None =>
      {| s_exc := None; s_env := r; s_saved := (if event_eqb e E_after_stmt then VNone else saved); s_log := [(e, n, Some VNone)] |}
  | SEmit e n (Some (XLoadSaved _)) =>
      {| s_exc := None; s_env := r; s_saved := VNone; s_log := [(e, n, Some saved)] |}
  | SEmit e n (Some v) =>
      let '(q, l) := eval_o v r in
      match q with
      | Ok x => {| s_exc := None; s_env := r; s_saved := (if event_eqb e E_after_stmt then x else saved); s_log := l ++ [(e, n, Some x)] |}
      | Err x => {| s_exc := Some x; s_env := r; s_saved := saved; s_log := l |}
      end
  | SBefore n _ own =>
      let a := exec_l own r saved in
      {| s_exc := s_exc a; s_env := s_env a; s_saved := s_saved a; s_log := (E_before_stmt, n, Some VNone) :: s_log a |}
  end.

Fixpoint exec_ol (u : list tstmt) (r : env) (saved : val) {struct u} : sres :=
  match u with
  | [] => {| s_exc := None; s_env := r; s_saved := saved; s_log := [] |}
  | x :: u' =>
      let a := exec_os x r saved in
      match s_exc a with
      | Some _ => a
      | None => let b := exec_ol u' (s_env a) (s_saved a) in
                {| s_exc := s_exc b; s_env := s_env b; s_saved := s_saved b; s_log := s_log a ++ s_log b |}
      end
  end.

(* ---------------------------------------------------------------- the reference: the handlers of the subscribed events act on the values *)
Variable c : rcfg.
Definition ovc (e : event) (n : N) (x : val) : val := if sub c e then app_hv e n x else x.
Definition ovc_res (e : event) (n : N) (q : res val) : res val := match q with Ok x => Ok (ovc e n x) | Err z => Err z end.
Definition odc (e : event) (n : N) : option val := if sub c e then hd e n else None.

Fixpoint ref_o (t : texpr) (r : env) {struct t} : res val * list entry :=
  let chain := fix chain (vprev : val) (ops : list N) (comps : list texpr) {struct comps} : res val * list entry :=
                 match ops, comps with
                 | o :: ops', x :: comps' =>
                     match ref_o x r with
                     | (Ok vc, lc) =>
                         let lc' := lc ++ [(E_compare_arg, xid x, Some vc)] in
                         let vc' := ovc E_compare_arg (xid x) vc in
                         match cmpop o vprev vc' with
                         | Ok true => match comps' with [] => (Ok (VBool true), lc') | _ => let '(q, lq) := chain vc' ops' comps' in (q, lc' ++ lq) end
                         | Ok false => (Ok (VBool false), lc')
                         | Err e => (Err e, lc')
                         end
                     | (Err e, lc) => (Err e, lc)
                     end
                 | _, _ => (Ok (VBool true), [])
                 end in
  match t with
  | XName n x => match r x with Some v => (Ok (ovc E_load_name n v), [(E_load_name, n, Some v)]) | None => (Err ENameError, []) end
  | XConst n sc => match const_ev sc with
                   | Some e => (Ok (ovc e n (cval sc)), [(e, n, Some (cval sc))])
                   | None => (Ok (cval sc), [])
                   end
  | XBin n l op rr =>
      match ref_o l r with
      | (Ok vl, ll) =>
          let vl' := ovc E_left_binop_arg (xid l) vl in
          match ref_o rr r with
          | (Ok vr, lr) =>
              let vr' := ovc E_right_binop_arg (xid rr) vr in
              let q := match odc E_before_binop n with Some y => Ok y | None => binop op vl' vr' end in
              (ovc_res E_after_binop n q,
               (E_before_binop, n, None) :: ll ++ [(E_left_binop_arg, xid l, Some vl)] ++ lr ++ [(E_right_binop_arg, xid rr, Some vr)] ++ emitted E_after_binop n q)
          | (Err e, lr) => (Err e, (E_before_binop, n, None) :: ll ++ [(E_left_binop_arg, xid l, Some vl)] ++ lr)
          end
      | (Err e, ll) => (Err e, (E_before_binop, n, None) :: ll)
      end
  | XCmp n l ops comps =>
      match ref_o l r with
      | (Ok vl, ll) =>
          let vl' := ovc E_left_compare_arg (xid l) vl in
          let '(q, lq) :=
            match odc E_before_compare n, comps with
            | Some y, x :: _ =>
                (* the deferred call still evaluates its two arguments: the left operand and the first comparator *)
                match ref_o x r with
                | (Ok vc, lc) => (Ok y, lc ++ [(E_compare_arg, xid x, Some vc)])
                | (Err e, lc) => (Err e, lc)
                end
            | _, _ => chain vl' ops comps
            end in
          (ovc_res E_after_compare n q, (E_before_compare, n, None) :: ll ++ [(E_left_compare_arg, xid l, Some vl)] ++ lq ++ emitted E_after_compare n q)
      | (Err e, ll) => (Err e, (E_before_compare, n, None) :: ll)
      end
  | XUn _ op e => match ref_o e r with (Ok v, l) => (unop op v, l) | (Err x, l) => (Err x, l) end
  | XBool _ op es =>
      (fix go (u : list texpr) {struct u} : res val * list entry :=
         match u with
         | [] => (Ok VNone, [])
         | [x] => ref_o x r
         | x :: u' =>
             match ref_o x r with
             | (Ok v, l) => if (if is_and op then negb (truth v) else truth v) then (Ok v, l) else let '(q, lq) := go u' in (q, l ++ lq)
             | (Err e, l) => (Err e, l)
             end
         end) es
  | XIfE _ c0 a b =>
      match ref_o c0 r with
      | (Ok vc, lc) => let '(q, lq) := if truth vc then ref_o a r else ref_o b r in (q, lc ++ lq)
      | (Err e, lc) => (Err e, lc)
      end
  | _ => (Err ETypeError, [])
  end.

Fixpoint ref_os (is_module : bool) (s : tstmt) (r : env) {struct s} : rres :=
  let ref_l := fix ref_l (u : list tstmt) (r : env) {struct u} : rres :=
                 match u with
                 | [] => {| r_exc := None; r_env := r; r_log := [] |}
                 | x :: u' =>
                     let a := ref_os false x r in
                     match r_exc a with
                     | Some _ => a
                     | None => let b := ref_l u' (r_env a) in {| r_exc := r_exc b; r_env := r_env b; r_log := r_log a ++ r_log b |}
                     end
                 end in
  let n := match s with SExpr n _ | SAssign n _ _ | SPass n | SIf n _ _ _ | SEmit _ n _ | SBefore n _ _ => n end in
  let body : option exc * env * list entry * val :=
    match s with
    | SExpr _ v => let '(q, l) := ref_o v r in
                   let q' := ovc_res E_after_expr_stmt n q in
                   (match q with Ok _ => None | Err e => Some e end, r, l ++ emitted E_after_expr_stmt n q, match q' with Ok x => x | Err _ => VNone end)
    | SAssign _ xs v =>
        match odc E_before_assign_rhs (xid v) with
        | Some y =>
            (* the right-hand side sits inside the thunk: it is not evaluated *)
            let x := ovc E_after_assign_rhs (xid v) y in
            (None, fold_left (fun r' z => upd r' z x) xs r, [(E_before_assign_rhs, xid v, None); (E_after_assign_rhs, xid v, Some y)], VNone)
        | None =>
            let '(q, l) := ref_o v r in
            let q' := ovc_res E_after_assign_rhs (xid v) q in
            (match q with Ok _ => None | Err e => Some e end,
             match q' with Ok x => fold_left (fun r' y => upd r' y x) xs r | Err _ => r end,
             (E_before_assign_rhs, xid v, None) :: l ++ emitted E_after_assign_rhs (xid v) q, VNone)
        end
    | SPass _ => (None, r, [], VNone)
    | SIf _ t b o =>
        let '(q, l) := ref_o t r in
        match q with
        | Ok vt => let a := ref_l (if truth (ovc E_after_if_test n vt) then b else o) r in (r_exc a, r_env a, l ++ (E_after_if_test, n, Some vt) :: r_log a, VNone)
        | Err e => (Some e, r, l, VNone)
        end
    | _ => (Some ETypeError, r, [], VNone)
    end in
  let '(x, r', l, v) := body in
  (* the value an after-statement event of the module level carries (what an after_stmt handler hands back is not used by anybody) *)
  let v1 := if is_module then v else VNone in
  {| r_exc := x; r_env := r';
     r_log := (E_before_stmt, n, Some VNone) :: l ++
              match x with
              | Some _ => []
              | None => (E_after_stmt, n, Some v1) :: (if is_module then [(E_after_module_stmt, n, Some v1)] else [])
              end |}.

Definition ref_ol (is_module : bool) := fix ref_l (u : list tstmt) (r : env) {struct u} : rres :=
  match u with
  | [] => {| r_exc := None; r_env := r; r_log := [] |}
  | x :: u' =>
      let a := ref_os is_module x r in
      match r_exc a with
      | Some _ => a
      | None => let b := ref_l u' (r_env a) in {| r_exc := r_exc b; r_env := r_env b; r_log := r_log a ++ r_log b |}
      end
  end.

Definition ref_omodule (body : list tstmt) (r : env) : rres :=
  let a := ref_ol true (trest body) r in
  {| r_exc := r_exc a; r_env := r_env a;
     r_log := (E_init_module, 0, Some VNone) :: r_log a ++ match r_exc a with None => [(E_exit_module, 0, Some VNone)] | Some _ => [] end |}.
End Ov.
