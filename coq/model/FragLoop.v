(* The fragment of model/FragSem.v extended with `while` loops and GUARDS (DESIGN 3, "FragLoop"): statements only; expressions,
   their rewriter `ie`, evaluator `eval_e` and reference `ref_e` are those of FragSem.v.
   The rewriter gives every `while` two guards (names of builtins that are true until a handler activates the guard):
       while (<instrumented test> if TRACING and G_test else <test>):
           if TRACING and G_body [and EMIT(before_while_loop_body, n, ret=True)]:
               [try:] <instrumented body> [finally: EMIT(after_while_loop_iter, n, guard='G_body')]
           else:
               <pristine body>                       (nested loops keep a guarded test with the same expression on both sides)
       else: <instrumented else clause>
   and with global guards disabled
       while <instrumented test>:
           [EMIT(before_while_loop_body, n, ret=True)]
           [try:] <instrumented body> [finally: EMIT(after_while_loop_iter, n, guard=None)]
   Handlers may activate and deactivate guards: `pol`, an arbitrary function from the stream DELIVERED so far to the set of
   guards that are on.  Loops run on fuel (iterations per execution of a loop), the same for source and instrumented program.
   No proofs in this file. *)
From Coq Require Import List ZArith NArith Bool.
Import ListNotations.
From PyccoloV Require Import gen.PyAst gen.Ids gen.Events model.Tree model.Erase model.RwFrag model.FragSem.
Local Open Scope N_scope.

Inductive guard : Set := GTest (n : N) | GBody (n : N).
Definition guard_id (g : guard) : N := match g with GTest n => 5000000 + 2 * n | GBody n => 5000000 + 2 * n + 1 end.

Inductive lstmt : Set :=
  | LExpr (n : N) (v : texpr)
  | LAssign (n : N) (targets : list N) (v : texpr)
  | LPass (n : N)
  | LIf (n : N) (t : texpr) (b o : list lstmt)
  | LWhile (n : N) (t : texpr) (b o : list lstmt)
  | LBreak (n : N)
  | LContinue (n : N)
  (* what the rewriter adds *)
  | LEmit (e : event) (n : N) (ret : option texpr) (g : option (option guard))   (* EMIT(e, n[, ret=v][, guard='G' | guard=None]) *)
  | LBefore (n : N) (thunk_branch own : list lstmt)
  | LWhileG (n : N) (g : guard) (t' t : texpr) (b o : list lstmt)                 (* while (t' if TRACING and g else t): b else: o *)
  | LGuardIf (g : guard) (before : option N) (instr pristine : list lstmt)
  | LTry (b fin : list lstmt).

Definition lid (s : lstmt) : N :=
  match s with
  | LExpr n _ | LAssign n _ _ | LPass n | LIf n _ _ _ | LWhile n _ _ _ | LBreak n | LContinue n | LEmit _ n _ _ | LBefore n _ _ | LWhileG n _ _ _ _ _ => n
  | LGuardIf g _ _ _ => match g with GTest n | GBody n => n end
  | LTry _ _ => 0
  end.

(* ---------------------------------------------------------------- reading a source tree *)
Fixpoint of_ls (s : tree) (n : N) {struct s} : option lstmt :=
  match s with
  | NoneNode => None
  | T k sc fs =>
      let goss := fix gol (u : list tree) (j : N) {struct u} : option (list lstmt) :=
                    match u with
                    | [] => Some []
                    | x :: u' => match of_ls x j, gol u' (j + nsize x) with Some a, Some b => Some (a :: b) | _, _ => None end
                    end in
      if N.eqb k kExpr then
        match sc, fs with [], [[v]] => match of_e v (n + 1) with Some v' => Some (LExpr n v') | None => None end | _, _ => None end
      else if N.eqb k kAssign then
        match sc, fs with
        | [SNone], [targets; [v]] =>
            match targets_of targets, of_e v (n + 1 + nsizes targets) with Some xs, Some v' => Some (LAssign n xs v') | _, _ => None end
        | _, _ => None
        end
      else if N.eqb k kPass then match sc, fs with [], [] => Some (LPass n) | _, _ => None end
      else if N.eqb k kBreak then match sc, fs with [], [] => Some (LBreak n) | _, _ => None end
      else if N.eqb k kContinue then match sc, fs with [], [] => Some (LContinue n) | _, _ => None end
      else if N.eqb k kIf || N.eqb k kWhile then
        match sc, fs with
        | [], [[test]; b; o] =>
            let nb := n + 1 + nsize test in
            match of_e test (n + 1), goss b nb, goss o (nb + nsizes b) with
            | Some t', Some b', Some o' => Some (if N.eqb k kIf then LIf n t' b' o' else LWhile n t' b' o') | _, _, _ => None end
        | _, _ => None
        end
      else None
  end.

Definition of_lmodule (m : tree) : option (list lstmt) :=
  match m with
  | T k [] [body; []] =>
      if N.eqb k kModule then
        (fix gol (u : list tree) (j : N) {struct u} : option (list lstmt) :=
           match u with
           | [] => Some []
           | x :: u' => match of_ls x j, gol u' (j + nsize x) with Some a, Some b => Some (a :: b) | _, _ => None end
           end) body 1
      else None
  | _ => None
  end.

(* ---------------------------------------------------------------- printing *)
Definition guard_name (g : guard) : tree := nm_load (guard_id g).
Definition and_test (parts : list tree) : tree := T kBoolOp [] [[T kAnd [] []]; parts].
Definition true_const : tree := T kConstant [SBool true; SNone] [].
Definition guard_kw (g : option guard) : tree :=
  kw id_guard_kw (match g with Some g' => T kConstant [SStr (guard_id g'); SNone] [] | None => none_const end).

Fixpoint tls (s : lstmt) : tree :=
  match s with
  | LExpr _ v => T kExpr [] [[tt v]]
  | LAssign _ xs v => T kAssign [SNone] [map nm_store xs; [tt v]]
  | LPass _ => T kPass [] []
  | LIf _ t b o => T kIf [] [[tt t]; map tls b; map tls o]
  | LWhile _ t b o => T kWhile [] [[tt t]; map tls b; map tls o]
  | LBreak _ => T kBreak [] []
  | LContinue _ => T kContinue [] []
  | LEmit e n r g =>
      stmt_emit e n ((match r with Some v => [kw id_ret (tt v)] | None => [] end)
                     ++ (match g with Some g' => [guard_kw g'] | None => [] end)
                     ++ (match r, g with Some _, None => if event_eqb e E_before_while_loop_body then [guards_none] else [] | _, _ => [] end))
  | LBefore n tb own => T kIf [] [[emit_call E_before_stmt n []]; map tls tb; map tls own]
  | LWhileG _ g t' t b o =>
      T kWhile [] [[T kIfExp [] [[and_test [nm_load id_te; guard_name g]]; [tt t']; [tt t]]]; map tls b; map tls o]
  | LGuardIf g before i p =>
      T kIf [] [[and_test ([nm_load id_te; guard_name g]
                           ++ match before with Some n => [emit_ret E_before_while_loop_body n true_const] | None => [] end)];
                map tls i; map tls p]
  | LTry b fin => T kTry [] [map tls b; []; []; map tls fin]
  end.
Definition tl_module (body : list lstmt) : tree := T kModule [] [map tls body; []].

(* ---------------------------------------------------------------- the rewriter *)
Section Instr.
Variable c : rcfg.
Variable ge : bool.                 (* global guards enabled *)

(* the copy that runs while a loop's body guard is off: untouched, except that nested loops keep a guarded test *)
Fixpoint pr (s : lstmt) : lstmt :=
  match s with
  | LIf n t b o => LIf n t (map pr b) (map pr o)
  | LWhile n t b o => if ge then LWhileG n (GTest n) t t (map pr b) (map pr o) else LWhile n t (map pr b) (map pr o)
  | other => other
  end.

Definition lmain_and_after (wants_after is_module : bool) (n : N) (m : lstmt) (m_is_expr : bool) (m_value : texpr) : list lstmt :=
  if wants_after then
    if m_is_expr && is_module then [LEmit E_after_stmt n (Some m_value) None] else [m; LEmit E_after_stmt n None None]
  else [m].

Fixpoint lis (is_module : bool) (s : lstmt) {struct s} : list lstmt :=
  let n := lid s in
  let main : lstmt :=
    match s with
    | LExpr n v => LExpr n (wrap c E_after_expr_stmt n (ie c v))
    | LAssign n xs v =>
        let v1 := ie c v in
        let v2 := if sub c E_before_assign_rhs then XDefRhs (xid v) v1 else v1 in
        LAssign n xs (wrap c E_after_assign_rhs (xid v) v2)
    | LIf n t b o => LIf n (wrap c E_after_if_test n (ie c t)) (flat_map (lis false) b) (flat_map (lis false) o)
    | LWhile n t b o =>
        let t' := wrap c E_after_while_test n (ie c t) in
        let b' := flat_map (lis false) b in
        let with_after := if sub c E_after_while_loop_iter
                          then [LTry b' [LEmit E_after_while_loop_iter n None (Some (if ge then Some (GBody n) else None))]]
                          else b' in
        if ge then
          LWhileG n (GTest n) t' t
            [LGuardIf (GBody n) (if sub c E_before_while_loop_body then Some n else None) with_after (map pr b)]
            (flat_map (lis false) o)
        else
          LWhile n t'
            ((if sub c E_before_while_loop_body then [LEmit E_before_while_loop_body n (Some (XConst 0 (SBool true))) None] else []) ++ with_after)
            (flat_map (lis false) o)
    | other => other
    end in
  let wants_after := sub c E_after_stmt || (sub c E_after_module_stmt && is_module) in
  let own := lmain_and_after wants_after is_module n main (match s with LExpr _ _ => true | _ => false end)
               (match main with LExpr _ v => v | _ => XThunkCall end) in
  let expanded :=
    if sub c E_before_stmt
    then [LBefore n (lmain_and_after wants_after is_module n (LExpr 0 XThunkCall) true XThunkCall) own]
    else own in
  if is_module && sub c E_after_module_stmt
  then expanded ++ [LEmit E_after_module_stmt n (Some (XLoadSaved n)) None]
  else expanded.

Definition linstr_module0 (body : list lstmt) : list lstmt :=
  (if sub c E_init_module then [LEmit E_init_module 0 None None] else [])
  ++ flat_map (lis true) body
  ++ (if sub c E_exit_module then [LEmit E_exit_module 0 None None] else []).
End Instr.

(* a module docstring stays as written and first (as in FragSem.tdoc / trest) *)
Definition is_doc_l (s : lstmt) : bool := match s with LExpr _ (XConst _ (SStr _)) => true | _ => false end.
Definition ldoc (body : list lstmt) : list lstmt := match body with d :: _ => if is_doc_l d then [d] else [] | [] => [] end.
Definition lrest (body : list lstmt) : list lstmt := match body with d :: rest => if is_doc_l d then rest else body | [] => [] end.
Definition linstr_module (c : rcfg) (ge : bool) (body : list lstmt) : list lstmt := ldoc body ++ linstr_module0 c ge (lrest body).

(* ---------------------------------------------------------------- evaluation *)
Inductive lexc : Set := LX (e : exc) | LFuel | LBrk | LCnt.     (* a Python exception; a loop ran out of fuel; `break` / `continue` on their way to the loop *)
Record lres : Set := { l_exc : option lexc; l_env : env; l_saved : val; l_log : list entry }.

Section Sem.
Variable binop : N -> val -> val -> res val.
Variable cmpop : N -> val -> val -> res bool.
Variable unop : N -> val -> res val.
Variable truth : val -> bool.
Variable cval : scalar -> val.
Variable is_and : N -> bool.
Variable c : rcfg.
Variable pol : list entry -> guard -> bool.       (* from the stream delivered so far: is the guard on *)
Variable fuel : nat.

Notation eval_e := (eval_e binop cmpop unop truth cval is_and).
Notation ref_e := (ref_e binop cmpop unop truth cval is_and).
Definition gon (pre : list entry) (g : guard) : bool := pol (filter_log c pre) g.
Definition lseq (a : lres) (k : env -> val -> list entry -> lres) (pre : list entry) : lres :=
  match l_exc a with
  | Some _ => a
  | None => let b := k (l_env a) (l_saved a) (pre ++ l_log a) in
            {| l_exc := l_exc b; l_env := l_env b; l_saved := l_saved b; l_log := l_log a ++ l_log b |}
  end.
Definition lexc_of (q : res val) : option lexc := match q with Ok _ => None | Err e => Some (LX e) end.

(* pre: everything emitted before this statement (guard tests look at what has been delivered so far) *)
Fixpoint lexec_s (s : lstmt) (r : env) (saved : val) (pre : list entry) {struct s} : lres :=
  let exec_l := fix exec_l (u : list lstmt) (r : env) (saved : val) (pre : list entry) {struct u} : lres :=
                  match u with
                  | [] => {| l_exc := None; l_env := r; l_saved := saved; l_log := [] |}
                  | x :: u' => lseq (lexec_s x r saved pre) (exec_l u') pre
                  end in
  let loop := fun (test : env -> list entry -> res val * list entry) (b o : list lstmt) =>
                fix loop (f : nat) (r : env) (saved : val) (pre : list entry) {struct f} : lres :=
                  match f with
                  | O => {| l_exc := Some LFuel; l_env := r; l_saved := saved; l_log := [] |}
                  | S f' =>
                      let '(q, lt) := test r pre in
                      match q with
                      | Err e => {| l_exc := Some (LX e); l_env := r; l_saved := saved; l_log := lt |}
                      | Ok vt =>
                          if truth vt then
                            let a := exec_l b r saved (pre ++ lt) in
                            match l_exc a with
                            | Some LBrk => {| l_exc := None; l_env := l_env a; l_saved := l_saved a; l_log := lt ++ l_log a |}     (* break: no else clause *)
                            | None | Some LCnt =>
                                let z := loop f' (l_env a) (l_saved a) (pre ++ lt ++ l_log a) in
                                {| l_exc := l_exc z; l_env := l_env z; l_saved := l_saved z; l_log := lt ++ l_log a ++ l_log z |}
                            | Some _ => {| l_exc := l_exc a; l_env := l_env a; l_saved := l_saved a; l_log := lt ++ l_log a |}
                            end
                          else let a := exec_l o r saved (pre ++ lt) in
                               {| l_exc := l_exc a; l_env := l_env a; l_saved := l_saved a; l_log := lt ++ l_log a |}
                      end
                  end in
  match s with
  | LExpr _ v => let '(q, l) := eval_e v r in {| l_exc := lexc_of q; l_env := r; l_saved := saved; l_log := l |}
  | LAssign _ xs v =>
      let '(q, l) := eval_e v r in
      match q with
      | Ok x => {| l_exc := None; l_env := fold_left (fun r' y => upd r' y x) xs r; l_saved := saved; l_log := l |}
      | Err e => {| l_exc := Some (LX e); l_env := r; l_saved := saved; l_log := l |}
      end
  | LPass _ => {| l_exc := None; l_env := r; l_saved := saved; l_log := [] |}
  | LIf _ t b o =>
      let '(q, l) := eval_e t r in
      match q with
      | Ok vt => let a := exec_l (if truth vt then b else o) r saved (pre ++ l) in
                 {| l_exc := l_exc a; l_env := l_env a; l_saved := l_saved a; l_log := l ++ l_log a |}
      | Err e => {| l_exc := Some (LX e); l_env := r; l_saved := saved; l_log := l |}
      end
  | LWhile _ t b o => loop (fun r _ => eval_e t r) b o fuel r saved pre
  | LBreak _ => {| l_exc := Some LBrk; l_env := r; l_saved := saved; l_log := [] |}
  | LContinue _ => {| l_exc := Some LCnt; l_env := r; l_saved := saved; l_log := [] |}
  | LWhileG _ g t' t b o => loop (fun r pre => if gon pre g then eval_e t' r else eval_e t r) b o fuel r saved pre
  | LEmit e n None _ =>
      {| l_exc := None; l_env := r; l_saved := (if event_eqb e E_after_stmt then VNone else saved); l_log := [(e, n, Some VNone)] |}
  | LEmit e n (Some (XLoadSaved _)) _ =>
      {| l_exc := None; l_env := r; l_saved := VNone; l_log := [(e, n, Some saved)] |}
  | LEmit e n (Some v) _ =>
      let '(q, l) := eval_e v r in
      match q with
      | Ok x => {| l_exc := None; l_env := r; l_saved := (if event_eqb e E_after_stmt then x else saved); l_log := l ++ [(e, n, Some x)] |}
      | Err x => {| l_exc := Some (LX x); l_env := r; l_saved := saved; l_log := l |}
      end
  | LBefore n _ own =>
      let a := exec_l own r saved (pre ++ [(E_before_stmt, n, Some VNone)]) in
      {| l_exc := l_exc a; l_env := l_env a; l_saved := l_saved a; l_log := (E_before_stmt, n, Some VNone) :: l_log a |}
  | LGuardIf g before i p =>
      if gon pre g then
        match before with
        | Some n => let a := exec_l i r saved (pre ++ [(E_before_while_loop_body, n, Some (cval (SBool true)))]) in
                    {| l_exc := l_exc a; l_env := l_env a; l_saved := l_saved a; l_log := (E_before_while_loop_body, n, Some (cval (SBool true))) :: l_log a |}
        | None => exec_l i r saved pre
        end
      else exec_l p r saved pre
  | LTry b fin =>
      let a := exec_l b r saved pre in
      let z := exec_l fin (l_env a) (l_saved a) (pre ++ l_log a) in
      {| l_exc := match l_exc z with Some x => Some x | None => l_exc a end;
         l_env := l_env z; l_saved := l_saved z; l_log := l_log a ++ l_log z |}
  end.

Fixpoint lexec_l (u : list lstmt) (r : env) (saved : val) (pre : list entry) {struct u} : lres :=
  match u with
  | [] => {| l_exc := None; l_env := r; l_saved := saved; l_log := [] |}
  | x :: u' => lseq (lexec_s x r saved pre) (lexec_l u') pre
  end.

(* ---------------------------------------------------------------- the reference: source semantics + the event stream, gated by the guards *)
Variable ge : bool.
Record rlres : Set := { rl_exc : option lexc; rl_env : env; rl_log : list entry }.
Definition rseq (a : rlres) (k : env -> list entry -> rlres) (pre : list entry) : rlres :=
  match rl_exc a with
  | Some _ => a
  | None => let b := k (rl_env a) (pre ++ rl_log a) in {| rl_exc := rl_exc b; rl_env := rl_env b; rl_log := rl_log a ++ rl_log b |}
  end.

(* quiet: inside the pristine copy of a loop body nothing is emitted *)
Fixpoint lref_s (quiet is_module : bool) (s : lstmt) (r : env) (pre : list entry) {struct s} : rlres :=
  let ref_l := fun (quiet : bool) => fix ref_l (u : list lstmt) (r : env) (pre : list entry) {struct u} : rlres :=
                 match u with
                 | [] => {| rl_exc := None; rl_env := r; rl_log := [] |}
                 | x :: u' => rseq (lref_s quiet false x r pre) (ref_l u') pre
                 end in
  let say (l : list entry) : list entry := if quiet then [] else l in
  let n := lid s in
  let body : option lexc * env * list entry * val :=
    match s with
    | LExpr _ v => let '(q, l) := ref_e v r in (lexc_of q, r, say (l ++ emitted E_after_expr_stmt n q), match q with Ok x => x | Err _ => VNone end)
    | LAssign _ xs v =>
        let '(q, l) := ref_e v r in
        (lexc_of q, match q with Ok x => fold_left (fun r' y => upd r' y x) xs r | Err _ => r end,
         say ((E_before_assign_rhs, xid v, None) :: l ++ emitted E_after_assign_rhs (xid v) q), VNone)
    | LPass _ => (None, r, [], VNone)
    | LBreak _ => (Some LBrk, r, [], VNone)
    | LContinue _ => (Some LCnt, r, [], VNone)
    | LIf _ t b o =>
        let '(q, l) := ref_e t r in
        match q with
        | Ok vt => let l1 := say (l ++ [(E_after_if_test, n, Some vt)]) in
                   let a := ref_l quiet (if truth vt then b else o) r (pre ++ say [(E_before_stmt, n, Some VNone)] ++ l1) in
                   (rl_exc a, rl_env a, l1 ++ rl_log a, VNone)
        | Err e => (Some (LX e), r, say l, VNone)
        end
    | LWhile _ t b o =>
        let pre0 := pre ++ say [(E_before_stmt, n, Some VNone)] in
        let z := (fix loop (f : nat) (r : env) (pre : list entry) {struct f} : rlres :=
                    match f with
                    | O => {| rl_exc := Some LFuel; rl_env := r; rl_log := [] |}
                    | S f' =>
                        let '(q, l) := ref_e t r in
                        (* the test is instrumented while its guard is on *)
                        let loud_t := negb quiet && (negb ge || gon pre (GTest n)) in
                        let lt := if loud_t then l ++ emitted E_after_while_test n q else [] in
                        match q with
                        | Err e => {| rl_exc := Some (LX e); rl_env := r; rl_log := lt |}
                        | Ok vt =>
                            if truth vt then
                              (* the iteration is instrumented when the body guard is on as it starts; after_while_loop_iter closes it, also when it raises *)
                              let loud_b := negb quiet && (negb ge || gon (pre ++ lt) (GBody n)) in
                              let lb := if loud_b then [(E_before_while_loop_body, n, Some (cval (SBool true)))] else [] in
                              let a := ref_l (negb loud_b) b r (pre ++ lt ++ lb) in
                              let la := if loud_b then [(E_after_while_loop_iter, n, Some VNone)] else [] in
                              match rl_exc a with
                              | Some LBrk => {| rl_exc := None; rl_env := rl_env a; rl_log := lt ++ lb ++ rl_log a ++ la |}
                              | None | Some LCnt =>
                                  let z := loop f' (rl_env a) (pre ++ lt ++ lb ++ rl_log a ++ la) in
                                  {| rl_exc := rl_exc z; rl_env := rl_env z; rl_log := lt ++ lb ++ rl_log a ++ la ++ rl_log z |}
                              | Some _ => {| rl_exc := rl_exc a; rl_env := rl_env a; rl_log := lt ++ lb ++ rl_log a ++ la |}
                              end
                            else let a := ref_l quiet o r (pre ++ lt) in
                                 {| rl_exc := rl_exc a; rl_env := rl_env a; rl_log := lt ++ rl_log a |}
                        end
                    end) fuel r pre0 in
        (rl_exc z, rl_env z, rl_log z, VNone)
    | _ => (Some (LX ETypeError), r, [], VNone)
    end in
  let '(x, r', l, v) := body in
  let after_value := if is_module then v else VNone in
  {| rl_exc := x; rl_env := r';
     rl_log := say [(E_before_stmt, n, Some VNone)] ++ l ++
               match x with
               | Some _ => []
               | None => say ((E_after_stmt, n, Some after_value) :: (if is_module then [(E_after_module_stmt, n, Some after_value)] else []))
               end |}.

Definition lref_l (quiet is_module : bool) := fix ref_l (u : list lstmt) (r : env) (pre : list entry) {struct u} : rlres :=
  match u with
  | [] => {| rl_exc := None; rl_env := r; rl_log := [] |}
  | x :: u' => rseq (lref_s quiet is_module x r pre) (ref_l u') pre
  end.

Definition lref_module0 (body : list lstmt) (r : env) : rlres :=
  let a := lref_l false true body r [(E_init_module, 0, Some VNone)] in
  {| rl_exc := rl_exc a; rl_env := rl_env a;
     rl_log := (E_init_module, 0, Some VNone) :: rl_log a ++ match rl_exc a with None => [(E_exit_module, 0, Some VNone)] | Some _ => [] end |}.
Definition lref_module (body : list lstmt) (r : env) : rlres := lref_module0 (lrest body) r.
End Sem.
