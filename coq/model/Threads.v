(* Interleaving model (C17): each emission is the sequence of statement-level steps of
   emit_event._emit_event / _emit_tracer_loop on the two re-entrancy switches.  A schedule is a list of thread
   indices; run_sched executes the next step of the named thread.  `shared` says whether the switches are one
   process-wide pair (true) or one pair per thread (false); the check instantiates it with gen/Switches.v.
   Thread 0 is the main thread.  No proofs in this file. *)
From Coq Require Import List NArith Bool Arith.
Import ListNotations.

Record tracer_cfg : Set := { multi_thread : bool; allow_re : bool; h_re : bool (* its handler is registered reentrant *) }.

(* program counter inside one emission *)
Inductive pc : Set := PSaveA | PSaveR | PReadA | PReadR | PClearA | PLoop | PRestoreA | PRestoreR.

Record thread : Set := {
  todo : nat;           (* emissions still to start after the current one *)
  cur : option pc;      (* None: between emissions *)
  origA : bool; origR : bool; is_re : bool; re_only : bool }.

Record sw : Set := { sA : bool; sR : bool }.

Record state : Set := {
  switches : list sw;               (* index 0 only when shared, else one per thread *)
  threads : list thread;
  dlog : list (nat * nat) }.        (* deliveries: (thread index, tracer index) *)

Definition sw0 : sw := {| sA := true; sR := false |}.
Definition slot (shared : bool) (tid : nat) : nat := if shared then 0 else tid.
Definition get_sw (shared : bool) (s : state) (tid : nat) : sw := nth (slot shared tid) (switches s) sw0.
Fixpoint set_nth {A} (l : list A) (i : nat) (x : A) : list A :=
  match l, i with
  | [], _ => []
  | _ :: l', 0 => x :: l'
  | y :: l', S i' => y :: set_nth l' i' x
  end.
Definition put_sw (shared : bool) (s : state) (tid : nat) (w : sw) : list sw := set_nth (switches s) (slot shared tid) w.

(* which tracers an emission of thread tid delivers to (observing handlers; the loop is one step) *)
Fixpoint deliveries (tid : nat) (is_re re_only curR : bool) (ti : nat) (ts : list tracer_cfg) : list (nat * nat) :=
  match ts with
  | [] => []
  | t :: ts' =>
      let skip := (negb (tid =? 0) && negb (multi_thread t)) || (is_re && negb (allow_re t) && negb curR)
                  || (re_only && negb (h_re t)) in
      (if skip then [] else [(tid, ti)]) ++ deliveries tid is_re re_only curR (S ti) ts'
  end.

Definition step (shared : bool) (ts : list tracer_cfg) (s : state) (tid : nat) : state :=
  match nth_error (threads s) tid with
  | None => s
  | Some th =>
      let w := get_sw shared s tid in
      let upd th' sws lg := {| switches := sws; threads := set_nth (threads s) tid th'; dlog := lg |} in
      let with_pc p := {| todo := todo th; cur := Some p; origA := origA th; origR := origR th; is_re := is_re th; re_only := re_only th |} in
      match cur th with
      | None =>
          match todo th with
          | 0 => s
          | S k => upd {| todo := k; cur := Some PSaveA; origA := origA th; origR := origR th; is_re := is_re th; re_only := re_only th |}
                       (switches s) (dlog s)
          end
      | Some PSaveA => upd {| todo := todo th; cur := Some PSaveR; origA := sA w; origR := origR th; is_re := is_re th; re_only := re_only th |} (switches s) (dlog s)
      | Some PSaveR => upd {| todo := todo th; cur := Some PReadA; origA := origA th; origR := sR w; is_re := is_re th; re_only := re_only th |} (switches s) (dlog s)
      | Some PReadA => upd {| todo := todo th; cur := Some PReadR; origA := origA th; origR := origR th; is_re := negb (sA w); re_only := re_only th |} (switches s) (dlog s)
      | Some PReadR => upd {| todo := todo th; cur := Some PClearA; origA := origA th; origR := origR th; is_re := is_re th; re_only := is_re th && negb (sR w) |} (switches s) (dlog s)
      | Some PClearA => upd (with_pc PLoop) (put_sw shared s tid {| sA := false; sR := sR w |}) (dlog s)
      | Some PLoop => upd (with_pc PRestoreA) (switches s) (dlog s ++ deliveries tid (is_re th) (re_only th) (sR w) 0 ts)
      | Some PRestoreA => upd (with_pc PRestoreR) (put_sw shared s tid {| sA := origA th; sR := sR w |}) (dlog s)
      | Some PRestoreR => upd {| todo := todo th; cur := None; origA := origA th; origR := origR th; is_re := is_re th; re_only := re_only th |}
                              (put_sw shared s tid {| sA := sA w; sR := origR th |}) (dlog s)
      end
  end.

Definition run_sched (shared : bool) (ts : list tracer_cfg) (s : state) (sched : list nat) : state :=
  fold_left (step shared ts) sched s.

Definition th0 (n : nat) : thread := {| todo := n; cur := None; origA := true; origR := false; is_re := false; re_only := false |}.
Definition init (ems : list nat) : state :=
  {| switches := map (fun _ => sw0) ems; threads := map th0 ems; dlog := [] |}.

(* what the main thread observes *)
Definition main_view (shared : bool) (s : state) : list (nat * nat) * sw * option thread :=
  (filter (fun e => fst e =? 0) (dlog s), get_sw shared s 0, nth_error (threads s) 0).
