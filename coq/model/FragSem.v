(* A SEMANTICS for the fragment of model/RwFrag.v (DESIGN 3, "FragSem").
   - typed terms for source programs of the fragment and for what the rewriter makes of them, every source node carrying its
     traversal index (`of_module` reads them off the exported tree; `tt_module` prints a term back as a tree);
   - `ie` / `is_` / `instr_module`: the rewriter on typed terms (compared with the REAL rewriter's output tree, ./check C01);
   - `eval_e` / `exec_s` / `exec_module`: evaluation of (instrumented) terms under OBSERVING handlers, with the log of emissions;
   - `ref_e` / `ref_s` / `ref_module`: the reference: plain evaluation of the source with the stream of all events of the fragment
     written out construct by construct (this is C02's event table restricted to the fragment).
   The primitive operations (binary / comparison / unary operators, truth, constants) are parameters of the semantics; `Py` is a
   Python-like instance on ints, bools, None used for the correspondence with CPython.  No proofs in this file. *)
From Coq Require Import List ZArith NArith Bool.
Import ListNotations.
From PyccoloV Require Import gen.PyAst gen.Ids gen.Events model.Tree model.Erase model.RwFrag.
Local Open Scope N_scope.

Inductive texpr : Set :=
  | XName (n x : N)
  | XConst (n : N) (c : scalar)
  | XBin (n : N) (l : texpr) (op : N) (r : texpr)
  | XCmp (n : N) (l : texpr) (ops : list N) (comps : list texpr)
  | XUn (n : N) (op : N) (e : texpr)
  | XBool (n : N) (op : N) (es : list texpr)
  | XIfE (n : N) (t a b : texpr)
  (* what the rewriter adds *)
  | XEmit (e : event) (n : N) (v : texpr)                          (* EMIT(e, n, ret=v, guards=None) *)
  | XDefBin (n : N) (op : N) (l r : texpr)                         (* EMIT(before_binop, n, ret=TLAM(lambda x, y: x op y))(l, r) *)
  | XDefCmp (n : N) (ops : list N) (l c0 : texpr) (crest : list texpr)   (* ... lambda X, Y: X op0 Y op1 c1 ... *)
  | XDefRhs (n : N) (v : texpr)                                    (* EMIT(before_assign_rhs, n, ret=TLAM(lambda: v))() *)
  | XLoadSaved (n : N)                                             (* EMIT(_load_saved_expr_stmt_ret, n) *)
  | XThunkCall.                                                    (* EXEC_SAVED_THUNK() *)

Inductive tstmt : Set :=
  | SExpr (n : N) (v : texpr)
  | SAssign (n : N) (targets : list N) (v : texpr)
  | SPass (n : N)
  | SIf (n : N) (t : texpr) (b o : list tstmt)
  | SEmit (e : event) (n : N) (ret : option texpr)                 (* the statement EMIT(e, n[, ret=v]) *)
  | SBefore (n : N) (thunk_branch own : list tstmt).               (* if EMIT(before_stmt, n): thunk_branch else: own *)

Definition xid (t : texpr) : N :=
  match t with
  | XName n _ | XConst n _ | XBin n _ _ _ | XCmp n _ _ _ | XUn n _ _ | XBool n _ _ | XIfE n _ _ _ => n
  | XEmit _ n _ | XDefBin n _ _ _ | XDefCmp n _ _ _ _ | XDefRhs n _ | XLoadSaved n => n
  | XThunkCall => 0
  end.

(* ---------------------------------------------------------------- reading a source tree *)
Definition op_of (t : tree) : option N := match t with T k [] [] => Some k | _ => None end.
Fixpoint ops_of (l : list tree) : option (list N) :=
  match l with [] => Some [] | t :: l' => match op_of t, ops_of l' with Some k, Some ks => Some (k :: ks) | _, _ => None end end.

Fixpoint of_e (t : tree) (n : N) {struct t} : option texpr :=
  match t with
  | NoneNode => None
  | T k sc fs =>
      let goes := fix gol (u : list tree) (j : N) {struct u} : option (list texpr) :=
                    match u with
                    | [] => Some []
                    | x :: u' => match of_e x j, gol u' (j + nsize x) with Some a, Some b => Some (a :: b) | _, _ => None end
                    end in
      if N.eqb k kName then
        match sc, fs with [SId x], [[T kc [] []]] => if N.eqb kc kLoad then Some (XName n x) else None | _, _ => None end
      else if N.eqb k kConstant then
        match sc, fs with [c; SNone], [] => Some (XConst n c) | _, _ => None end
      else if N.eqb k kBinOp then
        match sc, fs with
        | [], [[l]; [op]; [r]] =>
            match of_e l (n + 1), op_of op, of_e r (n + 1 + nsize l + nsize op) with
            | Some l', Some o, Some r' => Some (XBin n l' o r') | _, _, _ => None end
        | _, _ => None
        end
      else if N.eqb k kCompare then
        match sc, fs with
        | [], [[l]; ops; comps] =>
            match of_e l (n + 1), ops_of ops, goes comps (n + 1 + nsize l + nsizes ops) with
            | Some l', Some os, Some cs => Some (XCmp n l' os cs) | _, _, _ => None end
        | _, _ => None
        end
      else if N.eqb k kUnaryOp then
        match sc, fs with
        | [], [[op]; [e]] => match op_of op, of_e e (n + 1 + nsize op) with Some o, Some e' => Some (XUn n o e') | _, _ => None end
        | _, _ => None
        end
      else if N.eqb k kBoolOp then
        match sc, fs with
        | [], [[op]; vs] => match op_of op, goes vs (n + 1 + nsize op) with Some o, Some es => Some (XBool n o es) | _, _ => None end
        | _, _ => None
        end
      else if N.eqb k kIfExp then
        match sc, fs with
        | [], [[c]; [a]; [b]] =>
            match of_e c (n + 1), of_e a (n + 1 + nsize c), of_e b (n + 1 + nsize c + nsize a) with
            | Some c', Some a', Some b' => Some (XIfE n c' a' b') | _, _, _ => None end
        | _, _ => None
        end
      else None
  end.

Definition target_of (t : tree) : option N :=
  match t with T k [SId x] [[T kc [] []]] => if N.eqb k kName && N.eqb kc kStore then Some x else None | _ => None end.
Fixpoint targets_of (l : list tree) : option (list N) :=
  match l with [] => Some [] | t :: l' => match target_of t, targets_of l' with Some x, Some xs => Some (x :: xs) | _, _ => None end end.

Fixpoint of_s (s : tree) (n : N) {struct s} : option tstmt :=
  match s with
  | NoneNode => None
  | T k sc fs =>
      let goss := fix gol (u : list tree) (j : N) {struct u} : option (list tstmt) :=
                    match u with
                    | [] => Some []
                    | x :: u' => match of_s x j, gol u' (j + nsize x) with Some a, Some b => Some (a :: b) | _, _ => None end
                    end in
      if N.eqb k kExpr then
        match sc, fs with [], [[v]] => match of_e v (n + 1) with Some v' => Some (SExpr n v') | None => None end | _, _ => None end
      else if N.eqb k kAssign then
        match sc, fs with
        | [SNone], [targets; [v]] =>
            match targets_of targets, of_e v (n + 1 + nsizes targets) with Some ts, Some v' => Some (SAssign n ts v') | _, _ => None end
        | _, _ => None
        end
      else if N.eqb k kPass then match sc, fs with [], [] => Some (SPass n) | _, _ => None end
      else if N.eqb k kIf then
        match sc, fs with
        | [], [[test]; b; o] =>
            let nb := n + 1 + nsize test in
            match of_e test (n + 1), goss b nb, goss o (nb + nsizes b) with
            | Some t', Some b', Some o' => Some (SIf n t' b' o') | _, _, _ => None end
        | _, _ => None
        end
      else None
  end.

Definition of_module (m : tree) : option (list tstmt) :=
  match m with
  | T k [] [body; []] =>
      if N.eqb k kModule then
        (fix gol (u : list tree) (j : N) {struct u} : option (list tstmt) :=
           match u with
           | [] => Some []
           | x :: u' => match of_s x j, gol u' (j + nsize x) with Some a, Some b => Some (a :: b) | _, _ => None end
           end) body 1
      else None
  | _ => None
  end.

(* ---------------------------------------------------------------- printing a term as a tree *)
Definition op_tree (k : N) : tree := T k [] [].
Definition nm_store (x : N) : tree := T kName [SId x] [[T kStore [] []]].

Fixpoint tt (t : texpr) : tree :=
  match t with
  | XName _ x => nm_load x
  | XConst _ c => T kConstant [c; SNone] []
  | XBin _ l op r => T kBinOp [] [[tt l]; [op_tree op]; [tt r]]
  | XCmp _ l ops comps => T kCompare [] [[tt l]; map op_tree ops; map tt comps]
  | XUn _ op e => T kUnaryOp [] [[op_tree op]; [tt e]]
  | XBool _ op es => T kBoolOp [] [[op_tree op]; map tt es]
  | XIfE _ c a b => T kIfExp [] [[tt c]; [tt a]; [tt b]]
  | XEmit e n v => emit_ret e n (tt v)
  | XDefBin n op l r =>
      emit_deferred E_before_binop n (tlam (args2 id_x id_y) (T kBinOp [] [[nm_load id_x]; [op_tree op]; [nm_load id_y]])) [tt l; tt r]
  | XDefCmp n ops l c0 crest =>
      emit_deferred E_before_compare n
        (tlam (args2 id_cmp_x id_cmp_y) (T kCompare [] [[nm_load id_cmp_x]; map op_tree ops; nm_load id_cmp_y :: map tt crest])) [tt l; tt c0]
  | XDefRhs n v => emit_deferred E_before_assign_rhs n (tlam no_args (tt v)) []
  | XLoadSaved n => emit_call E_priv_load_saved_expr_stmt_ret n []
  | XThunkCall => thunk_call
  end.

Fixpoint ts (s : tstmt) : tree :=
  match s with
  | SExpr _ v => T kExpr [] [[tt v]]
  | SAssign _ xs v => T kAssign [SNone] [map nm_store xs; [tt v]]
  | SPass _ => T kPass [] []
  | SIf _ t b o => T kIf [] [[tt t]; map ts b; map ts o]
  | SEmit e n None => stmt_emit e n []
  | SEmit e n (Some v) => stmt_emit e n [kw id_ret (tt v)]
  | SBefore n tb own => T kIf [] [[emit_call E_before_stmt n []]; map ts tb; map ts own]
  end.
Definition tt_module (body : list tstmt) : tree := T kModule [] [map ts body; []].

(* ---------------------------------------------------------------- the rewriter on terms *)
Section Instr.
Variable c : rcfg.
Definition wrap (e : event) (n : N) (t : texpr) : texpr := if sub c e then XEmit e n t else t.
Definition const_ev (sc : scalar) : option event := const_event [sc].

Fixpoint ie (t : texpr) : texpr :=
  match t with
  | XName n x => wrap E_load_name n t
  | XConst n sc => match const_ev sc with Some e => wrap e n t | None => t end
  | XBin n l op r =>
      let l' := wrap E_left_binop_arg (xid l) (ie l) in
      let r' := wrap E_right_binop_arg (xid r) (ie r) in
      wrap E_after_binop n (if sub c E_before_binop then XDefBin n op l' r' else XBin n l' op r')
  | XCmp n l ops comps =>
      let l' := wrap E_left_compare_arg (xid l) (ie l) in
      let comps' := map (fun x => wrap E_compare_arg (xid x) (ie x)) comps in
      wrap E_after_compare n
        (if sub c E_before_compare
         then match comps' with c0 :: crest => XDefCmp n ops l' c0 crest | [] => XCmp n l' ops comps' end
         else XCmp n l' ops comps')
  | XUn n op e => XUn n op (ie e)
  | XBool n op es => XBool n op (map ie es)
  | XIfE n t a b => XIfE n (ie t) (ie a) (ie b)
  | other => other
  end.

Definition main_and_after (wants_after is_module : bool) (n : N) (m : tstmt) (m_is_expr : bool) (m_value : texpr) : list tstmt :=
  if wants_after then
    if m_is_expr && is_module then [SEmit E_after_stmt n (Some m_value)] else [m; SEmit E_after_stmt n None]
  else [m].

Fixpoint is_ (is_module : bool) (s : tstmt) {struct s} : list tstmt :=
  let n := match s with SExpr n _ | SAssign n _ _ | SPass n | SIf n _ _ _ | SEmit _ n _ | SBefore n _ _ => n end in
  let main : tstmt :=
    match s with
    | SExpr n v => SExpr n (wrap E_after_expr_stmt n (ie v))
    | SAssign n xs v =>
        let v1 := ie v in
        let v2 := if sub c E_before_assign_rhs then XDefRhs (xid v) v1 else v1 in
        SAssign n xs (wrap E_after_assign_rhs (xid v) v2)
    | SIf n t b o => SIf n (wrap E_after_if_test n (ie t)) (flat_map (is_ false) b) (flat_map (is_ false) o)
    | other => other
    end in
  let wants_after := sub c E_after_stmt || (sub c E_after_module_stmt && is_module) in
  let own := main_and_after wants_after is_module n main (match s with SExpr _ _ => true | _ => false end)
               (match main with SExpr _ v => v | _ => XThunkCall end) in
  let expanded :=
    if sub c E_before_stmt
    then [SBefore n (main_and_after wants_after is_module n (SExpr 0 XThunkCall) true XThunkCall) own]
    else own in
  if is_module && sub c E_after_module_stmt
  then expanded ++ [SEmit E_after_module_stmt n (Some (XLoadSaved n))]
  else expanded.

Definition instr_module0 (body : list tstmt) : list tstmt :=
  (if sub c E_init_module then [SEmit E_init_module 0 None] else [])
  ++ flat_map (is_ true) body
  ++ (if sub c E_exit_module then [SEmit E_exit_module 0 None] else []).
End Instr.

(* a module docstring (a string constant standing as the first statement) stays as written and first: nothing is emitted for it or
   around it, init_module comes after it (RwFrag.mod_doc / mod_rest are the same split on trees) *)
Definition is_doc_t (s : tstmt) : bool := match s with SExpr _ (XConst _ (SStr _)) => true | _ => false end.
Definition tdoc (body : list tstmt) : list tstmt := match body with d :: _ => if is_doc_t d then [d] else [] | [] => [] end.
Definition trest (body : list tstmt) : list tstmt := match body with d :: rest => if is_doc_t d then rest else body | [] => [] end.
Definition instr_module (c : rcfg) (body : list tstmt) : list tstmt := tdoc body ++ instr_module0 c (trest body).

(* ---------------------------------------------------------------- values, results, logs *)
Inductive val : Set := VInt (z : Z) | VBool (b : bool) | VNone | VStr (s : N) | VFun (n : N) | VBuiltin (k : N) | VRange (a b : Z).
(* VFun n: the function defined by the `def` node n (model/FragFun.v); VBuiltin 0: the builtin `range`; VRange a b: range(a, b) (model/FragProg.v) *)
Inductive exc : Set := ENameError | ETypeError | EZeroDiv.
Inductive res (A : Set) : Set := Ok (a : A) | Err (e : exc).
Arguments Ok {A} a.
Arguments Err {A} e.
Definition entry : Set := (event * N * option val)%type.     (* None: the handler is given a callable (deferred events) *)
Definition env : Set := N -> option val.
Definition upd (r : env) (x : N) (v : val) : env := fun y => if N.eqb y x then Some v else r y.

Section Sem.
Variable binop : N -> val -> val -> res val.
Variable cmpop : N -> val -> val -> res bool.
Variable unop : N -> val -> res val.
Variable truth : val -> bool.
Variable cval : scalar -> val.
Variable is_and : N -> bool.

Definition emitted (e : event) (n : N) (r : res val) : list entry := match r with Ok v => [(e, n, Some v)] | Err _ => [] end.

(* evaluation of (instrumented) expressions under observing handlers: EMIT logs and hands back its ret *)
Fixpoint eval_e (t : texpr) (r : env) {struct t} : res val * list entry :=
  let chain := fix chain (vprev : val) (ops : list N) (comps : list texpr) {struct comps} : res val * list entry :=
                 match ops, comps with
                 | o :: ops', x :: comps' =>
                     match eval_e x r with
                     | (Ok vc, lc) =>
                         match cmpop o vprev vc with
                         | Ok true => match comps' with [] => (Ok (VBool true), lc) | _ => let '(q, lq) := chain vc ops' comps' in (q, lc ++ lq) end
                         | Ok false => (Ok (VBool false), lc)
                         | Err e => (Err e, lc)
                         end
                     | (Err e, lc) => (Err e, lc)
                     end
                 | _, _ => (Ok (VBool true), [])
                 end in
  match t with
  | XName _ x => (match r x with Some v => Ok v | None => Err ENameError end, [])
  | XConst _ sc => (Ok (cval sc), [])
  | XBin _ l op rr =>
      match eval_e l r with
      | (Ok vl, ll) => match eval_e rr r with
                       | (Ok vr, lr) => (binop op vl vr, ll ++ lr)
                       | (Err e, lr) => (Err e, ll ++ lr)
                       end
      | (Err e, ll) => (Err e, ll)
      end
  | XCmp _ l ops comps =>
      match eval_e l r with
      | (Ok vl, ll) => let '(q, lq) := chain vl ops comps in (q, ll ++ lq)
      | (Err e, ll) => (Err e, ll)
      end
  | XUn _ op e => match eval_e e r with (Ok v, l) => (unop op v, l) | (Err x, l) => (Err x, l) end
  | XBool _ op es =>
      (fix go (u : list texpr) {struct u} : res val * list entry :=
         match u with
         | [] => (Ok VNone, [])
         | [x] => eval_e x r
         | x :: u' =>
             match eval_e x r with
             | (Ok v, l) => if (if is_and op then negb (truth v) else truth v) then (Ok v, l) else let '(q, lq) := go u' in (q, l ++ lq)
             | (Err e, l) => (Err e, l)
             end
         end) es
  | XIfE _ c a b =>
      match eval_e c r with
      | (Ok vc, lc) => let '(q, lq) := if truth vc then eval_e a r else eval_e b r in (q, lc ++ lq)
      | (Err e, lc) => (Err e, lc)
      end
  | XEmit e n v => let '(q, l) := eval_e v r in (q, l ++ emitted e n q)
  | XDefBin n op l rr =>
      match eval_e l r with
      | (Ok vl, ll) => match eval_e rr r with
                       | (Ok vr, lr) => (binop op vl vr, (E_before_binop, n, None) :: ll ++ lr)
                       | (Err e, lr) => (Err e, (E_before_binop, n, None) :: ll ++ lr)
                       end
      | (Err e, ll) => (Err e, (E_before_binop, n, None) :: ll)
      end
  | XDefCmp n ops l c0 crest =>
      match eval_e l r with
      | (Ok vl, ll) =>
          match eval_e c0 r with
          | (Ok v0, l0) =>
              match ops with
              | o :: ops' =>
                  match cmpop o vl v0 with
                  | Ok true => match crest with
                               | [] => (Ok (VBool true), (E_before_compare, n, None) :: ll ++ l0)
                               | _ => let '(q, lq) := chain v0 ops' crest in (q, (E_before_compare, n, None) :: ll ++ l0 ++ lq)
                               end
                  | Ok false => (Ok (VBool false), (E_before_compare, n, None) :: ll ++ l0)
                  | Err e => (Err e, (E_before_compare, n, None) :: ll ++ l0)
                  end
              | [] => (Ok (VBool true), (E_before_compare, n, None) :: ll ++ l0)
              end
          | (Err e, l0) => (Err e, (E_before_compare, n, None) :: ll ++ l0)
          end
      | (Err e, ll) => (Err e, (E_before_compare, n, None) :: ll)
      end
  | XDefRhs n v => let '(q, l) := eval_e v r in (q, (E_before_assign_rhs, n, None) :: l)
  | XLoadSaved _ => (Err ETypeError, [])
  | XThunkCall => (Err ETypeError, [])
  end.

(* statements: environment, the value saved by the last after_stmt emission, log *)
Record sres : Set := { s_exc : option exc; s_env : env; s_saved : val; s_log : list entry }.

Fixpoint exec_s (s : tstmt) (r : env) (saved : val) {struct s} : sres :=
  let exec_l := fix exec_l (u : list tstmt) (r : env) (saved : val) {struct u} : sres :=
                  match u with
                  | [] => {| s_exc := None; s_env := r; s_saved := saved; s_log := [] |}
                  | x :: u' =>
                      let a := exec_s x r saved in
                      match s_exc a with
                      | Some _ => a
                      | None => let b := exec_l u' (s_env a) (s_saved a) in
                                {| s_exc := s_exc b; s_env := s_env b; s_saved := s_saved b; s_log := s_log a ++ s_log b |}
                      end
                  end in
  match s with
  | SExpr _ v => let '(q, l) := eval_e v r in
                 {| s_exc := match q with Ok _ => None | Err e => Some e end; s_env := r; s_saved := saved; s_log := l |}
  | SAssign _ xs v =>
      let '(q, l) := eval_e v r in
      match q with
      | Ok x => {| s_exc := None; s_env := fold_left (fun r' y => upd r' y x) xs r; s_saved := saved; s_log := l |}
      | Err e => {| s_exc := Some e; s_env := r; s_saved := saved; s_log := l |}
      end
  | SPass _ => {| s_exc := None; s_env := r; s_saved := saved; s_log := [] |}
  | SIf _ t b o =>
      let '(q, l) := eval_e t r in
      match q with
      | Ok vt => let a := exec_l (if truth vt then b else o) r saved in
                 {| s_exc := s_exc a; s_env := s_env a; s_saved := s_saved a; s_log := l ++ s_log a |}
      | Err e => {| s_exc := Some e; s_env := r; s_saved := saved; s_log := l |}
      end
  | SEmit e n None =>
      {| s_exc := None; s_env := r; s_saved := (if event_eqb e E_after_stmt then VNone else saved); s_log := [(e, n, Some VNone)] |}
  | SEmit e n (Some (XLoadSaved _)) =>
      {| s_exc := None; s_env := r; s_saved := VNone; s_log := [(e, n, Some saved)] |}
  | SEmit e n (Some v) =>
      let '(q, l) := eval_e v r in
      match q with
      | Ok x => {| s_exc := None; s_env := r; s_saved := (if event_eqb e E_after_stmt then x else saved); s_log := l ++ [(e, n, Some x)] |}
      | Err x => {| s_exc := Some x; s_env := r; s_saved := saved; s_log := l |}
      end
  | SBefore n _ own =>
      let a := exec_l own r saved in
      {| s_exc := s_exc a; s_env := s_env a; s_saved := s_saved a; s_log := (E_before_stmt, n, Some VNone) :: s_log a |}
  end.

Fixpoint exec_l (u : list tstmt) (r : env) (saved : val) {struct u} : sres :=
  match u with
  | [] => {| s_exc := None; s_env := r; s_saved := saved; s_log := [] |}
  | x :: u' =>
      let a := exec_s x r saved in
      match s_exc a with
      | Some _ => a
      | None => let b := exec_l u' (s_env a) (s_saved a) in
                {| s_exc := s_exc b; s_env := s_env b; s_saved := s_saved b; s_log := s_log a ++ s_log b |}
      end
  end.

(* ---------------------------------------------------------------- the reference: source semantics + the full event stream *)
Fixpoint ref_e (t : texpr) (r : env) {struct t} : res val * list entry :=
  let chain := fix chain (vprev : val) (ops : list N) (comps : list texpr) {struct comps} : res val * list entry :=
                 match ops, comps with
                 | o :: ops', x :: comps' =>
                     match ref_e x r with
                     | (Ok vc, lc) =>
                         let lc' := lc ++ [(E_compare_arg, xid x, Some vc)] in
                         match cmpop o vprev vc with
                         | Ok true => match comps' with [] => (Ok (VBool true), lc') | _ => let '(q, lq) := chain vc ops' comps' in (q, lc' ++ lq) end
                         | Ok false => (Ok (VBool false), lc')
                         | Err e => (Err e, lc')
                         end
                     | (Err e, lc) => (Err e, lc)
                     end
                 | _, _ => (Ok (VBool true), [])
                 end in
  match t with
  | XName n x => match r x with Some v => (Ok v, [(E_load_name, n, Some v)]) | None => (Err ENameError, []) end
  | XConst n sc => (Ok (cval sc), match const_ev sc with Some e => [(e, n, Some (cval sc))] | None => [] end)
  | XBin n l op rr =>
      match ref_e l r with
      | (Ok vl, ll) =>
          match ref_e rr r with
          | (Ok vr, lr) =>
              let q := binop op vl vr in
              (q, (E_before_binop, n, None) :: ll ++ [(E_left_binop_arg, xid l, Some vl)] ++ lr ++ [(E_right_binop_arg, xid rr, Some vr)] ++ emitted E_after_binop n q)
          | (Err e, lr) => (Err e, (E_before_binop, n, None) :: ll ++ [(E_left_binop_arg, xid l, Some vl)] ++ lr)
          end
      | (Err e, ll) => (Err e, (E_before_binop, n, None) :: ll)
      end
  | XCmp n l ops comps =>
      match ref_e l r with
      | (Ok vl, ll) => let '(q, lq) := chain vl ops comps in
                       (q, (E_before_compare, n, None) :: ll ++ [(E_left_compare_arg, xid l, Some vl)] ++ lq ++ emitted E_after_compare n q)
      | (Err e, ll) => (Err e, (E_before_compare, n, None) :: ll)
      end
  | XUn _ op e => match ref_e e r with (Ok v, l) => (unop op v, l) | (Err x, l) => (Err x, l) end
  | XBool _ op es =>
      (fix go (u : list texpr) {struct u} : res val * list entry :=
         match u with
         | [] => (Ok VNone, [])
         | [x] => ref_e x r
         | x :: u' =>
             match ref_e x r with
             | (Ok v, l) => if (if is_and op then negb (truth v) else truth v) then (Ok v, l) else let '(q, lq) := go u' in (q, l ++ lq)
             | (Err e, l) => (Err e, l)
             end
         end) es
  | XIfE _ c a b =>
      match ref_e c r with
      | (Ok vc, lc) => let '(q, lq) := if truth vc then ref_e a r else ref_e b r in (q, lc ++ lq)
      | (Err e, lc) => (Err e, lc)
      end
  | _ => (Err ETypeError, [])
  end.

Record rres : Set := { r_exc : option exc; r_env : env; r_log : list entry }.

Fixpoint ref_s (is_module : bool) (s : tstmt) (r : env) {struct s} : rres :=
  let ref_l := fix ref_l (u : list tstmt) (r : env) {struct u} : rres :=
                 match u with
                 | [] => {| r_exc := None; r_env := r; r_log := [] |}
                 | x :: u' =>
                     let a := ref_s false x r in
                     match r_exc a with
                     | Some _ => a
                     | None => let b := ref_l u' (r_env a) in {| r_exc := r_exc b; r_env := r_env b; r_log := r_log a ++ r_log b |}
                     end
                 end in
  let n := match s with SExpr n _ | SAssign n _ _ | SPass n | SIf n _ _ _ | SEmit _ n _ | SBefore n _ _ => n end in
  (* the statement proper: exception, environment, log, and the value an after-statement event of the module level carries *)
  let body : option exc * env * list entry * val :=
    match s with
    | SExpr _ v => let '(q, l) := ref_e v r in
                   (match q with Ok _ => None | Err e => Some e end, r, l ++ emitted E_after_expr_stmt n q, match q with Ok x => x | Err _ => VNone end)
    | SAssign _ xs v =>
        let '(q, l) := ref_e v r in
        (match q with Ok _ => None | Err e => Some e end,
         match q with Ok x => fold_left (fun r' y => upd r' y x) xs r | Err _ => r end,
         (E_before_assign_rhs, xid v, None) :: l ++ emitted E_after_assign_rhs (xid v) q, VNone)
    | SPass _ => (None, r, [], VNone)
    | SIf _ t b o =>
        let '(q, l) := ref_e t r in
        match q with
        | Ok vt => let a := ref_l (if truth vt then b else o) r in (r_exc a, r_env a, l ++ (E_after_if_test, n, Some vt) :: r_log a, VNone)
        | Err e => (Some e, r, l, VNone)
        end
    | _ => (Some ETypeError, r, [], VNone)
    end in
  let '(x, r', l, v) := body in
  let after_value := if is_module then v else VNone in
  {| r_exc := x; r_env := r';
     r_log := (E_before_stmt, n, Some VNone) :: l ++
              match x with
              | Some _ => []
              | None => (E_after_stmt, n, Some after_value) :: (if is_module then [(E_after_module_stmt, n, Some after_value)] else [])
              end |}.

Definition ref_l (is_module : bool) := fix ref_l (u : list tstmt) (r : env) {struct u} : rres :=
  match u with
  | [] => {| r_exc := None; r_env := r; r_log := [] |}
  | x :: u' =>
      let a := ref_s is_module x r in
      match r_exc a with
      | Some _ => a
      | None => let b := ref_l u' (r_env a) in {| r_exc := r_exc b; r_env := r_env b; r_log := r_log a ++ r_log b |}
      end
  end.

Definition ref_module0 (body : list tstmt) (r : env) : rres :=
  let a := ref_l true body r in
  {| r_exc := r_exc a; r_env := r_env a;
     r_log := (E_init_module, 0, Some VNone) :: r_log a ++ match r_exc a with None => [(E_exit_module, 0, Some VNone)] | Some _ => [] end |}.
(* the module docstring evaluates to a constant that is dropped: it contributes no event and no effect *)
Definition ref_module (body : list tstmt) (r : env) : rres := ref_module0 (trest body) r.
End Sem.

Definition filter_log (c : rcfg) (l : list entry) : list entry := filter (fun en => sub c (fst (fst en))) l.

(* ---------------------------------------------------------------- a Python-like instance (ints, bools, None; strings only compare) *)
Module Py.
Definition as_int (v : val) : option Z := match v with VInt z => Some z | VBool b => Some (if b then 1 else 0)%Z | _ => None end.
Definition both_bool (a b : val) : option (bool * bool) := match a, b with VBool x, VBool y => Some (x, y) | _, _ => None end.
Definition binop (op : N) (a b : val) : res val :=
  match as_int a, as_int b with
  | Some x, Some y =>
      if N.eqb op kAdd then Ok (VInt (x + y))
      else if N.eqb op kSub then Ok (VInt (x - y))
      else if N.eqb op kMult then Ok (VInt (x * y))
      else if N.eqb op kFloorDiv then (if Z.eqb y 0 then Err EZeroDiv else Ok (VInt (x / y)))
      else if N.eqb op kMod then (if Z.eqb y 0 then Err EZeroDiv else Ok (VInt (x mod y)))
      else if N.eqb op kBitAnd then match both_bool a b with Some (p, q) => Ok (VBool (p && q)) | None => Ok (VInt (Z.land x y)) end
      else if N.eqb op kBitOr then match both_bool a b with Some (p, q) => Ok (VBool (p || q)) | None => Ok (VInt (Z.lor x y)) end
      else Err ETypeError
  | _, _ => Err ETypeError
  end.
Definition val_eq (a b : val) : bool :=
  match as_int a, as_int b with
  | Some x, Some y => Z.eqb x y
  | _, _ => match a, b with VNone, VNone => true | VStr s, VStr t => N.eqb s t | VFun n, VFun m => N.eqb n m | VBuiltin n, VBuiltin m => N.eqb n m
                     | VRange a b, VRange c d => (Z.leb b a && Z.leb d c) || (Z.eqb a c && Z.eqb b d) | _, _ => false end
  end.
Definition cmpop (op : N) (a b : val) : res bool :=
  if N.eqb op kEq then Ok (val_eq a b)
  else if N.eqb op kNotEq then Ok (negb (val_eq a b))
  else match as_int a, as_int b with
       | Some x, Some y =>
           if N.eqb op kLt then Ok (Z.ltb x y) else if N.eqb op kLtE then Ok (Z.leb x y)
           else if N.eqb op kGt then Ok (Z.gtb x y) else if N.eqb op kGtE then Ok (Z.geb x y)
           else Err ETypeError
       | _, _ => Err ETypeError
       end.
Definition truth (v : val) : bool := match v with VInt z => negb (Z.eqb z 0) | VBool b => b | VNone => false | VStr _ => true | VFun _ => true | VBuiltin _ => true | VRange a b => Z.ltb a b end.
Definition unop (op : N) (a : val) : res val :=
  if N.eqb op kNot then Ok (VBool (negb (truth a)))
  else match as_int a with
       | Some x => if N.eqb op kUSub then Ok (VInt (- x)) else if N.eqb op kUAdd then Ok (VInt x) else Err ETypeError
       | None => Err ETypeError
       end.
Definition cval (sc : scalar) : val := match sc with SInt z => VInt z | SBool b => VBool b | SStr s => VStr s | _ => VNone end.
Definition is_and (op : N) : bool := N.eqb op kAnd.
End Py.
