(* System-trace composition over HISTORIES (C09): user code calls sys.settrace(A) / sys.settrace(B) / sys.settrace(None) while the
   program runs - inside or outside a tracing context of a tracer with system-trace handlers.
   plain machine   : CPython 3.12 (trace_trampoline): 'call' goes to the thread's global trace function, every other event to the
                     frame's f_trace, and NOTHING is called while the global trace function is None;
   pyccolo machine : the global trace function is always pyccolo's composed tracer; patched sys.settrace records the user's function in
                     `existing_tracer` and re-composes; local functions handed to the interpreter are composed tracers that call the
                     handlers and then the third party's local function.
   checks_uninstall : _call_existing_tracer skips the third-party function while existing_tracer is None          (from tracer.py)
   wraps_foreign    : frames of files the tracer does not accept get a composed local function too               (from tracer.py)
   rebinds_local    : a third party's local function that returns ANOTHER local function is followed               (from tracer.py)
   No proofs in this file. *)
From Coq Require Import List NArith Bool Arith.
Import ListNotations.

Inductive sevt : Set := SCall | SLine | SRet | SExc.
Inductive tag : Set :=
  | TFrame (accepted : bool) (name : N)        (* accepted: the tracer's file filter passes *)
  | TLine | TExc
  | TSet (g : option nat).                     (* user code: sys.settrace(third party g) / sys.settrace(None) *)
Inductive node : Set := Nd (t : tag) (cs : list node).

Record third : Set := { tp_accepts : N -> bool; tp_self : bool;
                       tp_switch : bool }.     (* its local function hands over to a second local function at its first event *)
Inductive tpf : Set := FGlob (i : nat) | FLoc (i : nat) | FLoc2 (i : nat).   (* the global / local / second local function of third party i *)
Inductive who : Set := WH | WG (i : nat) | WL (i : nat) | WL2 (i : nat).
Definition logent : Set := (who * sevt * N)%type.

Section Hist.
Variable tps : nat -> third.
Variable sub : sevt -> bool.
Variables checks_uninstall wraps_foreign : bool.
Variable rebinds_local : bool.       (* the frame's composed tracer follows when the third party's local function returns another one *)

(* calling a third-party function: what it hands back, what it logs *)
Definition call_tp (f : tpf) (e : sevt) (name : N) : option tpf * list logent :=
  match f with
  | FGlob i =>
      match e with
      | SCall => ((if tp_accepts (tps i) name then Some (if tp_self (tps i) then FGlob i else FLoc i) else None), [(WG i, e, name)])
      | _ => (Some (FGlob i), [(WG i, e, name)])
      end
  | FLoc i => (Some (if tp_switch (tps i) then FLoc2 i else FLoc i), [(WL i, e, name)])
  | FLoc2 i => (Some (FLoc2 i), [(WL2 i, e, name)])
  end.
Definition keep (old new : option tpf) : option tpf := match new with Some _ => new | None => old end.

(* ---- plain CPython: state = the global trace function (a third party's, or None) *)
Definition plain_items (rec : option nat -> node -> option nat * list logent) (name : N) :=
  fix go (its : list node) (g : option nat) (ft : option tpf) {struct its} : option nat * option tpf * list logent :=
    match its with
    | [] => (g, ft, [])
    | Nd (TSet x) _ :: its' => go its' x ft
    | Nd (TFrame _ _) _ as f :: its' =>
        let '(g1, l) := rec g f in
        let '(g2, ft2, l') := go its' g1 ft in (g2, ft2, l ++ l')
    | Nd t _ :: its' =>
        let e := match t with TExc => SExc | _ => SLine end in
        match g, ft with
        | Some _, Some f => let '(r, l) := call_tp f e name in
                            let '(g2, ft2, l') := go its' g (keep ft r) in (g2, ft2, l ++ l')
        | _, _ => go its' g ft
        end
    end.
Fixpoint plain (g : option nat) (n : node) {struct n} : option nat * list logent :=
  match n with
  | Nd (TFrame acc name) items =>
      let '(ft0, l0) := match g with Some i => call_tp (FGlob i) SCall name | None => (None, []) end in
      let '(g1, ft1, l1) := plain_items plain name items g ft0 in
      let l2 := match g1, ft1 with Some _, Some f => snd (call_tp f SRet name) | _, _ => [] end in
      (g1, l0 ++ l1 ++ l2)
  | _ => (g, [])
  end.

(* ---- under pyccolo: state = existing_tracer (what user code last installed); local functions are composed tracers *)
Inductive pyf : Set :=
  | PNone
  | PComp (l : option tpf)       (* _make_composed_tracer(l) *)
  | PRaw (f : tpf).              (* the third party's local function itself (only when wraps_foreign is false) *)

(* _call_existing_tracer for a local function l *)
Definition call_existing (ex : option nat) (l : option tpf) (e : sevt) (name : N) : option tpf * list logent :=
  match l with
  | None => (None, [])
  | Some f => if checks_uninstall && match ex with None => true | Some _ => false end then (None, []) else call_tp f e name
  end.

Definition py_event (ex : option nat) (acc : bool) (name : N) (ft : pyf) (e : sevt) : pyf * list logent :=
  match ft with
  | PNone => (PNone, [])
  | PComp l =>
      let mylog := if acc && sub e then [(WH, e, name)] else [] in
      let '(r, lg) := call_existing ex l e name in
      (PComp (if rebinds_local then keep l r else l), mylog ++ lg)   (* a non-call event: the composed tracer keeps itself as the local function *)
  | PRaw f => let '(r, lg) := call_tp f e name in (match r with Some f' => PRaw f' | None => PRaw f end, lg)   (* the interpreter calls it directly *)
  end.

Definition py_items (rec : option nat -> node -> option nat * list logent) (acc : bool) (name : N) :=
  fix go (its : list node) (ex : option nat) (ft : pyf) {struct its} : option nat * pyf * list logent :=
    match its with
    | [] => (ex, ft, [])
    | Nd (TSet x) _ :: its' => go its' x ft
    | Nd (TFrame _ _) _ as f :: its' =>
        let '(ex1, l) := rec ex f in
        let '(ex2, ft2, l') := go its' ex1 ft in (ex2, ft2, l ++ l')
    | Nd t _ :: its' =>
        let e := match t with TExc => SExc | _ => SLine end in
        let '(ft1, l) := py_event ex acc name ft e in
        let '(ex2, ft2, l') := go its' ex ft1 in (ex2, ft2, l ++ l')
    end.
Fixpoint pyc (ex : option nat) (n : node) {struct n} : option nat * list logent :=
  match n with
  | Nd (TFrame acc name) items =>
      (* the global composed tracer: handlers, then the existing global function *)
      let mylog := if acc && sub SCall then [(WH, SCall, name)] else [] in
      let '(r, lg) := match ex with Some i => call_tp (FGlob i) SCall name | None => (None, []) end in
      let ft0 := if acc then PComp r
                 else match r with None => PNone | Some f => if wraps_foreign then PComp (Some f) else PRaw f end in
      let '(ex1, ft1, l1) := py_items pyc acc name items ex ft0 in
      let l2 := snd (py_event ex1 acc name ft1 SRet) in
      (ex1, mylog ++ lg ++ l1 ++ l2)
  | _ => (ex, [])
  end.

(* ---- what a plain recorder that follows the accepted files sees *)
Definition events_items (rec : node -> list (sevt * N)) (acc : bool) (name : N) :=
  fix go (its : list node) {struct its} : list (sevt * N) :=
    match its with
    | [] => []
    | Nd (TSet _) _ :: its' => go its'
    | Nd (TFrame _ _) _ as f :: its' => rec f ++ go its'
    | Nd TExc _ :: its' => (if acc then [(SExc, name)] else []) ++ go its'
    | Nd _ _ :: its' => (if acc then [(SLine, name)] else []) ++ go its'
    end.
Fixpoint events (n : node) {struct n} : list (sevt * N) :=
  match n with
  | Nd (TFrame acc name) items =>
      (if acc then [(SCall, name)] else []) ++ events_items events acc name items ++ (if acc then [(SRet, name)] else [])
  | _ => []
  end.

Definition is_h (w : who) : bool := match w with WH => true | _ => false end.
Definition handler_log (l : list logent) : list (sevt * N) := map (fun e => (snd (fst e), snd e)) (filter (fun e => is_h (fst (fst e))) l).
Definition third_log (l : list logent) : list logent := filter (fun e => negb (is_h (fst (fst e)))) l.
End Hist.
