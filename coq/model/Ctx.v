(* Context machine (C06, C07): tracer.py tracing_non_context / _make_tracing_context_cleanup_callback /
   _enable_tracing / _disable_tracing / _patch_sys_settrace_non_context, import_hooks.patch_meta_path_non_context
   (as a counter), over _TRACER_STACK, the per-tracer flags, the builtins names and sys.settrace.
   Histories are trees, so well-nestedness holds by construction; an exception is the IRaise item and every context
   exit runs in `finally`.  No proofs in this file. *)
From Coq Require Import List NArith Bool Arith.
Import ListNotations.

Inductive tracefn : Set := TfNone | TfUser (n : N) | TfComposed (t : nat) (ex : tracefn).
Fixpoint tracefn_eqb (a b : tracefn) : bool :=
  match a, b with
  | TfNone, TfNone => true
  | TfUser x, TfUser y => N.eqb x y
  | TfComposed t x, TfComposed u y => Nat.eqb t u && tracefn_eqb x y
  | _, _ => false
  end.

Record tcfg : Set := { has_sys : bool; patch_meta : bool }.          (* static, per tracer class *)
Record tst : Set := { enabled : bool; hard : bool; existing : tracefn; sys_tracer : tracefn }.

Record cst : Set := {
  stack : list nat;                 (* _TRACER_STACK, outermost first *)
  ntr : nat;                        (* number of tracer instances *)
  tsts : nat -> tst;                (* per tracer instance *)
  emit_present : bool;              (* builtins._X5ix_PYCCOLO_EVT_EMIT is _emit_event *)
  guards_live : bool;               (* registered guard names are present in builtins *)
  te : option bool;                 (* builtins TRACING_ENABLED: absent / value *)
  fte : option bool;                (* builtins FUNCTION_TRACING_ENABLED *)
  thunk_owner : option nat;         (* whose exec_saved_thunk is builtins EXEC_SAVED_THUNK *)
  lam_owner : option nat;           (* TRACE_LAMBDA *)
  cur_trace : tracefn;              (* the interpreter's trace function (real sys.gettrace()) *)
  settrace_patches : list nat;      (* tracers whose patched sys.settrace/gettrace are installed, innermost first *)
  meta_finders : nat }.             (* pyccolo finders on sys.meta_path *)

Definition tst0 : tst := {| enabled := false; hard := false; existing := TfNone; sys_tracer := TfNone |}.
Definition get_t (s : cst) (t : nat) : tst := tsts s t.
Definition upd (f : nat -> tst) (t : nat) (x : tst) : nat -> tst := fun u => if Nat.eqb u t then x else f u.
Fixpoint set_nth {A} (l : list A) (i : nat) (x : A) : list A :=
  match l, i with
  | [], _ => []
  | _ :: l', 0 => x :: l'
  | y :: l', S i' => y :: set_nth l' i' x
  end.
Definition memb (t : nat) (l : list nat) : bool := existsb (Nat.eqb t) l.

Record cleanup : Set := {
  c_t : nat; c_push : bool; c_enable : bool; c_hard : bool; c_thunk : option nat;
  c_meta : bool; c_settrace : option (list nat) }.

Definition with_tsts (s : cst) (l : nat -> tst) : cst :=
  {| stack := stack s; ntr := ntr s; tsts := l; emit_present := emit_present s; guards_live := guards_live s; te := te s; fte := fte s;
     thunk_owner := thunk_owner s; lam_owner := lam_owner s; cur_trace := cur_trace s;
     settrace_patches := settrace_patches s; meta_finders := meta_finders s |}.

(* tracing_non_context(disabled) *)
Definition enter (cfg : nat -> tcfg) (t : nat) (disabled : bool) (s : cst) : cst * cleanup :=
  let c := cfg t in
  let x := get_t s t in
  let should_push := negb (memb t (stack s)) in
  let will_enable := negb disabled && negb (enabled x) in
  let do_meta := patch_meta c && Nat.eqb (meta_finders s) 0 in       (* no pyccolo finder installed yet (an outer tracer may have opted out) *)
  let do_settrace := has_sys c && will_enable in
  let x1 := {| enabled := enabled x; hard := disabled; existing := existing x; sys_tracer := sys_tracer x |} in
  let x2 := if will_enable then
              if has_sys c then {| enabled := true; hard := disabled; existing := cur_trace s;
                                   sys_tracer := TfComposed t (cur_trace s) |}
              else {| enabled := true; hard := disabled; existing := existing x; sys_tracer := sys_tracer x |}
            else x1 in
  let init_flag (f : option bool) := match f with None => Some false | _ => f end in
  ({| stack := if should_push then stack s ++ [t] else stack s;
      ntr := ntr s;
      tsts := upd (tsts s) t x2;
      emit_present := true;
      guards_live := if emit_present s then guards_live s else true;
      te := if will_enable then Some true else init_flag (te s);
      fte := if will_enable then Some true else init_flag (fte s);
      thunk_owner := Some t; lam_owner := Some t;
      cur_trace := if will_enable && has_sys c then TfComposed t (cur_trace s) else cur_trace s;
      settrace_patches := if do_settrace then t :: settrace_patches s else settrace_patches s;
      meta_finders := if do_meta then S (meta_finders s) else meta_finders s |},
   {| c_t := t; c_push := should_push; c_enable := will_enable; c_hard := hard x; c_thunk := thunk_owner s;
      c_meta := do_meta; c_settrace := if do_settrace then Some (settrace_patches s) else None |}).

Definition any_enabled_other (s : cst) (t : nat) (stk : list nat) : bool :=
  existsb (fun u => negb (Nat.eqb u t) && enabled (get_t s u)) stk.

(* the cleanup callbacks, in reverse order of registration *)
Definition exit_ctx (cfg : nat -> tcfg) (c : cleanup) (s : cst) : cst :=
  let t := c_t c in
  let cf := cfg t in
  let patches := match c_settrace c with Some saved => saved | None => settrace_patches s end in
  let metas := if c_meta c then pred (meta_finders s) else meta_finders s in
  let x := get_t s t in
  let stk := if c_push c then removelast (stack s) else stack s in
  let x' := {| enabled := if c_enable c then false else enabled x; hard := c_hard c;
               existing := existing x; sys_tracer := sys_tracer x |} in
  let cur := if c_enable c && has_sys cf && negb (tracefn_eqb (cur_trace s) TfNone) then existing x else cur_trace s in
  let fte1 := if c_enable c then Some (any_enabled_other s t stk) else fte s in
  let empty := match stk with [] => true | _ => false end in
  let te1 := if c_enable c && empty then Some false else te s in
  {| stack := stk;
     ntr := ntr s;
     tsts := upd (tsts s) t x';
     emit_present := if empty then false else emit_present s;
     guards_live := if empty then false else guards_live s;
     te := if empty then Some false else te1;                  (* after the repair: the flag stays, as False *)
     fte := fte1;
     thunk_owner := if empty then None else match c_thunk c with Some o => Some o | None => thunk_owner s end;
     lam_owner := if empty then None else lam_owner s;
     cur_trace := cur;
     settrace_patches := patches;
     meta_finders := metas |}.

(* ---- what instrumented code does when it runs in a given state *)
Inductive kind : Set := KTop | KFunc | KLam | KLoopInFunc
  | KSys.   (* pseudo-kind used only in logs: which system-trace handlers saw the 'call' events of the site just run *)
Inductive site_result : Set :=
  | SDelivered (who : list bool)      (* per tracer: handler invoked? *)
  | SPlain                            (* a guard test was False: the pristine copy ran *)
  | SNameErrorFallback                (* function body: a builtins flag is missing, fallback re-ran the pristine body *)
  | SNameError                        (* module-level / lambda: NameError propagates to the program *)
  | SFinders (n : nat).               (* pseudo-result used only in logs (kind KSys): pyccolo finders on sys.meta_path while the site ran *)
Definition fires (s : cst) (t : nat) : bool := memb t (stack s) && negb (hard (get_t s t)).
Definition run_site (s : cst) (k : kind) : site_result :=
  let who := map (fun t => fires s t) (seq 0 (ntr s)) in
  let emit := if emit_present s then SDelivered who else SNameError in
  match k with
  | KTop => emit
  | KFunc => match fte s with None => SNameErrorFallback | Some false => SPlain
             | Some true => if emit_present s then SDelivered who else SNameErrorFallback end
  | KLam => match te s with None => SNameError | Some false => SPlain | Some true => emit end
  | KLoopInFunc => match fte s with None => SNameErrorFallback | Some false => SPlain
                   | Some true => match te s with None => SNameErrorFallback | Some false => SPlain
                                  | Some true => if emit_present s then SDelivered who else SNameErrorFallback end end
  | KSys => SPlain
  end.

(* system-trace delivery: the interpreter calls cur_trace; a composed tracer runs its own handlers when it is
   enabled (and not hard-disabled: tracer._emit_event) and then the tracer it wraps *)
Fixpoint in_chain (t : nat) (f : tracefn) : bool :=
  match f with TfComposed u ex => Nat.eqb t u || in_chain t ex | _ => false end.
Definition sys_who (s : cst) : list bool :=
  map (fun t => in_chain t (cur_trace s) && enabled (tsts s t) && negb (hard (tsts s t))) (seq 0 (ntr s)).

(* ---- histories *)
Inductive item : Set :=
  | ICtx (t : nat) (disabled : bool) (body : list item)   (* with t.tracing_context(disabled=...): body *)
  | IExec (t : nat) (body : list item)                    (* t.exec(code): its own context with disabled = t's current hard flag *)
  | ISite (k : kind)                                      (* run a piece of instrumented code of that kind *)
  | IRaise                                                (* an exception is raised here (user code, handler, ...) *)
  | ITry (body : list item).                              (* try: body  except Exception: pass *)

Definition items_of (f : item -> cst -> bool * cst * list (kind * site_result)) :=
  fix go (l : list item) (s : cst) {struct l} : bool * cst * list (kind * site_result) :=
    match l with
    | [] => (false, s, [])
    | i :: l' => let '(r, s1, lg) := f i s in
                 if r then (true, s1, lg) else let '(r2, s2, lg2) := go l' s1 in (r2, s2, lg ++ lg2)
    end.

Fixpoint run_item (cfg : nat -> tcfg) (i : item) (s : cst) {struct i} : bool * cst * list (kind * site_result) :=
  match i with
  | ICtx t d body =>
      let '(s1, c) := enter cfg t d s in
      let '(r, s2, lg) := items_of (run_item cfg) body s1 in
      (r, exit_ctx cfg c s2, lg)
  | IExec t body =>
      let '(s1, c) := enter cfg t (hard (get_t s t)) s in
      let '(r, s2, lg) := items_of (run_item cfg) body s1 in
      (r, exit_ctx cfg c s2, lg)
  | ISite k => (false, s, [(k, run_site s k); (KSys, SDelivered (sys_who s)); (KSys, SFinders (meta_finders s))])
  | IRaise => (true, s, [])
  | ITry body => let '(r, s2, lg) := items_of (run_item cfg) body s in (false, s2, lg)
  end.
Definition run_items (cfg : nat -> tcfg) := items_of (run_item cfg).

(* ---- the property's reference: per tracer a stack of booleans (True = enabled context) *)
Definition spec := list (list bool).
Definition spec_fires (sp : spec) (t : nat) : bool := match nth t sp [] with [] => false | b :: _ => b end.
Definition spec_push (sp : spec) (t : nat) (b : bool) : spec := set_nth sp t (b :: nth t sp []).
Definition spec_items_of (f : item -> spec -> bool * list (kind * list bool)) :=
  fix go (l : list item) (sp : spec) {struct l} : bool * list (kind * list bool) :=
    match l with
    | [] => (false, [])
    | i :: l' => let '(r, lg) := f i sp in if r then (true, lg) else let '(r2, lg2) := go l' sp in (r2, lg ++ lg2)
    end.
Fixpoint spec_item (i : item) (sp : spec) {struct i} : bool * list (kind * list bool) :=
  match i with
  | ICtx t d body => spec_items_of spec_item body (spec_push sp t (negb d))
  | IExec t body => spec_items_of spec_item body (spec_push sp t (match nth t sp [] with [] => true | b :: _ => b end))
  | ISite k => (false, [(k, map (spec_fires sp) (seq 0 (length sp)))])
  | IRaise => (true, [])
  | ITry body => let '(r, lg) := spec_items_of spec_item body sp in (false, lg)
  end.
Definition spec_items := spec_items_of spec_item.

Definition init_cst (n : nat) (pre : tracefn) : cst :=
  {| stack := []; ntr := n; tsts := fun _ => tst0; emit_present := false; guards_live := false; te := None; fte := None;
     thunk_owner := None; lam_owner := None; cur_trace := pre; settrace_patches := []; meta_finders := 0 |}.
Definition init_spec (n : nat) : spec := repeat [] n.

(* delivered sets of the model's log, to compare with the reference *)
Definition delivered_of (n : nat) (r : site_result) : list bool :=
  match r with SDelivered who => who | _ => repeat false n end.
