(* Erasure of instrumentation shapes (DESIGN 3.4, L1): `erase t` removes every emit site and every guard / fallback
   scaffold that the rewriter adds, checking on the way that the pristine copies kept in guard-off and fallback branches
   erase to the same code as the instrumented branch.  It is bottom-up: erase (T k sc fs) = post k sc (erased children);
   it returns a LIST of trees because a statement may erase to zero or several statements; None = unrecognised shape
   (fail closed).  `norm` makes the deliberate source changes on a source tree (slices as calls of `slice`, a bare except as BaseException,
   declarations hoisted, a `pass` for a function body that has nothing else).  No proofs in this file. *)
From Coq Require Import List ZArith NArith Bool.
Import ListNotations.
From PyccoloV Require Import gen.PyAst gen.Ids gen.Events model.Tree.
Local Open Scope N_scope.

Definition name_is (x : N) (t : tree) : bool :=
  match t with T k (SId y :: _) _ => N.eqb k kName && N.eqb y x | _ => false end.
Definition ev_code (e : event) : N := event_base + event_idx e.

(* an emit call: Call(func=Name EMIT, args=[Constant evt; Constant nid; ...], keywords) *)
Definition emit_parts (t : tree) : option (N * scalar * list tree * list tree) :=
  match t with
  | T k [] [[f]; (T kc (SStr ev :: _) _ :: T kn (nid :: _) _ :: rest); kws] =>
      if N.eqb k kCall && name_is id_emit f && N.eqb kc kConstant && N.eqb kn kConstant then Some (ev, nid, rest, kws) else None
  | _ => None
  end.
Definition kw_value (x : N) (kws : list tree) : option tree :=
  match find (fun kw => match kw with T k [SId y] [[_]] => N.eqb k kkeyword && N.eqb y x | _ => false end) kws with
  | Some (T _ _ [[v]]) => Some v
  | _ => None
  end.
(* TLAM(Lambda(args, body)) *)
Definition tlam_parts (t : tree) : option (tree * tree) :=
  match t with
  | T k [] [[f]; [T kl [] [[args]; [body]]]; []] =>
      if N.eqb k kCall && name_is id_tlam f && N.eqb kl kLambda then Some (args, body) else None
  | _ => None
  end.
Definition is_subscript_before_event (ev : N) : bool :=
  N.eqb ev (ev_code E_before_subscript_load) || N.eqb ev (ev_code E_before_subscript_store) || N.eqb ev (ev_code E_before_subscript_del).
Definition is_body_bracket_event (ev : N) : bool :=
  N.eqb ev (ev_code E_before_function_body) || N.eqb ev (ev_code E_before_for_loop_body) || N.eqb ev (ev_code E_before_while_loop_body).
Definition lambda_params (args : tree) : option (list N) :=
  match args with
  | T k [] [[]; ps; []; []; []; []; []] =>
      if N.eqb k karguments
      then Some (flat_map (fun p => match p with T _ (SId x :: _) _ => [x] | _ => [0] end) ps)
      else None
  | _ => None
  end.

(* a guard test: Name TE/FTE, or BoolOp(And, [Name TE/FTE; ...]) *)
Definition is_guard_test (t : tree) : bool :=
  name_is id_te t || name_is id_fte t ||
  match t with
  | T k [] [[T ka _ _]; (v :: _)] => N.eqb k kBoolOp && N.eqb ka kAnd && (name_is id_te v || name_is id_fte v)
  | _ => false
  end.
Definition is_emit_of (e : event) (t : tree) : bool :=
  match emit_parts t with Some (ev, _, _, _) => N.eqb ev (ev_code e) | None => false end.

(* ---- the deliberate source changes *)
Definition is_decl (t : tree) : bool := match t with T k _ _ => N.eqb k kGlobal || N.eqb k kNonlocal | _ => false end.
(* a function body (or a nested block) left with nothing but a docstring and / or declarations is given a `pass` *)
Definition or_pass (l : list tree) : list tree := match l with [] => [T kPass [] []] | _ => l end.
Definition is_docstring (t : tree) : bool :=
  match t with T k [] [[T kc (SStr _ :: _) _]] => N.eqb k kExpr && N.eqb kc kConstant | _ => false end.
Definition hoist (body : list tree) : list tree :=
  match body with
  | d :: rest => if is_docstring d then d :: filter is_decl rest ++ or_pass (filter (fun s => negb (is_decl s)) rest)
                 else filter is_decl body ++ or_pass (filter (fun s => negb (is_decl s)) body)
  | [] => []
  end.
Definition hoist_loop (body : list tree) : list tree := filter is_decl body ++ filter (fun s => negb (is_decl s)) body.
(* all declarations of a function are hoisted to its top: the direct ones first, then those inside nested blocks, in source order
   (nested function and class definitions are scopes of their own); a block they leave empty gets a `pass` *)
Definition is_scope_kind (k : N) : bool := N.eqb k kFunctionDef || N.eqb k kAsyncFunctionDef || N.eqb k kClassDef.
Fixpoint deep_decls (t : tree) {struct t} : list tree :=
  match t with
  | NoneNode => []
  | T k sc fs =>
      if is_decl t then [t] else if is_scope_kind k then [] else
      (fix gof (l : list (list tree)) : list tree := match l with [] => [] | f :: l' =>
         (fix gol (u : list tree) : list tree := match u with [] => [] | x :: u' => deep_decls x ++ gol u' end) f ++ gof l' end) fs
  end.
Fixpoint deep_strip (t : tree) {struct t} : tree :=
  match t with
  | NoneNode => NoneNode
  | T k sc fs =>
      if is_scope_kind k then t else
      T k sc ((fix gof (l : list (list tree)) : list (list tree) := match l with [] => [] | f :: l' =>
                 (let f' := (fix gol (u : list tree) : list tree :=
                               match u with [] => [] | x :: u' => if is_decl x then gol u' else deep_strip x :: gol u' end) f in
                  if existsb is_decl f then or_pass f' else f') :: gof l' end) fs)
  end.
Definition hoist_fun (orig normalised : list tree) : list tree :=
  let direct (b : list tree) := filter is_decl b in
  let others (b : list tree) := filter (fun s => negb (is_decl s)) b in
  match orig, normalised with
  | d :: rest, d' :: rest' =>
      if is_docstring d then d' :: direct rest ++ flat_map deep_decls (others rest) ++ or_pass (map deep_strip (others rest'))
      else direct orig ++ flat_map deep_decls (others orig) ++ or_pass (map deep_strip (others normalised))
  | _, _ => normalised
  end.
Definition none_const : tree := T kConstant [SNone; SNone] [].
Definition load_ctx : tree := T kLoad [] [].
Definition norm_slice_post (t : tree) : tree :=        (* applied to an already normalised slice expression *)
  t.
Fixpoint norm (t : tree) {struct t} : tree :=
  match t with
  | NoneNode => NoneNode
  | T k sc fs =>
      let fs' := (fix gof (l : list (list tree)) : list (list tree) := match l with [] => [] | f :: l' =>
                    (fix gol (u : list tree) : list tree := match u with [] => [] | x :: u' => norm x :: gol u' end) f :: gof l' end) fs in
      if N.eqb k kSlice then
        match fs' with
        | [lo; up; st] =>
            T kCall [] [[T kName [SId id_slice] [[load_ctx]]];
                        (match lo with [x] => x | _ => none_const end) :: (match up with [x] => x | _ => none_const end) :: st; []]
        | _ => T k sc fs'
        end
      else if N.eqb k kExceptHandler then
        match fs' with
        | [[]; b] => T k sc [[T kName [SId id_BaseException] [[load_ctx]]]; b]
        | _ => T k sc fs'
        end
      else if N.eqb k kFunctionDef || N.eqb k kAsyncFunctionDef then
        match fs, fs' with
        | _ :: b0 :: _, a :: b :: rest => T k sc (a :: hoist_fun b0 b :: rest)
        | _, _ => T k sc fs'
        end
      else if N.eqb k kFor || N.eqb k kAsyncFor then
        match fs' with
        | a :: i :: b :: rest => T k sc (a :: i :: hoist_loop b :: rest)
        | _ => T k sc fs'
        end
      else if N.eqb k kWhile then
        match fs' with
        | a :: b :: rest => T k sc (a :: hoist_loop b :: rest)
        | _ => T k sc fs'
        end
      else T k sc fs'
  end.


(* root rewrite over already-erased children *)
Definition post (k : N) (sc : list scalar) (fs : list (list tree)) : option (list tree) :=
  let self := T k sc fs in
  if N.eqb k kCall then
    match emit_parts self with
    | Some (ev, nid, rest, kws) =>
        match kw_value id_ret kws with
        | Some r =>
            match tlam_parts r with
            | Some _ => Some [self]                                         (* deferred: handled at the application node *)
            | None => if is_subscript_before_event ev || is_body_bracket_event ev
                      then Some [self]                                      (* saved-slice plumbing: handled at the Subscript;
                                                                               before-body events: handled at the guard test / Expr *)
                      else Some [r]                                         (* direct-value emit: its value *)
            end
        | None => Some [self]                                               (* statement-level emit: parents decide *)
        end
    | None =>
        (* application of a deferred emit: EMIT(evt, id, ret=TLAM(lambda ps: body))(args) *)
        match fs with
        | [[f]; args; []] =>
            match emit_parts f with
            | Some (ev, nid, rest, kws) =>
                match kw_value id_ret kws with
                | Some r =>
                    match tlam_parts r with
                    | Some (largs, body) =>
                        match lambda_params largs, args with
                        | Some [], [] => Some [body]
                        | Some ps, _ =>
                            (* lambda x, y: x OP y   /   lambda x, y_0, ..: x OPS y_0 .. *)
                            match body with
                            | T kb [] [[l]; ops; comps] =>
                                if N.eqb kb kCompare then
                                  (* lambda X, Y: X op0 Y op1 c1 ... applied to (a, b): the operands of the first comparison
                                     are evaluated up front, the remaining comparators stay inside (a chain short-circuits);
                                     X, Y are reserved names, so they cannot occur in c1 ... *)
                                  match comps, ps, args with
                                  | c0 :: crest, [px; py], [a; b] =>
                                      if name_is id_cmp_x l && name_is id_cmp_y c0 && N.eqb px id_cmp_x && N.eqb py id_cmp_y
                                      then Some [T kCompare [] [[a]; ops; b :: crest]] else None
                                  | _, _, _ => None
                                  end
                                else if N.eqb kb kBinOp then
                                  match ops, comps, ps, args with
                                  | [op], [r2], [px; py], [a; b] =>
                                      if name_is id_x l && name_is id_y r2 && N.eqb px id_x && N.eqb py id_y then Some [T kBinOp [] [[a]; [op]; [b]]] else None
                                  | _, _, _, _ => None
                                  end
                                else None
                            | _ => None
                            end
                        | None, _ => None
                        end
                    | None => Some [self]
                    end
                | None => Some [self]
                end
            | None => Some [self]
            end
        | _ => Some [self]
        end
    end
  else if N.eqb k kIfExp then
    match fs with
    | [[test]; [b]; [o]] => if is_guard_test test then (if tree_eqb b (norm o) then Some [b] else None) else Some [self]
    | _ => Some [self]
    end
  else if N.eqb k kIf then
    match fs with
    | [[test]; b; o] =>
        if is_guard_test test then
          (if trees_eqb b (map norm o) then Some b
           else match o with
                | [] => (* a loop body of nothing but declarations (hoisted): the instrumented branch is `pass`, there is no pristine branch *)
                        if forallb (tree_eqb (T kPass [] [])) b then Some b else None
                | _ => None
                end)
        else if is_emit_of E_before_stmt test then
          match b with
          | [T ke [] [[T kc [] [[f]; []; []]]]] => if N.eqb ke kExpr && N.eqb kc kCall && name_is id_thunk f then Some o else None
          | _ => None
          end
        else Some [self]
    | _ => Some [self]
    end
  else if N.eqb k kTry then
    match fs with
    | [b; []; []; []] => Some b                                   (* try: B finally: <emit>  after the emit statement was erased *)
    | [b; [T kh [SId nm] [[ty]; hb]]; []; []] =>
        if N.eqb kh kExceptHandler && N.eqb nm id_name_error && name_is id_NameError ty then
          match hb with
          | _ :: pristine => if trees_eqb b (map norm pristine) then Some b else None
          | [] => None
          end
        else Some [self]
    | _ => Some [self]
    end
  else if N.eqb k kExpr then
    match fs with
    | [[v]] => match emit_parts v with
               | Some (ev, _, _, kws) =>
                   match kw_value id_ret kws with
                   | None => Some []
                   | Some r =>
                       (* before_function_body / before_*_loop_body as a statement (no guard test to carry it): ret=True *)
                       if is_body_bracket_event ev && tree_eqb r (T kConstant [SBool true; SNone] [])
                       then Some [] else Some [self]
                   end
               | None => Some [self]
               end
    | _ => Some [self]
    end
  else if N.eqb k kSubscript then
    match fs with
    | [[v]; [s]; ctx] =>
        match emit_parts v with
        | Some (ev, _, _, kws) =>
            if is_subscript_before_event ev then
              match kw_value id_ret kws, kw_value id_attr_or_subscript kws with
              | Some v0, Some s0 =>
                  if is_emit_of E_priv_load_saved_slice s then Some [T k sc [[v0]; [s0]; ctx]]
                  else if tree_eqb s s0 then None            (* the slice expression would be evaluated twice *)
                  else None
              | _, _ => None
              end
            else Some [self]
        | None => if is_emit_of E_priv_load_saved_slice s then None else Some [self]
        end
    | _ => Some [self]
    end
  else Some [self].

Fixpoint erase (t : tree) {struct t} : option (list tree) :=
  match t with
  | NoneNode => Some [NoneNode]
  | T k sc fs =>
      match (fix gof (l : list (list tree)) {struct l} : option (list (list tree)) :=
               match l with
               | [] => Some []
               | f :: l' =>
                   match (fix gol (u : list tree) {struct u} : option (list tree) :=
                            match u with
                            | [] => Some []
                            | x :: u' => match erase x, gol u' with Some a, Some b => Some (a ++ b) | _, _ => None end
                            end) f, gof l' with
                   | Some a, Some b => Some (a :: b)
                   | _, _ => None
                   end
               end) fs with
      | Some fs' => post k sc fs'
      | None => None
      end
  end.

(* the emit sites of a tree: (event code, node id constant), in traversal order *)
Fixpoint sites (t : tree) {struct t} : list (N * scalar) :=
  match t with
  | NoneNode => []
  | T k sc fs =>
      (match emit_parts t with Some (ev, nid, _, _) => [(ev, nid)] | None => [] end)
      ++ (fix gof (l : list (list tree)) : list (N * scalar) := match l with [] => [] | f :: l' =>
            (fix gol (u : list tree) : list (N * scalar) := match u with [] => [] | x :: u' => sites x ++ gol u' end) f ++ gof l' end) fs
  end.

Definition check_erase (src out : tree) : bool :=
  match erase out with Some [t] => tree_eqb t (norm src) | _ => false end.

(* ---- docstring positions.  The erasure replaces `EMIT(evt, id, ret=e)` by `e` wherever it stands; Python reads the FIRST statement of a
   function / class / module body as the docstring only when it is, syntactically, a string constant standing as a statement.  A wrapped
   string in that position erases to a docstring although the rewritten code has none (and an emit statement put before a docstring moves
   it out of its position).  `check_docs out` accepts the rewriter's output only when, for every function / class / module body in it,
   a docstring at the head of the ERASED body is the head of the body AS WRITTEN (not compositional: no law of EraseSound.v sees it). *)
Definition is_docstring_strict (t : tree) : bool :=
  match t with T k [] [[T kc (SStr _ :: _) []]] => N.eqb k kExpr && N.eqb kc kConstant | _ => false end.
Definition scope_body (k : N) (fs : list (list tree)) : option (list tree) :=
  if N.eqb k kFunctionDef || N.eqb k kAsyncFunctionDef then nth_error fs 1
  else if N.eqb k kClassDef then nth_error fs 2
  else if N.eqb k kModule then nth_error fs 0
  else None.
Definition erase_stmts (l : list tree) : option (list tree) :=
  (fix gol (u : list tree) {struct u} : option (list tree) :=
     match u with
     | [] => Some []
     | x :: u' => match erase x, gol u' with Some a, Some b => Some (a ++ b) | _, _ => None end
     end) l.
Definition doc_head_ok (body : list tree) : bool :=
  match erase_stmts body with
  | Some (d' :: _) => if is_docstring_strict d' then match body with d :: _ => tree_eqb d d' | [] => false end else true
  | _ => true
  end.
Fixpoint check_docs (t : tree) {struct t} : bool :=
  match t with
  | NoneNode => true
  | T k sc fs =>
      (fix gof (l : list (list tree)) : bool := match l with [] => true | f :: l' =>
         (fix gol (u : list tree) : bool := match u with [] => true | x :: u' => check_docs x && gol u' end) f && gof l' end) fs
      && match scope_body k fs with Some body => doc_head_ok body | None => true end
  end.

