(* Import hooks (import_hooks.py), reduced to their decision logic.
   Part 1 (C12): which loader a module gets and which tracers its source is rewritten for.
   Part 2 (C13): the bytecode / node-table cache of ONE module over a history of processes: cache file naming by the
   configuration signature, importlib's validate-or-recompile-and-write algorithm (SourceLoader.get_code, modelled), and
   TraceLoader.exec_module's handling of the pickled node table.
   Files, class names, configuration digests are numbers.  No proofs in this file. *)
From Coq Require Import List NArith Bool Arith.
Import ListNotations.
Local Open Scope N_scope.

(* ------------------------------------------------------------------ Part 1: finder and loader decisions *)
Record tracer : Set := {
  t_id : N;
  t_accepts : N -> bool;          (* _should_instrument_file_impl(tracer, file) *)
  t_import_events : N -> bool;    (* _file_passes_filter_impl(before_import | after_import, file): True unless the class overrides it *)
  t_enabled : bool }.             (* _is_tracing_enabled *)

(* TraceFinder.find_spec: the tracers handed to the TraceLoader; no loader of ours when the list is empty, when the spec's
   loader is not a SourceFileLoader, or when the import runs on another thread than the one that installed the finder *)
Definition finder_tracers (stack : list tracer) (f : N) : list tracer :=
  filter (fun t => t_accepts t f || t_import_events t f) stack.
Definition wraps (stack : list tracer) (f : N) (source_loader same_thread : bool) : bool :=
  same_thread && source_loader && negb (match finder_tracers stack f with [] => true | _ => false end).
(* TraceLoader.get_tracers_for_path / source_to_code *)
Definition loader_tracers (ts : list tracer) (f : N) : list tracer := filter (fun t => t_accepts t f) ts.
Inductive compiled : Set := Stock | Rewritten (for_ids : list N).
Definition compile_of (stack : list tracer) (f : N) (source_loader same_thread : bool) : compiled :=
  if wraps stack f source_loader same_thread
  then match loader_tracers (finder_tracers stack f) f with [] => Stock | ts => Rewritten (map t_id ts) end
  else Stock.
(* a loader can outlive the moment it was handed out (importlib.util.LazyLoader; find_spec now, exec_module later): it holds the
   finder's tracers, and only those still on the stack when it LOADS take part (TraceLoader._tracers) *)
Definition live (held load_stack : list tracer) : list tracer :=
  filter (fun t => existsb (N.eqb (t_id t)) (map t_id load_stack)) held.
Definition compile_later (found_stack load_stack : list tracer) (f : N) (source_loader same_thread : bool) : compiled :=
  if wraps found_stack f source_loader same_thread
  then match loader_tracers (live (finder_tracers found_stack f) load_stack) f with [] => Stock | ts => Rewritten (map t_id ts) end
  else Stock.
(* TraceLoader.exec_module: tracers switched off while the module body runs *)
Definition disabled_during_exec (stack : list tracer) (f : N) : list N :=
  map t_id (filter (fun t => negb (t_accepts t f) && t_enabled t) (finder_tracers stack f)).
(* emit_event._file_passes_filter_impl for an ordinary event raised from file f *)
Definition receives (t : tracer) (f : N) : bool := t_accepts t f.

(* ------------------------------------------------------------------ Part 2: the cache of one module across processes *)
(* what identifies an accepting tracer's instrumentation: class name, digest of (subscribed events, guard setting) - these
   two are in the cache signature - and everything else that shapes the rewrite or the table (static node conditions,
   whether it keeps a node table) *)
Definition tinfo : Set := (N * N * (N * bool))%type.
Definition sig_part (t : tinfo) : N * N := fst t.
Definition wants_table (t : tinfo) : bool := snd (snd t).
Definition who : Set := list tinfo.                   (* the accepting tracers of the loader, stack order; [] = stock compile *)
Definition name : Set := list (N * N).                (* the cache file name: [] = the ordinary <mod>.cpython-XY.pyc *)
Definition name_of (w : who) : name := map sig_part w.
Definition book (w : who) : bool := existsb wants_table w.
Definition name_eq_dec : forall a b : name, {a = b} + {a <> b}.
Proof. decide equality. decide equality; apply N.eq_dec. Defined.

Record code : Set := { c_who : who; c_ver : N; c_inst : N }.     (* compiled for whom, from which source version, by which compilation *)
Record fs : Set := {
  ver : N;                          (* current source version (mtime) *)
  next_inst : N;                    (* compilations so far: every rewrite produces fresh node ids *)
  pyc : name -> option code;
  pkl : name -> option N }.         (* the node table of compilation number ... *)
Definition fs0 : fs := {| ver := 0; next_inst := 0; pyc := fun _ => None; pkl := fun _ => None |}.
Definition upd {A} (m : name -> option A) (k : name) (v : option A) : name -> option A :=
  fun k' => if name_eq_dec k k' then v else m k'.

Record proc : Set := {
  p_who : who;              (* [] for a plain import (and for a traced import no tracer of which accepts the file) *)
  p_caching : bool;         (* all(bytecode_caching_allowed): the cache is consulted and written *)
  p_write : bool;           (* the cache directory is writable and bytecode writing is not disabled *)
  p_edit : bool;            (* the source was edited before this process *)
  p_raises : bool }.        (* the module body raises at import in this process *)

(* what the process observes: whose code ran, and whether the node table in memory belongs to that code *)
Definition obs : Set := (who * bool)%type.

Definition step (s : fs) (p : proc) : fs * obs :=
  let v := if p_edit p then ver s + 1 else ver s in
  let nm := name_of (p_who p) in
  let fresh := {| c_who := p_who p; c_ver := v; c_inst := next_inst s |} in
  let s1 := {| ver := v; next_inst := next_inst s + 1; pyc := pyc s; pkl := pkl s |} in
  let compile_and_write :=
    if p_write p
    then ({| ver := v; next_inst := next_inst s + 1; pyc := upd (pyc s) nm (Some fresh);
             (* the table beside the rewritten entry is removed before the body runs, the new one written after it has run *)
             pkl := if book (p_who p) && negb (p_raises p) then upd (pkl s) nm (Some (next_inst s)) else upd (pkl s) nm None |},
            (p_who p, true))
    else (s1, (p_who p, true)) in
  if negb (p_caching p) then (s1, (p_who p, true))                 (* get_code: compile directly, nothing read or written *)
  else
    match pyc s nm with
    | Some c =>
        if N.eqb (c_ver c) v then                                   (* SourceLoader.get_code: stamp matches, use the cached code *)
          if book (p_who p) then
            match pkl s nm with
            | Some i => (s1, (c_who c, N.eqb i (c_inst c)))         (* exec_module: load the pickled table *)
            | None => (s1, (p_who p, true))                         (* cached code without its table: compile again, write nothing *)
            end
          else (s1, (c_who c, true))
        else compile_and_write
    | None => compile_and_write
    end.

Fixpoint run (s : fs) (ps : list proc) : list obs :=
  match ps with
  | [] => []
  | p :: ps' => let '(s', o) := step s p in o :: run s' ps'
  end.
(* the same process on an empty cache *)
Definition fresh_obs (p : proc) : obs := (p_who p, true).

(* for the correspondence: what is in the cache directory after each process (ordinary bytecode present?, number of
   instrumented bytecode files, number of node tables), over the given candidate names *)
Definition is_some {A} (o : option A) : bool := match o with Some _ => true | None => false end.
Definition summary (s : fs) (names : list name) : bool * nat * nat :=
  (is_some (pyc s []), length (filter (fun nm => is_some (pyc s nm)) names), length (filter (fun nm => is_some (pkl s nm)) names)).
Definition tinfo_eq_dec : forall a b : tinfo, {a = b} + {a <> b}.
Proof. repeat decide equality. Defined.
Definition who_eqb (a b : who) : bool := if list_eq_dec tinfo_eq_dec a b then true else false.
Fixpoint run_trace (s : fs) (ps : list proc) (names : list name) : list (bool * (bool * nat * nat)) :=
  match ps with
  | [] => []
  | p :: ps' => let '(s', o) := step s p in
                (snd o && who_eqb (fst o) (p_who p), summary s' names) :: run_trace s' ps' names
  end.
