(* The class-level lookup tables over a HISTORY of instrumentations (C18, second half: "entries stay valid for as long as
   the code they describe can still run, whatever else is instrumented afterwards").
   AstRewriter.visit: the bookkeeper registered for the path is replaced; the old one's keys are removed from the class-level
   tables (unless a single function of the file is being rewritten, or collection is off), the new one's are added.
   remove_first : the removal happens before the addition (true) or after it (false)  -- from ast_rewriter.py, gen/BookOrder.v
   remove_old_mid : the old bookkeeper's lines are cleared from the line table of its own module id (true)  -- likewise
   No proofs in this file. *)
From Coq Require Import List NArith Bool.
Import ListNotations.

Record bk : Set := { b_mid : N;                    (* module id: key of the per-module line table *)
                     b_ids : list N;               (* ids of the pristine nodes *)
                     b_lines : list (N * N) }.     (* stmt_by_lineno: line -> statement id, in the order written *)
Inductive kind : Set := KModule | KFunction.
Record op : Set := { o_path : N; o_kind : kind; o_bk : bk }.

Record st := { cur : N -> option bk;               (* ast_bookkeeper_by_fname *)
               gn : N -> bool;                     (* ast_node_by_id (and the three tables keyed alike): is the id present *)
               gl : N -> N -> option N;            (* stmt_by_lineno_by_module_id *)
               valid : N -> list bk }.             (* ghost: per path, the bookkeepers whose code can still run *)

Definition mem (k : N) (l : list N) : bool := existsb (N.eqb k) l.
Fixpoint lookup (l : N) (t : list (N * N)) (acc : option N) : option N :=     (* dict.update: the last write wins *)
  match t with [] => acc | (l', i) :: t' => lookup l t' (if N.eqb l' l then Some i else acc) end.
Definition has_line (l : N) (t : list (N * N)) : bool := existsb (fun p => N.eqb (fst p) l) t.

Section Hist.
Variable remove_first : bool.
Variable remove_old_mid : bool.                     (* the old bookkeeper is removed under its own module id (true) or under the new one's (false) *)
Variable gc : bool.                                 (* AstRewriter.gc_bookkeeping *)

Definition remove (s : st) (o : bk) (mid : N) : st :=
  {| cur := cur s; valid := valid s;
     gn := fun k => gn s k && negb (mem k (b_ids o));
     gl := fun m l => if N.eqb m mid && has_line l (b_lines o) then None else gl s m l |}.
Definition add (s : st) (n : bk) (mid : N) : st :=
  {| cur := cur s; valid := valid s;
     gn := fun k => gn s k || mem k (b_ids n);
     gl := fun m l => if N.eqb m mid then lookup l (b_lines n) (gl s m l) else gl s m l |}.

Definition collects (k : kind) : bool := gc && match k with KModule => true | KFunction => false end.

Definition step (s : st) (o : op) : st :=
  let p := o_path o in let n := o_bk o in let mid := b_mid n in
  let old := cur s p in
  let s0 := {| cur := fun q => if N.eqb q p then Some n else cur s q; gn := gn s; gl := gl s;
               valid := fun q => if N.eqb q p then (if collects (o_kind o) then [n] else n :: valid s q) else valid s q |} in
  match old with
  | Some ob =>
      if collects (o_kind o) then
        let rmid := if remove_old_mid then b_mid ob else mid in
        if remove_first then add (remove s0 ob rmid) n mid else remove (add s0 n mid) ob rmid
      else add s0 n mid
  | None => add s0 n mid
  end.

Definition run (ops : list op) (s : st) : st := fold_left step ops s.
End Hist.

Definition st0 : st := {| cur := fun _ => None; gn := fun _ => false; gl := fun _ _ => None; valid := fun _ => [] |}.
