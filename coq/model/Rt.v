(* Runtime fold: emit_event._emit_event/_emit_tracer_loop and tracer._InternalBaseTracer._emit_event,
   for one emission with scripted handler outcomes (C04).  The three decision functions come from gen/EmitRet.v.
   No proofs in this file. *)
From Coq Require Import List NArith Bool.
Import ListNotations.
From PyccoloV Require Import gen.Events gen.EmitRet model.Val.

(* what calling spec.handler(...) does *)
Inductive hout : Set := HRet (r : rv) | HRaise.

Record hspec : Set := {
  h_reentrant : bool;      (* registered with reentrant=True *)
  h_guard_skip : bool;     (* a local guard is set for this spec and is truthy in the frame's globals: `continue` *)
  h_pred : bool;           (* spec.predicate is TRUE, or static, or dynamic_call(node) holds *)
  h_fun : rv -> hout }.    (* outcome as a function of the value the handler is given *)

Record tracer : Set := {
  t_hard_disabled : bool;
  t_allow_reentrant : bool;
  t_multi_thread : bool;
  t_file_ok : bool;        (* _file_passes_filter_impl(tracer, event, filename) *)
  t_propagate : bool;      (* should_propagate_handler_exception *)
  t_handlers : list hspec }.   (* self._event_handlers[event], definition order *)

Definition callrec : Set := (nat * nat * rv)%type.     (* tracer index, handler index (among all specs), value given *)

(* result of tracer._emit_event *)
Inductive tres : Set := TVal (r : rv) | TRaised.

Definition sys_tracer_obj : rv := RSysTracer.

(* for spec in self._event_handlers.get(event, []): ...   `ret` is kwargs.get("ret") at loop entry;
   thunk: Some v when `self._saved_thunk = new_ret` was executed (event == before_stmt), last assignment wins *)
Fixpoint handlers_loop (ev : event) (reentrant_only propagate : bool) (ti hi : nat) (hs : list hspec)
         (ret : rv) (thunk : option rv) (log : list callrec) : tres * option rv * list callrec :=
  match hs with
  | [] => (TVal ret, thunk, log)                                   (* return kwargs.get("ret") *)
  | h :: hs' =>
      if reentrant_only && negb (h_reentrant h) then handlers_loop ev reentrant_only propagate ti (S hi) hs' ret thunk log
      else if h_guard_skip h then handlers_loop ev reentrant_only propagate ti (S hi) hs' ret thunk log
      else
        let old_ret := ret in                                      (* kwargs.pop("ret", None) *)
        let called := h_pred h in
        let log' := if called then log ++ [(ti, hi, old_ret)] else log in
        let outcome := if called then h_fun h old_ret else HRet RNone in
        match outcome with
        | HRaise =>
            if propagate then (TRaised, thunk, log')               (* raise exc *)
            else                                                    (* new_ret = None *)
              let '(nr, brk) := handle_normal_emit_return sys_tracer_obj ev old_ret RNone in
              let thunk' := if event_eqb ev E_before_stmt then Some nr else thunk in
              if brk then (TVal nr, thunk', log') else handlers_loop ev reentrant_only propagate ti (S hi) hs' nr thunk' log'
        | HRet new_ret =>
            if rv_is new_ret RSkipAll then (TVal (handle_skipall_emit_return sys_tracer_obj ev old_ret), thunk, log')
            else
              let '(nr, brk) := handle_normal_emit_return sys_tracer_obj ev old_ret new_ret in
              let thunk' := if event_eqb ev E_before_stmt then Some nr else thunk in
              if brk then (TVal nr, thunk', log') else handlers_loop ev reentrant_only propagate ti (S hi) hs' nr thunk' log'
        end
  end.

Definition tracer_emit (ev : event) (reentrant_only : bool) (ti : nat) (t : tracer) (ret : rv) (thunk : option rv)
           (log : list callrec) : tres * option rv * list callrec :=
  if t_hard_disabled t then (TVal ret, thunk, log)
  else handlers_loop ev reentrant_only (t_propagate t) ti 0 (t_handlers t) ret thunk log.

Record flags : Set := { allow_handling : bool; allow_reentrant : bool }.

(* for tracer in _TRACER_STACK: ...     thunks: the per-tracer _saved_thunk after the loop (None = untouched) *)
Fixpoint tracer_loop (ev : event) (main_thread is_reentrant reentrant_only allow_re : bool) (ti : nat) (ts : list tracer)
         (ret : rv) (log : list callrec) : tres * list (option rv) * list callrec :=
  match ts with
  | [] => (TVal ret, [], log)
  | t :: ts' =>
      let skip := (negb main_thread && negb (t_multi_thread t))
                  || (is_reentrant && negb (t_allow_reentrant t) && negb allow_re)
                  || negb (t_file_ok t) in
      if skip then
        let '(r, th, l) := tracer_loop ev main_thread is_reentrant reentrant_only allow_re (S ti) ts' ret log in
        (r, None :: th, l)
      else
        match tracer_emit ev reentrant_only ti t ret None log with
        | (TRaised, th, log') => (TRaised, th :: map (fun _ => None) ts', log')
        | (TVal (RTuple2 RSkipAll v), th, log') => (TVal v, th :: map (fun _ => None) ts', log')   (* kwargs["ret"] = new_ret[1]; break *)
        | (TVal v, th, log') =>
            let '(r, ths, l) := tracer_loop ev main_thread is_reentrant reentrant_only allow_re (S ti) ts' v log' in
            (r, th :: ths, l)
        end
  end.

(* emit_event._emit_event: returns the value handed back to the rewritten program (or the propagated exception),
   the flags afterwards, the per-tracer _saved_thunk updates, and the call log *)
Definition emit (ev : event) (main_thread : bool) (fl : flags) (ts : list tracer) (ret : rv)
  : tres * flags * list (option rv) * list callrec :=
  let is_reentrant := negb (allow_handling fl) in
  let reentrant_only := is_reentrant && negb (allow_reentrant fl) in
  let '(r, ths, log) := tracer_loop ev main_thread is_reentrant reentrant_only (allow_reentrant fl) 0 ts ret [] in
  (* end of _emit_tracer_loop: for before_stmt every tracer that this thread may touch gets the final value *)
  let ths' := match r with
              | TVal v => if event_eqb ev E_before_stmt
                          then map (fun tt => if main_thread || t_multi_thread (fst tt) then Some v else snd tt)
                                   (combine ts ths)
                          else ths
              | TRaised => ths end in
  (* finally: both flags restored *)
  (match r with TVal v => TVal (make_ret ev v) | TRaised => TRaised end, fl, ths', log).

(* ---- what the rewritten statement does with the result of EMIT(before_stmt):
        if EMIT(before_stmt, id): EXEC_SAVED_THUNK()  else: <original statement>
   EXEC_SAVED_THUNK is the exec_saved_thunk of one tracer (`owner`): asserts its _saved_thunk is not None, runs it
   unless it is Pass. *)
Inductive stmt_action : Set := RunOriginal | SkipStmt | RunReplacement (code : rv) | AssertionFails | Propagates.
Definition rv_truthy (r : rv) : bool :=
  match r with RNone => false | RUser u _ => negb (N.eqb u 0) | _ => true end.
Definition before_stmt_action (r : tres) (owner_thunk : option rv) : stmt_action :=
  match r with
  | TRaised => Propagates
  | TVal v =>
      if rv_truthy v then
        match owner_thunk with
        | None | Some RNone => AssertionFails
        | Some RPass => SkipStmt
        | Some c => RunReplacement c
        end
      else RunOriginal
  end.
