(* Return-value objects as the runtime fold sees them (tracer.py sentinels, callables, tuples). *)
From Coq Require Import NArith Bool.

Inductive rv : Set :=
  | RNone | RNull | RSkip | RSkipAll | RPass
  | RSysTracer                        (* self.sys_tracer: a callable *)
  | RUser (u : N) (callable : bool)   (* any other object: identity u; whether callable(u) *)
  | RConstThunk (r : rv)              (* lambda *_: r *)
  | RTuple2 (a b : rv).

Fixpoint rv_eqb (a b : rv) : bool :=
  match a, b with
  | RNone, RNone | RNull, RNull | RSkip, RSkip | RSkipAll, RSkipAll | RPass, RPass | RSysTracer, RSysTracer => true
  | RUser u c, RUser v d => N.eqb u v && Bool.eqb c d
  | RConstThunk x, RConstThunk y => rv_eqb x y
  | RTuple2 x1 x2, RTuple2 y1 y2 => rv_eqb x1 y1 && rv_eqb x2 y2
  | _, _ => false
  end.

(* `x is C` for the singleton sentinels (identity = structural equality on sentinels; user objects by identity u) *)
Definition rv_is (a b : rv) : bool :=
  match a, b with
  | RNone, RNone | RNull, RNull | RSkip, RSkip | RSkipAll, RSkipAll | RPass, RPass | RSysTracer, RSysTracer => true
  | RUser u _, RUser v _ => N.eqb u v
  | _, _ => false
  end.

Definition rv_callable (a : rv) : bool :=
  match a with
  | RSysTracer | RConstThunk _ => true
  | RUser _ c => c
  | _ => false
  end.
