(* Generic Python AST as exported by tools/impl/astexport.py: every field of every node kind goes either to `sc`
   (identifiers, constants, ints ... interned) or to `fs` (node fields in _fields order: a single node is [t], an absent
   optional node is [], a list is its elements; None inside a list is NoneNode).  No proofs in this file. *)
From Coq Require Import List ZArith NArith Bool.
Import ListNotations.

Inductive scalar : Set :=
  | SNone | SBool (b : bool) | SInt (z : Z) | SStr (s : N) | SId (x : N)
  | SNid (n : N)          (* an int constant that is the id() of a pristine node: its traversal index *)
  | SNidUnknown           (* an id()-sized int that is in no table *)
  | SOpaque (c : N).      (* floats, bytes, complex ...: interned repr *)

Inductive tree : Set := T (k : N) (sc : list scalar) (fs : list (list tree)) | NoneNode.

Definition scalar_eqb (a b : scalar) : bool :=
  match a, b with
  | SNone, SNone | SNidUnknown, SNidUnknown => true
  | SBool x, SBool y => Bool.eqb x y
  | SInt x, SInt y => Z.eqb x y
  | SStr x, SStr y | SId x, SId y | SNid x, SNid y | SOpaque x, SOpaque y => N.eqb x y
  | _, _ => false
  end.
Fixpoint scalars_eqb (a b : list scalar) : bool :=
  match a, b with [], [] => true | x :: a', y :: b' => scalar_eqb x y && scalars_eqb a' b' | _, _ => false end.

Fixpoint tree_eqb (a b : tree) {struct a} : bool :=
  match a, b with
  | NoneNode, NoneNode => true
  | T k sc fs, T k' sc' fs' =>
      N.eqb k k' && scalars_eqb sc sc' &&
      (fix gof (l l' : list (list tree)) {struct l} : bool :=
         match l, l' with
         | [], [] => true
         | f :: l1, f' :: l1' =>
             (fix gol (u u' : list tree) {struct u} : bool :=
                match u, u' with [], [] => true | x :: u1, y :: u1' => tree_eqb x y && gol u1 u1' | _, _ => false end) f f'
             && gof l1 l1'
         | _, _ => false
         end) fs fs'
  | _, _ => false
  end.
Fixpoint trees_eqb (a b : list tree) : bool :=
  match a, b with [], [] => true | x :: a', y :: b' => tree_eqb x y && trees_eqb a' b' | _, _ => false end.

Fixpoint size (t : tree) : nat :=
  match t with
  | NoneNode => 1
  | T _ _ fs => S ((fix gof (l : list (list tree)) : nat := match l with [] => 0 | f :: l' =>
                    (fix gol (u : list tree) : nat := match u with [] => 0 | x :: u' => size x + gol u' end) f + gof l' end) fs)
  end.
