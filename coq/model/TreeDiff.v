(* debugging aid: first point where two trees differ (path of node kinds, and the two sub-trees' root kinds) *)
From Coq Require Import List ZArith NArith Bool.
Import ListNotations.
From PyccoloV Require Import model.Tree.
Definition root_kind (t : tree) : N := match t with T k _ _ => k | NoneNode => 0%N end.
Fixpoint diff (fuel : nat) (a b : tree) : option (list N * N * N * nat * nat) :=
  match fuel with
  | O => None
  | S fuel' =>
      match a, b with
      | T k sc fs, T k' sc' fs' =>
          if negb (N.eqb k k') || negb (scalars_eqb sc sc') then Some ([], k, k', length sc, length sc')
          else if negb (Nat.eqb (length fs) (length fs')) then Some ([k], 0%N, 0%N, length fs, length fs')
          else
            (fix gof (l l' : list (list tree)) (i : nat) : option (list N * N * N * nat * nat) :=
               match l, l' with
               | f :: l1, f' :: l1' =>
                   if negb (Nat.eqb (length f) (length f')) then Some ([k; N.of_nat i], 999%N, 999%N, length f, length f')
                   else match (fix gol (u u' : list tree) : option (list N * N * N * nat * nat) :=
                                 match u, u' with
                                 | x :: u1, y :: u1' => match diff fuel' x y with Some (p, c, d, e, g) => Some (k :: N.of_nat i :: p, c, d, e, g) | None => gol u1 u1' end
                                 | _, _ => None
                                 end) f f' with
                        | Some r => Some r
                        | None => gof l1 l1' (S i)
                        end
               | _, _ => None
               end) fs fs' 0%nat
      | NoneNode, NoneNode => None
      | _, _ => Some ([], root_kind a, root_kind b, 0%nat, 0%nat)
      end
  end.
