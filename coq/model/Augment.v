(* syntax_augmentation.py (C14): replace_tokens_and_get_augmented_positions (token loop with a match buffer) and
   fix_positions (per-line correction of recorded columns for specs applied later).  Strings are lists of character
   codes; tokens come from Python's tokenizer (an input, not modelled).  No proofs in this file. *)
From Coq Require Import List ZArith NArith Bool.
Import ListNotations.

Definition str := list N.
Fixpoint str_eqb (a b : str) : bool :=
  match a, b with [], [] => true | x :: a', y :: b' => N.eqb x y && str_eqb a' b' | _, _ => false end.
Fixpoint prefix_of (p s : str) : bool :=             (* s.startswith(p) *)
  match p, s with [] , _ => true | x :: p', y :: s' => N.eqb x y && prefix_of p' s' | _, [] => false end.
Definition spaces (n : Z) : str := repeat 32%N (Z.to_nat n).

Record token : Set := { t_str : str; t_sline : Z; t_scol : Z; t_eline : Z; t_ecol : Z }.
Record rstate : Set := {
  transformed : str; matchbuf : str; match_start : Z * Z; col_offset : Z; positions : list (Z * Z); prev : option token }.

Definition flush (tok : str) (force : bool) (s : rstate) : rstate :=
  if force || negb (prefix_of (matchbuf s) tok)
  then {| transformed := transformed s ++ matchbuf s; matchbuf := []; match_start := match_start s; col_offset := col_offset s;
          positions := positions s; prev := prev s |}
  else s.
Definition mwrite (x : str) (s : rstate) : rstate :=
  {| transformed := transformed s; matchbuf := matchbuf s ++ x; match_start := match_start s; col_offset := col_offset s;
     positions := positions s; prev := prev s |}.

Definition step (tok repl : str) (s : rstate) (cur : token) : rstate :=
  let s1 := match prev s with
            | Some p => if Z.eqb (t_eline p) (t_sline cur)
                        then flush tok false (mwrite (spaces (t_scol cur - t_ecol p)%Z) s)
                        else let s' := flush tok true s in
                             mwrite (spaces (t_scol cur)) {| transformed := transformed s'; matchbuf := matchbuf s'; match_start := match_start s';
                                                            col_offset := 0; positions := positions s'; prev := prev s' |}
            | None => let s' := flush tok true s in
                      mwrite (spaces (t_scol cur)) {| transformed := transformed s'; matchbuf := matchbuf s'; match_start := match_start s';
                                                     col_offset := 0; positions := positions s'; prev := prev s' |}
            end in
  (* _write_match(cur) *)
  let s2 := {| transformed := transformed s1; matchbuf := matchbuf s1 ++ t_str cur;
               match_start := (match matchbuf s1 with [] => (t_sline cur, t_scol cur) | _ => match_start s1 end);
               col_offset := col_offset s1; positions := positions s1; prev := prev s1 |} in
  let s3 := flush tok false s2 in
  let s4 := if str_eqb tok (matchbuf s3)
            then {| transformed := transformed s3 ++ repl; matchbuf := [];  match_start := match_start s3;
                    col_offset := (col_offset s3 + (Z.of_nat (length repl) - Z.of_nat (length tok)))%Z;
                    positions := positions s3 ++ [(fst (match_start s3), (snd (match_start s3) + col_offset s3)%Z)]; prev := prev s3 |}
            else s3 in
  {| transformed := transformed s4; matchbuf := matchbuf s4; match_start := match_start s4; col_offset := col_offset s4;
     positions := positions s4; prev := Some cur |}.

Definition replace_tokens (tok repl : str) (toks : list token) : str * list (Z * Z) :=
  let s := fold_left (step tok repl)
                     toks {| transformed := []; matchbuf := []; match_start := (-1, -1)%Z; col_offset := 0; positions := []; prev := None |} in
  let s' := flush tok true s in (transformed s', positions s').

(* ---- fix_positions, one line.  Specs are numbered in the order they were applied; offs k = len(token_k) - len(replacement_k) *)
Definition occ : Set := (Z * nat)%type.                  (* recorded column, spec number *)
Fixpoint insert_occ (o : occ) (l : list occ) : option (list occ) :=     (* None: the sort would compare two different specs *)
  match l with
  | [] => Some [o]
  | x :: l' =>
      if (fst o <? fst x)%Z then Some (o :: l)
      else if (fst o =? fst x)%Z then (if Nat.eqb (snd o) (snd x) then Some (o :: l) else None)
      else option_map (cons x) (insert_occ o l')
  end.
Fixpoint sort_occs (l : list occ) : option (list occ) :=
  match l with [] => Some [] | o :: l' => match sort_occs l' with Some s => insert_occ o s | None => None end end.

Definition counter := nat -> Z.
Definition cadd_upto (c : counter) (k : nat) (d : Z) : counter := fun j => if Nat.leb j k then (c j + d)%Z else c j.
Definition cadd_at (c : counter) (k : nat) (d : Z) : counter := fun j => if Nat.eqb j k then (c j + d)%Z else c j.

Fixpoint fix_sorted (offs : nat -> Z) (total own : counter) (l : list occ) : list occ :=
  match l with
  | [] => []
  | (col, k) :: l' =>
      let d := offs k in
      let total' := cadd_upto total k d in               (* for prev_applied in spec_order: ... += offset; break at spec *)
      let own' := cadd_at own k d in
      ((col - (total' k - own' k))%Z, k) :: fix_sorted offs total' own' l'
  end.
Definition fix_line (offs : nat -> Z) (l : list occ) : option (list occ) :=
  option_map (fix_sorted offs (fun _ => 0%Z) (fun _ => 0%Z)) (sort_occs l).

(* ---- ground truth for one line: the final layout (final column, spec), left to right; the column recorded for an
        occurrence of spec k is its column in the text right after spec k was applied, i.e. with the replacements of the
        later-applied specs to its left not yet made *)
Fixpoint recorded_of (offs : nat -> Z) (left : list occ) (l : list occ) : list occ :=
  match l with
  | [] => []
  | (f, k) :: l' =>
      let undo := fold_left (fun acc (o : occ) => if Nat.ltb k (snd o) then (acc + offs (snd o))%Z else acc) left 0%Z in
      ((f + undo)%Z, k) :: recorded_of offs (left ++ [(f, k)]) l'
  end.
