(* syntax_augmentation.py (C14): replace_tokens_and_get_augmented_positions (token loop with a match buffer; text between and
   inside opaque tokens copied from the source) and
   fix_positions (per-line correction of recorded columns for specs applied later).  Strings are lists of character
   codes; tokens come from Python's tokenizer (an input, not modelled).  No proofs in this file. *)
From Coq Require Import List ZArith NArith Bool.
Import ListNotations.

Definition str := list N.
Fixpoint str_eqb (a b : str) : bool :=
  match a, b with [], [] => true | x :: a', y :: b' => N.eqb x y && str_eqb a' b' | _, _ => false end.
Fixpoint prefix_of (p s : str) : bool :=             (* s.startswith(p) *)
  match p, s with [] , _ => true | x :: p', y :: s' => N.eqb x y && prefix_of p' s' | _, [] => false end.
Definition spaces (n : Z) : str := repeat 32%N (Z.to_nat n).

(* a token with the source text standing before it (from the end of the previous token: blanks, tabs, form feeds, a backslash
   continuation - copied as it stands), its own text (for strings, f-string literal parts and comments the source slice, which is
   never part of a match: `opaque`), and where it starts *)
Record token : Set := { t_gap : str; t_text : str; t_opaque : bool; t_row : Z; t_col : Z }.
Record rstate : Set := {
  transformed : str; matchbuf : str; match_start : Z * Z; offset_row : Z; col_offset : Z; positions : list (Z * Z) }.

Definition nonempty (x : str) : bool := match x with [] => false | _ => true end.

(* the candidate `c` (started at `st`) spells a prefix of the token: an occurrence if it spells all of it, else keep collecting *)
Definition finish (tok repl : str) (c : str) (st : Z * Z) (out : str) (s : rstate) : rstate :=
  if str_eqb c tok
  then let '(orow, coff) := if Z.eqb (fst st) (offset_row s) then (offset_row s, col_offset s) else (fst st, 0%Z) in
       {| transformed := out ++ repl; matchbuf := []; match_start := st; offset_row := orow;
          col_offset := (coff + (Z.of_nat (length repl) - Z.of_nat (length tok)))%Z;
          positions := positions s ++ [(fst st, (snd st + coff)%Z)] |}
  else {| transformed := out; matchbuf := c; match_start := st; offset_row := offset_row s; col_offset := col_offset s;
          positions := positions s |}.

Definition step (tok repl : str) (s : rstate) (cur : token) : rstate :=
  let joined := matchbuf s ++ t_gap cur ++ t_text cur in
  if negb (t_opaque cur) && nonempty (matchbuf s) && prefix_of joined tok
  then finish tok repl joined (match_start s) (transformed s) s
  else
    let out1 := transformed s ++ matchbuf s ++ t_gap cur in           (* what was collected is ordinary text *)
    if negb (t_opaque cur) && prefix_of (t_text cur) tok && nonempty (t_text cur)
    then finish tok repl (t_text cur) (t_row cur, t_col cur) out1 s
    else {| transformed := out1 ++ t_text cur; matchbuf := []; match_start := match_start s; offset_row := offset_row s;
            col_offset := col_offset s; positions := positions s |}.

Definition replace_tokens (tok repl : str) (toks : list token) : str * list (Z * Z) :=
  let s := fold_left (step tok repl)
                     toks {| transformed := []; matchbuf := []; match_start := (-1, -1)%Z; offset_row := (-1)%Z; col_offset := 0; positions := [] |} in
  (transformed s ++ matchbuf s, positions s).
(* the source the tokens were cut from *)
Definition source_of (toks : list token) : str := flat_map (fun t => t_gap t ++ t_text t) toks.

(* ---- fix_positions, one line.  Specs are numbered in the order they were applied; offs k = len(token_k) - len(replacement_k) *)
Definition occ : Set := (Z * nat)%type.                  (* recorded column, spec number *)
Fixpoint insert_occ (o : occ) (l : list occ) : option (list occ) :=     (* None: the sort would compare two different specs *)
  match l with
  | [] => Some [o]
  | x :: l' =>
      if (fst o <? fst x)%Z then Some (o :: l)
      else if (fst o =? fst x)%Z then (if Nat.eqb (snd o) (snd x) then Some (o :: l) else None)
      else option_map (cons x) (insert_occ o l')
  end.
Fixpoint sort_occs (l : list occ) : option (list occ) :=
  match l with [] => Some [] | o :: l' => match sort_occs l' with Some s => insert_occ o s | None => None end end.

Definition counter := nat -> Z.
Definition cadd_upto (c : counter) (k : nat) (d : Z) : counter := fun j => if Nat.leb j k then (c j + d)%Z else c j.
Definition cadd_at (c : counter) (k : nat) (d : Z) : counter := fun j => if Nat.eqb j k then (c j + d)%Z else c j.

Fixpoint fix_sorted (offs : nat -> Z) (total own : counter) (l : list occ) : list occ :=
  match l with
  | [] => []
  | (col, k) :: l' =>
      let d := offs k in
      let total' := cadd_upto total k d in               (* for prev_applied in spec_order: ... += offset; break at spec *)
      let own' := cadd_at own k d in
      ((col - (total' k - own' k))%Z, k) :: fix_sorted offs total' own' l'
  end.
Definition fix_line (offs : nat -> Z) (l : list occ) : option (list occ) :=
  option_map (fix_sorted offs (fun _ => 0%Z) (fun _ => 0%Z)) (sort_occs l).

(* ---- ground truth for one line: the final layout (final column, spec), left to right; the column recorded for an
        occurrence of spec k is its column in the text right after spec k was applied, i.e. with the replacements of the
        later-applied specs to its left not yet made *)
Fixpoint recorded_of (offs : nat -> Z) (left : list occ) (l : list occ) : list occ :=
  match l with
  | [] => []
  | (f, k) :: l' =>
      let undo := fold_left (fun acc (o : occ) => if Nat.ltb k (snd o) then (acc + offs (snd o))%Z else acc) left 0%Z in
      ((f + undo)%Z, k) :: recorded_of offs (left ++ [(f, k)]) l'
  end.
