(* The fragment of model/FragSem.v extended with FUNCTIONS (DESIGN 3, "FragFun"): module-level `def` with positional parameters,
   `return`, and calls `f(e1, ..., en)` of a named function standing as a whole right-hand side (of an expression statement, an
   assignment or a `return`); expressions, their rewriter `ie`, evaluator `eval_e` and reference `ref_e` are those of FragSem.v.
   The rewriter turns a definition into
       def f(ps):
           try:
               if FUNCTION_TRACING and G_f [and EMIT(before_function_body, n, ret=True)]:
                   [try:] <instrumented body> [finally: EMIT(after_function_execution, n, guard='G_f')]
               else:
                   <pristine body>
           except NameError as E:                       (the guard may be undefined when the function outlives its tracer)
               if not (E.name or '').startswith('_X5ix'): raise
               <pristine body>
   (with global guards disabled: no `if`, the before_function_body emission a statement of its own), a call into
       EMIT(after_load_complex_symbol, k, ret=EMIT(before_load_complex_symbol, k, ret=TLAM(lambda:
           EMIT(after_call, k, ret=EMIT(before_call, k, ret=<f>, call_node_id=k)(<args>), call_node_id=k)), call_context=True)(), call_context=True)
   each argument into EMIT(after_argument, a, ret=EMIT(before_argument, a, ret=TLAM(lambda: <arg>), is_starred=.., is_last=..)(), ...),
   and `return v` into `return EMIT(after_return, v, ret=EMIT(before_return, v, ret=TLAM(lambda: <v>))())`.
   Handlers may activate and deactivate function guards (`pol`, as in FragLoop.v); calls run on fuel (call depth), the same for
   source and instrumented program; scoping is Python's (a name assigned anywhere in a function body is local to it).
   Modelling assumption: the guard names are bound (the program runs inside the tracing context that instrumented it), so the
   `except NameError` fallback re-raises and never runs its pristine copy.   No proofs in this file. *)
From Coq Require Import List ZArith NArith Bool.
Import ListNotations.
From PyccoloV Require Import gen.PyAst gen.Ids gen.Events model.Tree model.Erase model.RwFrag model.FragSem.
Local Open Scope N_scope.

Inductive rhs : Set :=
  | RExp (v : texpr)
  | RCall (cn : N) (bc ba aa : bool) (func : texpr) (args : list texpr)    (* bc / ba / aa: before_call on the callee, before_ / after_argument on every argument *)
  | REmit (e : event) (n : N) (r : rhs)                                    (* EMIT(e, n, ret=r[, extras]) *)
  | RDef (e : event) (n : N) (r : rhs).                                    (* EMIT(e, n, ret=TLAM(lambda: r)[, extras])() *)

Inductive fstmt : Set :=
  | FExpr (n : N) (r : rhs)
  | FAssign (n : N) (targets : list N) (r : rhs)
  | FPass (n : N)
  | FIf (n : N) (t : texpr) (b o : list fstmt)
  | FReturn (n : N) (r : option rhs)
  | FDef (n : N) (name : N) (params : list N) (body : list fstmt)
  (* what the rewriter adds *)
  | FEmit (e : event) (n : N) (ret : option rhs) (g : option (option N))   (* EMIT(e, n[, ret=v][, guard='G' | guard=None]) *)
  | FBefore (n : N) (thunk_branch own : list fstmt)
  | FGuardIf (g : N) (before : option N) (instr pristine : list fstmt)
  | FTry (b fin : list fstmt)
  | FNameTry (b p : list fstmt).

Definition fid (s : fstmt) : N :=
  match s with
  | FExpr n _ | FAssign n _ _ | FPass n | FIf n _ _ _ | FReturn n _ | FDef n _ _ _ | FEmit _ n _ _ | FBefore n _ _ => n
  | FGuardIf g _ _ _ => g
  | FTry _ _ | FNameTry _ _ => 0
  end.
Definition rid (r : rhs) : N := match r with RExp v => xid v | RCall cn _ _ _ _ _ => cn | REmit _ n _ | RDef _ n _ => n end.
Definition fguard_id (n : N) : N := 5000000 + 2 * n + 1.

(* ---------------------------------------------------------------- reading a source tree *)
Definition of_r (t : tree) (n : N) : option rhs :=
  match t with
  | T k [] [[T kn [SId f] [[T kc [] []]]]; args; []] =>
      if N.eqb k kCall && N.eqb kn kName && N.eqb kc kLoad then
        match (fix gol (u : list tree) (j : N) {struct u} : option (list texpr) :=
                 match u with
                 | [] => Some []
                 | x :: u' => match of_e x j, gol u' (j + nsize x) with Some a, Some b => Some (a :: b) | _, _ => None end
                 end) args (n + 3) with
        | Some args' => if N.eqb f id_range && Nat.eqb (length args') 3 then None     (* range with a step: outside the fragment *)
                        else Some (RCall n false false false (XName (n + 1) f) args')
        | None => None
        end
      else option_map RExp (of_e t n)
  | _ => option_map RExp (of_e t n)
  end.

Definition param_of (t : tree) : option N := match t with T k [SId x; SNone] [[]] => if N.eqb k karg then Some x else None | _ => None end.
Fixpoint params_of (l : list tree) : option (list N) :=
  match l with [] => Some [] | t :: l' => match param_of t, params_of l' with Some x, Some xs => Some (x :: xs) | _, _ => None end end.
Definition is_docstring (s : fstmt) : bool := match s with FExpr _ (RExp (XConst _ (SStr _))) => true | _ => false end.

(* top: directly in the module body (definitions allowed); infun: inside a function body (return allowed) *)
Fixpoint of_fs (top infun : bool) (s : tree) (n : N) {struct s} : option fstmt :=
  match s with
  | NoneNode => None
  | T k sc fs =>
      let goss := fun (infun : bool) => fix gol (u : list tree) (j : N) {struct u} : option (list fstmt) :=
                    match u with
                    | [] => Some []
                    | x :: u' => match of_fs false infun x j, gol u' (j + nsize x) with Some a, Some b => Some (a :: b) | _, _ => None end
                    end in
      if N.eqb k kExpr then
        match sc, fs with [], [[v]] => match of_r v (n + 1) with Some v' => Some (FExpr n v') | None => None end | _, _ => None end
      else if N.eqb k kAssign then
        match sc, fs with
        | [SNone], [targets; [v]] =>
            match targets_of targets, of_r v (n + 1 + nsizes targets) with Some xs, Some v' => Some (FAssign n xs v') | _, _ => None end
        | _, _ => None
        end
      else if N.eqb k kPass then match sc, fs with [], [] => Some (FPass n) | _, _ => None end
      else if N.eqb k kIf then
        match sc, fs with
        | [], [[test]; b; o] =>
            let nb := n + 1 + nsize test in
            match of_e test (n + 1), goss infun b nb, goss infun o (nb + nsizes b) with
            | Some t', Some b', Some o' => Some (FIf n t' b' o') | _, _, _ => None end
        | _, _ => None
        end
      else if N.eqb k kReturn then
        if infun then
          match sc, fs with
          | [], [[]] => Some (FReturn n None)
          | [], [[v]] => match of_r v (n + 1) with Some v' => Some (FReturn n (Some v')) | None => None end
          | _, _ => None
          end
        else None
      else if N.eqb k kFunctionDef then
        if top then
          match sc, fs with
          | [SId name; SNone], [[T ka [] [[]; ps; []; []; []; []; []]]; body; []; []; []] =>
              if N.eqb ka karguments then
                match params_of ps, goss true body (n + 2 + nsizes ps) with
                | Some ps', Some (s0 :: body') => if is_docstring s0 then None else Some (FDef n name ps' (s0 :: body'))
                | _, _ => None
                end
              else None
          | _, _ => None
          end
        else None
      else None
  end.

Definition of_fmodule (m : tree) : option (list fstmt) :=
  match m with
  | T k [] [body; []] =>
      if N.eqb k kModule then
        (fix gol (u : list tree) (j : N) {struct u} : option (list fstmt) :=
           match u with
           | [] => Some []
           | x :: u' => match of_fs true false x j, gol u' (j + nsize x) with Some a, Some b => Some (a :: b) | _, _ => None end
           end) body 1
      else None
  | _ => None
  end.

(* ---------------------------------------------------------------- printing *)
Definition true_c : tree := T kConstant [SBool true; SNone] [].
Definition false_c : tree := T kConstant [SBool false; SNone] [].
Definition bool_c (b : bool) : tree := if b then true_c else false_c.
Definition extra_kws (e : event) (n : N) : list tree :=
  if event_eqb e E_before_call || event_eqb e E_after_call then [kw id_call_node_id (cst_nid n)]
  else if event_eqb e E_before_load_complex_symbol || event_eqb e E_after_load_complex_symbol then [kw id_call_context true_c]
  else [].
Definition arg_kws (last : bool) : list tree :=
  [kw id_is_starred false_c; kw id_is_kwstarred false_c; kw id_key none_const; kw id_is_last (bool_c last)].
Definition emit_x (e : event) (n : N) (r : tree) (extra : list tree) : tree := emit_call e n ([kw id_ret r] ++ extra ++ [guards_none]).
Definition emit_def_x (e : event) (n : N) (r : tree) (extra : list tree) : tree := T kCall [] [[emit_x e n (tlam no_args r) extra]; []; []].

Fixpoint targs (ba aa : bool) (args : list texpr) : list tree :=
  match args with
  | [] => []
  | a :: rest =>
      let last := match rest with [] => true | _ => false end in
      let v1 := if ba then emit_def_x E_before_argument (xid a) (tt a) (arg_kws last) else tt a in
      (if aa then emit_x E_after_argument (xid a) v1 (arg_kws last) else v1) :: targs ba aa rest
  end.

Fixpoint tr (r : rhs) : tree :=
  match r with
  | RExp v => tt v
  | RCall cn bc ba aa func args =>
      T kCall [] [[if bc then emit_x E_before_call cn (tt func) (extra_kws E_before_call cn) else tt func]; targs ba aa args; []]
  | REmit e n r' => emit_x e n (tr r') (extra_kws e n)
  | RDef e n r' => emit_def_x e n (tr r') (extra_kws e n)
  end.

Definition fguard_name (g : N) : tree := nm_load (fguard_id g).
Definition fand_test (parts : list tree) : tree := T kBoolOp [] [[T kAnd [] []]; parts].
Definition fguard_kw (g : option N) : tree :=
  kw id_guard_kw (match g with Some g' => T kConstant [SStr (fguard_id g'); SNone] [] | None => none_const end).
Definition mk_param (x : N) : tree := T karg [SId x; SNone] [[]].
Definition name_error_test : tree :=       (* not ("%s" % (E.name,)).startswith('_X5ix') *)
  T kUnaryOp [] [[T kNot [] []];
    [T kCall [] [[T kAttribute [SId id_startswith]
                    [[T kBinOp [] [[T kConstant [SStr id_fmt_s; SNone] []]; [T kMod [] []];
                                   [T kTuple [] [[T kAttribute [SId id_name] [[nm_load id_name_error]; [load_ctx]]]; [load_ctx]]]]];
                     [load_ctx]]];
                 [T kConstant [SStr id_prefix_str; SNone] []]; []]]].

Fixpoint tfs (s : fstmt) : tree :=
  match s with
  | FExpr _ r => T kExpr [] [[tr r]]
  | FAssign _ xs r => T kAssign [SNone] [map nm_store xs; [tr r]]
  | FPass _ => T kPass [] []
  | FIf _ t b o => T kIf [] [[tt t]; map tfs b; map tfs o]
  | FReturn _ None => T kReturn [] [[]]
  | FReturn _ (Some r) => T kReturn [] [[tr r]]
  | FDef _ name ps body =>
      T kFunctionDef [SId name; SNone] [[T karguments [] [[]; map mk_param ps; []; []; []; []; []]]; map tfs body; []; []; []]
  | FEmit e n r g =>
      stmt_emit e n ((match r with Some v => [kw id_ret (tr v)] | None => [] end)
                     ++ (match g with Some g' => [fguard_kw g'] | None => [] end)
                     ++ (match r, g with Some _, None => if event_eqb e E_before_function_body then [guards_none] else [] | _, _ => [] end))
  | FBefore n tb own => T kIf [] [[emit_call E_before_stmt n []]; map tfs tb; map tfs own]
  | FGuardIf g before i p =>
      T kIf [] [[fand_test ([nm_load id_fte; fguard_name g]
                            ++ match before with Some n => [emit_ret E_before_function_body n true_c] | None => [] end)];
                map tfs i; map tfs p]
  | FTry b fin => T kTry [] [map tfs b; []; []; map tfs fin]
  | FNameTry b p =>
      T kTry [] [map tfs b;
                 [T kExceptHandler [SId id_name_error] [[nm_load id_NameError];
                    T kIf [] [[name_error_test]; [T kRaise [] [[]; []]]; []] :: map tfs p]];
                 []; []]
  end.
Definition tf_module (body : list fstmt) : tree := T kModule [] [map tfs body; []].

(* ---------------------------------------------------------------- the rewriter *)
Section Instr.
Variable c : rcfg.
Variable ge : bool.                 (* global guards enabled *)

Definition wrapR (e : event) (n : N) (r : rhs) : rhs := if sub c e then REmit e n r else r.
Definition defR (e : event) (n : N) (r : rhs) : rhs := if sub c e then RDef e n r else r.
Definition ir (r : rhs) : rhs :=
  match r with
  | RExp v => RExp (ie c v)
  | RCall cn _ _ _ func args =>
      wrapR E_after_load_complex_symbol cn (defR E_before_load_complex_symbol cn (wrapR E_after_call cn
        (RCall cn (sub c E_before_call) (sub c E_before_argument) (sub c E_after_argument) (ie c func) (map (ie c) args))))
  | other => other
  end.

Definition fmain_and_after (wants_after is_module : bool) (n : N) (m : fstmt) (m_is_expr : bool) (m_value : rhs) : list fstmt :=
  if wants_after then
    if m_is_expr && is_module then [FEmit E_after_stmt n (Some m_value) None] else [m; FEmit E_after_stmt n None None]
  else [m].

Fixpoint fis (is_module : bool) (s : fstmt) {struct s} : list fstmt :=
  let n := fid s in
  let main : fstmt :=
    match s with
    | FExpr n r => FExpr n (wrapR E_after_expr_stmt n (ir r))
    | FAssign n xs r => FAssign n xs (wrapR E_after_assign_rhs (rid r) (defR E_before_assign_rhs (rid r) (ir r)))
    | FIf n t b o => FIf n (wrap c E_after_if_test n (ie c t)) (flat_map (fis false) b) (flat_map (fis false) o)
    | FReturn n (Some r) => FReturn n (Some (wrapR E_after_return (rid r) (defR E_before_return (rid r) (ir r))))
    | FDef n name ps body =>
        let b' := flat_map (fis false) body in
        let with_after := if sub c E_after_function_execution
                          then [FTry b' [FEmit E_after_function_execution n None (Some (if ge then Some n else None))]]
                          else b' in
        FDef n name ps
          [FNameTry
             (if ge then [FGuardIf n (if sub c E_before_function_body then Some n else None) with_after body]
              else (if sub c E_before_function_body then [FEmit E_before_function_body n (Some (RExp (XConst 0 (SBool true)))) None] else []) ++ with_after)
             body]
    | other => other
    end in
  let wants_after := sub c E_after_stmt || (sub c E_after_module_stmt && is_module) in
  let own := match s with
             | FReturn _ _ => [main]
             | _ => fmain_and_after wants_after is_module n main (match s with FExpr _ _ => true | _ => false end)
                      (match main with FExpr _ v => v | _ => RExp XThunkCall end)
             end in
  let expanded :=
    if sub c E_before_stmt
    then [FBefore n (fmain_and_after wants_after is_module n (FExpr 0 (RExp XThunkCall)) true (RExp XThunkCall)) own]
    else own in
  if is_module && sub c E_after_module_stmt
  then expanded ++ [FEmit E_after_module_stmt n (Some (RExp (XLoadSaved n))) None]
  else expanded.

Definition finstr_module0 (body : list fstmt) : list fstmt :=
  (if sub c E_init_module then [FEmit E_init_module 0 None None] else [])
  ++ flat_map (fis true) body
  ++ (if sub c E_exit_module then [FEmit E_exit_module 0 None None] else []).
End Instr.

(* a module docstring stays as written and first (as in FragSem.tdoc / trest) *)
Definition fdoc (body : list fstmt) : list fstmt := match body with d :: _ => if is_docstring d then [d] else [] | [] => [] end.
Definition frest (body : list fstmt) : list fstmt := match body with d :: rest => if is_docstring d then rest else body | [] => [] end.
Definition finstr_module (c : rcfg) (ge : bool) (body : list fstmt) : list fstmt := fdoc body ++ finstr_module0 c ge (frest body).

(* ---------------------------------------------------------------- the definitions of a program, scoping *)
Fixpoint find_def (n : N) (s : fstmt) {struct s} : option (list N * list fstmt) :=
  match s with
  | FDef m _ ps body => if N.eqb m n then Some (ps, body) else None
  | FBefore _ _ own =>
      (fix go (u : list fstmt) : option (list N * list fstmt) :=
         match u with [] => None | x :: u' => match find_def n x with Some d => Some d | None => go u' end end) own
  | _ => None
  end.
Fixpoint defs_of (body : list fstmt) (n : N) : option (list N * list fstmt) :=
  match body with [] => None | x :: u => match find_def n x with Some d => Some d | None => defs_of u n end end.

(* the names a function body assigns: local to the function, together with its parameters.  For the try/except the rewriter puts
   around a body the names are read off the pristine copy in the handler: the instrumented copy assigns no other name
   (proofs/FragFunProofs.v, `assigned_fis`), so this is the set Python's compiler computes for the whole definition *)
Fixpoint assigned (s : fstmt) {struct s} : list N :=
  let al := fix al (u : list fstmt) : list N := match u with [] => [] | x :: u' => assigned x ++ al u' end in
  match s with
  | FAssign _ xs _ => xs
  | FIf _ _ b o => al b ++ al o
  | FDef _ name _ _ => [name]
  | FBefore _ tb own => al tb ++ al own
  | FGuardIf _ _ i p => al i ++ al p
  | FTry b fin => al b ++ al fin
  | FNameTry b p => al p
  | _ => []
  end.
Definition assigned_l (u : list fstmt) : list N := flat_map assigned u.
Definition scope : Set := option (list N).         (* None: module level; Some ls: in a function whose local names are ls *)
Definition look (sc : scope) (glob r : env) : env :=
  match sc with None => r | Some ls => fun x => if existsb (N.eqb x) ls then r x else glob x end.
Definition globs (sc : scope) (glob r : env) : env := match sc with None => r | Some _ => glob end.
Fixpoint bind (ps : list N) (vs : list val) (r : env) : env :=
  match ps, vs with p :: ps', v :: vs' => bind ps' vs' (upd r p v) | _, _ => r end.

(* ---------------------------------------------------------------- evaluation *)
Inductive fexc : Set := FX (e : exc) | FFuel | FRet (v : val).    (* a Python exception; call depth exhausted; `return` on its way to the call *)
Inductive rr : Set := ROk (v : val) | RErr (x : fexc).
Record fres : Set := { f_exc : option fexc; f_env : env; f_saved : val; f_log : list entry }.
Definition rr_of (q : res val) : rr := match q with Ok v => ROk v | Err e => RErr (FX e) end.
Definition emitted_r (e : event) (n : N) (q : rr) : list entry := match q with ROk v => [(e, n, Some v)] | RErr _ => [] end.
Definition call_result (x : option fexc) : rr :=
  match x with None => ROk VNone | Some (FRet v) => ROk v | Some x' => RErr x' end.
(* a call: callee (node of its def), argument values, globals, saved value, stream so far -> result, saved value, stream of the call *)
Definition callT : Type := N -> list val -> env -> val -> list entry -> rr * val * list entry.

(* the one builtin of the fragment: range(stop) / range(start, stop) on ints and bools *)
Definition int_like (v : val) : option Z := match v with VInt z => Some z | VBool b => Some (if b then 1 else 0)%Z | _ => None end.
Definition builtin_call (k : N) (vs : list val) : res val :=
  if N.eqb k 0 then
    match vs with
    | [v] => match int_like v with Some z => Ok (VRange 0 z) | None => Err ETypeError end
    | [v; w] => match int_like v, int_like w with Some a, Some b => Ok (VRange a b) | _, _ => Err ETypeError end
    | _ => Err ETypeError
    end
  else Err ETypeError.

Section Sem.
Variable binop : N -> val -> val -> res val.
Variable cmpop : N -> val -> val -> res bool.
Variable unop : N -> val -> res val.
Variable truth : val -> bool.
Variable cval : scalar -> val.
Variable is_and : N -> bool.
Variable c : rcfg.
Variable pol : list entry -> N -> bool.       (* from the stream delivered so far: is the guard of function n on *)

Notation eval_e := (eval_e binop cmpop unop truth cval is_and).
Notation ref_e := (ref_e binop cmpop unop truth cval is_and).
Definition fgon (pre : list entry) (g : N) : bool := pol (filter_log c pre) g.

Fixpoint eval_args (ba aa : bool) (args : list texpr) (lk : env) {struct args} : res (list val) * list entry :=
  match args with
  | [] => (Ok [], [])
  | a :: rest =>
      let lb := if ba then [(E_before_argument, xid a, None)] else [] in
      match eval_e a lk with
      | (Ok v, l) =>
          let la := if aa then [(E_after_argument, xid a, Some v)] else [] in
          match eval_args ba aa rest lk with
          | (Ok vs, l') => (Ok (v :: vs), lb ++ l ++ la ++ l')
          | (Err e, l') => (Err e, lb ++ l ++ la ++ l')
          end
      | (Err e, l) => (Err e, lb ++ l)
      end
  end.

Section WithCall.
Variable call : callT.

Fixpoint eval_r (lk glob : env) (r : rhs) (saved : val) (pre : list entry) {struct r} : rr * val * list entry :=
  match r with
  | RExp v => let '(q, l) := eval_e v lk in (rr_of q, saved, l)
  | RCall cn bc ba aa func args =>
      match eval_e func lk with
      | (Err e, lf) => (RErr (FX e), saved, lf)
      | (Ok vf, lf) =>
          let lb := if bc then [(E_before_call, cn, Some vf)] else [] in
          match eval_args ba aa args lk with
          | (Err e, la) => (RErr (FX e), saved, lf ++ lb ++ la)
          | (Ok vs, la) =>
              match vf with
              | VFun f => let '(q, sv, lc) := call f vs glob saved (pre ++ lf ++ lb ++ la) in (q, sv, lf ++ lb ++ la ++ lc)
              | VBuiltin k => (rr_of (builtin_call k vs), saved, lf ++ lb ++ la)
              | _ => (RErr (FX ETypeError), saved, lf ++ lb ++ la)
              end
          end
      end
  | REmit e n r' => let '(q, sv, l) := eval_r lk glob r' saved pre in (q, sv, l ++ emitted_r e n q)
  | RDef e n r' => let '(q, sv, l) := eval_r lk glob r' saved (pre ++ [(e, n, None)]) in (q, sv, (e, n, None) :: l)
  end.

Definition fseq (a : fres) (k : env -> val -> list entry -> fres) (pre : list entry) : fres :=
  match f_exc a with
  | Some _ => a
  | None => let b := k (f_env a) (f_saved a) (pre ++ f_log a) in
            {| f_exc := f_exc b; f_env := f_env b; f_saved := f_saved b; f_log := f_log a ++ f_log b |}
  end.
Definition fexc_of (q : rr) : option fexc := match q with ROk _ => None | RErr x => Some x end.

Fixpoint fexec_s (sc : scope) (glob : env) (s : fstmt) (r : env) (saved : val) (pre : list entry) {struct s} : fres :=
  let exec_l := fix exec_l (u : list fstmt) (r : env) (saved : val) (pre : list entry) {struct u} : fres :=
                  match u with
                  | [] => {| f_exc := None; f_env := r; f_saved := saved; f_log := [] |}
                  | x :: u' => fseq (fexec_s sc glob x r saved pre) (exec_l u') pre
                  end in
  match s with
  | FExpr _ v =>
      let '(q, sv, l) := eval_r (look sc glob r) (globs sc glob r) v saved pre in
      {| f_exc := fexc_of q; f_env := r; f_saved := sv; f_log := l |}
  | FAssign _ xs v =>
      let '(q, sv, l) := eval_r (look sc glob r) (globs sc glob r) v saved pre in
      match q with
      | ROk x => {| f_exc := None; f_env := fold_left (fun r' y => upd r' y x) xs r; f_saved := sv; f_log := l |}
      | RErr e => {| f_exc := Some e; f_env := r; f_saved := sv; f_log := l |}
      end
  | FPass _ => {| f_exc := None; f_env := r; f_saved := saved; f_log := [] |}
  | FIf _ t b o =>
      let '(q, l) := eval_e t (look sc glob r) in
      match q with
      | Ok vt => let a := exec_l (if truth vt then b else o) r saved (pre ++ l) in
                 {| f_exc := f_exc a; f_env := f_env a; f_saved := f_saved a; f_log := l ++ f_log a |}
      | Err e => {| f_exc := Some (FX e); f_env := r; f_saved := saved; f_log := l |}
      end
  | FReturn _ None => {| f_exc := Some (FRet VNone); f_env := r; f_saved := saved; f_log := [] |}
  | FReturn _ (Some v) =>
      let '(q, sv, l) := eval_r (look sc glob r) (globs sc glob r) v saved pre in
      {| f_exc := Some (match q with ROk x => FRet x | RErr e => e end); f_env := r; f_saved := sv; f_log := l |}
  | FDef n name _ _ => {| f_exc := None; f_env := upd r name (VFun n); f_saved := saved; f_log := [] |}
  | FEmit e n None _ =>
      {| f_exc := None; f_env := r; f_saved := (if event_eqb e E_after_stmt then VNone else saved); f_log := [(e, n, Some VNone)] |}
  | FEmit e n (Some (RExp (XLoadSaved _))) _ =>
      {| f_exc := None; f_env := r; f_saved := VNone; f_log := [(e, n, Some saved)] |}
  | FEmit e n (Some v) _ =>
      let '(q, sv, l) := eval_r (look sc glob r) (globs sc glob r) v saved pre in
      match q with
      | ROk x => {| f_exc := None; f_env := r; f_saved := (if event_eqb e E_after_stmt then x else sv); f_log := l ++ [(e, n, Some x)] |}
      | RErr x => {| f_exc := Some x; f_env := r; f_saved := sv; f_log := l |}
      end
  | FBefore n _ own =>
      let a := exec_l own r saved (pre ++ [(E_before_stmt, n, Some VNone)]) in
      {| f_exc := f_exc a; f_env := f_env a; f_saved := f_saved a; f_log := (E_before_stmt, n, Some VNone) :: f_log a |}
  | FGuardIf g before i p =>
      if fgon pre g then
        match before with
        | Some n => let a := exec_l i r saved (pre ++ [(E_before_function_body, n, Some (cval (SBool true)))]) in
                    {| f_exc := f_exc a; f_env := f_env a; f_saved := f_saved a; f_log := (E_before_function_body, n, Some (cval (SBool true))) :: f_log a |}
        | None => exec_l i r saved pre
        end
      else exec_l p r saved pre
  | FTry b fin =>
      let a := exec_l b r saved pre in
      let z := exec_l fin (f_env a) (f_saved a) (pre ++ f_log a) in
      {| f_exc := match f_exc z with Some x => Some x | None => f_exc a end;
         f_env := f_env z; f_saved := f_saved z; f_log := f_log a ++ f_log z |}
  | FNameTry b _ => exec_l b r saved pre          (* the handler re-raises: see the modelling assumption in the header *)
  end.

Definition fexec_l (sc : scope) (glob : env) := fix exec_l (u : list fstmt) (r : env) (saved : val) (pre : list entry) {struct u} : fres :=
  match u with
  | [] => {| f_exc := None; f_env := r; f_saved := saved; f_log := [] |}
  | x :: u' => fseq (fexec_s sc glob x r saved pre) (exec_l u') pre
  end.
End WithCall.

(* the call itself: a fresh frame, parameters bound, Python's scoping; arity mismatch and unknown callee are TypeErrors *)
Definition do_call (ftab : N -> option (list N * list fstmt)) (inner : callT) : callT :=
  fun f vs glob saved pre =>
    match ftab f with
    | None => (RErr (FX ETypeError), saved, [])
    | Some (ps, body) =>
        if Nat.eqb (length ps) (length vs) then
          let a := fexec_l inner (Some (ps ++ assigned_l body)) glob body (bind ps vs (fun _ => None)) saved pre in
          (call_result (f_exc a), f_saved a, f_log a)
        else (RErr (FX ETypeError), saved, [])
    end.
Fixpoint fcall (ftab : N -> option (list N * list fstmt)) (d : nat) {struct d} : callT :=
  match d with
  | O => fun _ _ _ saved _ => (RErr FFuel, saved, [])
  | S d' => do_call ftab (fcall ftab d')
  end.
Definition frun (d : nat) (body : list fstmt) (r : env) (saved : val) : fres :=
  fexec_l (fcall (defs_of body) d) None (fun _ => None) body r saved [].

(* ---------------------------------------------------------------- the reference: source semantics + the event stream, gated by the function guards *)
Variable ge : bool.
Record frres : Set := { fr_exc : option fexc; fr_env : env; fr_log : list entry }.
Definition callR : Type := N -> list val -> env -> list entry -> rr * list entry.
Definition frseq (a : frres) (k : env -> list entry -> frres) (pre : list entry) : frres :=
  match fr_exc a with
  | Some _ => a
  | None => let b := k (fr_env a) (pre ++ fr_log a) in {| fr_exc := fr_exc b; fr_env := fr_env b; fr_log := fr_log a ++ fr_log b |}
  end.
Definition fsay (quiet : bool) (l : list entry) : list entry := if quiet then [] else l.

Fixpoint ref_args (quiet : bool) (args : list texpr) (lk : env) {struct args} : res (list val) * list entry :=
  match args with
  | [] => (Ok [], [])
  | a :: rest =>
      match ref_e a lk with
      | (Ok v, l) =>
          let here := fsay quiet ((E_before_argument, xid a, None) :: l ++ [(E_after_argument, xid a, Some v)]) in
          match ref_args quiet rest lk with
          | (Ok vs, l') => (Ok (v :: vs), here ++ l')
          | (Err e, l') => (Err e, here ++ l')
          end
      | (Err e, l) => (Err e, fsay quiet ((E_before_argument, xid a, None) :: l))
      end
  end.

Section WithCallR.
Variable callr : callR.

(* quiet: inside the pristine copy of a function body nothing is emitted -- except by the functions it calls *)
Definition ref_r (quiet : bool) (lk glob : env) (r : rhs) (pre : list entry) : rr * list entry :=
  match r with
  | RExp v => let '(q, l) := ref_e v lk in (rr_of q, fsay quiet l)
  | RCall cn _ _ _ func args =>
      let l0 := fsay quiet [(E_before_load_complex_symbol, cn, None)] in
      match ref_e func lk with
      | (Err e, lf) => (RErr (FX e), l0 ++ fsay quiet lf)
      | (Ok vf, lf) =>
          let l1 := l0 ++ fsay quiet (lf ++ [(E_before_call, cn, Some vf)]) in
          match ref_args quiet args lk with
          | (Err e, la) => (RErr (FX e), l1 ++ la)
          | (Ok vs, la) =>
              match vf with
              | VFun f => let '(q, lc) := callr f vs glob (pre ++ l1 ++ la) in
                          (q, l1 ++ la ++ lc ++ fsay quiet (emitted_r E_after_call cn q ++ emitted_r E_after_load_complex_symbol cn q))
              | VBuiltin k => let q := rr_of (builtin_call k vs) in
                              (q, l1 ++ la ++ fsay quiet (emitted_r E_after_call cn q ++ emitted_r E_after_load_complex_symbol cn q))
              | _ => (RErr (FX ETypeError), l1 ++ la)
              end
          end
      end
  | _ => (RErr (FX ETypeError), [])
  end.

Fixpoint fref_s (quiet is_module : bool) (sc : scope) (glob : env) (s : fstmt) (r : env) (pre : list entry) {struct s} : frres :=
  let ref_l := fix ref_l (u : list fstmt) (r : env) (pre : list entry) {struct u} : frres :=
                 match u with
                 | [] => {| fr_exc := None; fr_env := r; fr_log := [] |}
                 | x :: u' => frseq (fref_s quiet false sc glob x r pre) (ref_l u') pre
                 end in
  let say := fsay quiet in
  let n := fid s in
  let pre0 := pre ++ say [(E_before_stmt, n, Some VNone)] in
  let body : option fexc * env * list entry * val :=
    match s with
    | FExpr _ v => let '(q, l) := ref_r quiet (look sc glob r) (globs sc glob r) v pre0 in
                   (fexc_of q, r, l ++ say (emitted_r E_after_expr_stmt n q), match q with ROk x => x | RErr _ => VNone end)
    | FAssign _ xs v =>
        let '(q, l) := ref_r quiet (look sc glob r) (globs sc glob r) v (pre0 ++ say [(E_before_assign_rhs, rid v, None)]) in
        (fexc_of q, match q with ROk x => fold_left (fun r' y => upd r' y x) xs r | RErr _ => r end,
         say [(E_before_assign_rhs, rid v, None)] ++ l ++ say (emitted_r E_after_assign_rhs (rid v) q), VNone)
    | FPass _ => (None, r, [], VNone)
    | FIf _ t b o =>
        let '(q, l) := ref_e t (look sc glob r) in
        match q with
        | Ok vt => let l1 := say (l ++ [(E_after_if_test, n, Some vt)]) in
                   let a := ref_l (if truth vt then b else o) r (pre0 ++ l1) in
                   (fr_exc a, fr_env a, l1 ++ fr_log a, VNone)
        | Err e => (Some (FX e), r, say l, VNone)
        end
    | FReturn _ None => (Some (FRet VNone), r, [], VNone)
    | FReturn _ (Some v) =>
        let '(q, l) := ref_r quiet (look sc glob r) (globs sc glob r) v (pre0 ++ say [(E_before_return, rid v, None)]) in
        (Some (match q with ROk x => FRet x | RErr e => e end), r,
         say [(E_before_return, rid v, None)] ++ l ++ say (emitted_r E_after_return (rid v) q), VNone)
    | FDef n name _ _ => (None, upd r name (VFun n), [], VNone)
    | _ => (Some (FX ETypeError), r, [], VNone)
    end in
  let '(x, r', l, v) := body in
  let after_value := if is_module then v else VNone in
  {| fr_exc := x; fr_env := r';
     fr_log := say [(E_before_stmt, n, Some VNone)] ++ l ++
               match x with
               | Some _ => []
               | None => say ((E_after_stmt, n, Some after_value) :: (if is_module then [(E_after_module_stmt, n, Some after_value)] else []))
               end |}.

Definition fref_l (quiet is_module : bool) (sc : scope) (glob : env) := fix ref_l (u : list fstmt) (r : env) (pre : list entry) {struct u} : frres :=
  match u with
  | [] => {| fr_exc := None; fr_env := r; fr_log := [] |}
  | x :: u' => frseq (fref_s quiet is_module sc glob x r pre) (ref_l u') pre
  end.
End WithCallR.

(* a function runs instrumented when its guard is on as it is entered (always, with global guards disabled);
   after_function_execution closes an instrumented run, also when it raises *)
Definition do_callr (ftab : N -> option (list N * list fstmt)) (inner : callR) : callR :=
  fun f vs glob pre =>
    match ftab f with
    | None => (RErr (FX ETypeError), [])
    | Some (ps, body) =>
        if Nat.eqb (length ps) (length vs) then
          let loud := negb ge || fgon pre f in
          let lb := if loud then [(E_before_function_body, f, Some (cval (SBool true)))] else [] in
          let a := fref_l inner (negb loud) false (Some (ps ++ assigned_l body)) glob body (bind ps vs (fun _ => None)) (pre ++ lb) in
          (call_result (fr_exc a), lb ++ fr_log a ++ (if loud then [(E_after_function_execution, f, Some VNone)] else []))
        else (RErr (FX ETypeError), [])
    end.
Fixpoint fcallr (ftab : N -> option (list N * list fstmt)) (d : nat) {struct d} : callR :=
  match d with
  | O => fun _ _ _ _ => (RErr FFuel, [])
  | S d' => do_callr ftab (fcallr ftab d')
  end.

Definition fref_module0 (d : nat) (body : list fstmt) (r : env) : frres :=
  let a := fref_l (fcallr (defs_of body) d) false true None (fun _ => None) body r [(E_init_module, 0, Some VNone)] in
  {| fr_exc := fr_exc a; fr_env := fr_env a;
     fr_log := (E_init_module, 0, Some VNone) :: fr_log a ++ match fr_exc a with None => [(E_exit_module, 0, Some VNone)] | Some _ => [] end |}.
Definition fref_module (d : nat) (body : list fstmt) (r : env) : frres := fref_module0 d (frest body) r.
End Sem.
