(* Proofs about model/FragFun.v: the instrumented program, run under any schedule of function-guard activations, computes what the
   source computes and delivers the reference stream gated by the guards (DESIGN 3, "FragFun"). *)
From Coq Require Import List ZArith NArith Bool Lia.
Import ListNotations.
From PyccoloV Require Import gen.PyAst gen.Ids gen.Events model.Tree model.Erase model.RwFrag model.FragSem model.FragFun
  proofs.RwFragProj proofs.FragSemProofs.
Local Open Scope N_scope.

(* ---------------------------------------------------------------- source programs *)
Definition src_r (r : rhs) : bool :=
  match r with
  | RExp v => src_e v
  | RCall _ bc ba aa (XName _ _) args => negb bc && negb ba && negb aa && forallb src_e args
  | _ => false
  end.
(* statements of a function body / below the top level: no definitions *)
Fixpoint fsrc_b (s : fstmt) : bool :=
  match s with
  | FExpr _ r | FAssign _ _ r => src_r r
  | FPass _ => true
  | FIf _ t b o => src_e t && forallb fsrc_b b && forallb fsrc_b o
  | FReturn _ None => true
  | FReturn _ (Some r) => src_r r
  | _ => false
  end.
(* statements of the module body *)
Definition fsrc_t (s : fstmt) : bool := match s with FDef _ _ _ body => forallb fsrc_b body | _ => fsrc_b s end.

Section IndF.
Variable P : fstmt -> Prop.
Hypothesis HExpr : forall n v, P (FExpr n v).
Hypothesis HAssign : forall n xs v, P (FAssign n xs v).
Hypothesis HPass : forall n, P (FPass n).
Hypothesis HIf : forall n t b o, Forall P b -> Forall P o -> P (FIf n t b o).
Hypothesis HReturn : forall n v, P (FReturn n v).
Hypothesis HDef : forall n name ps body, Forall P body -> P (FDef n name ps body).
Hypothesis HEmit : forall e n v g, P (FEmit e n v g).
Hypothesis HBefore : forall n tb own, Forall P tb -> Forall P own -> P (FBefore n tb own).
Hypothesis HGuardIf : forall g before i p, Forall P i -> Forall P p -> P (FGuardIf g before i p).
Hypothesis HTry : forall b fin, Forall P b -> Forall P fin -> P (FTry b fin).
Hypothesis HNameTry : forall b p, Forall P b -> Forall P p -> P (FNameTry b p).
Fixpoint fstmt_ind' (s : fstmt) : P s :=
  let go := fix go (u : list fstmt) : Forall P u := match u with [] => Forall_nil P | x :: u' => Forall_cons x (fstmt_ind' x) (go u') end in
  match s with
  | FExpr n v => HExpr n v
  | FAssign n xs v => HAssign n xs v
  | FPass n => HPass n
  | FIf n t b o => HIf n t b o (go b) (go o)
  | FReturn n v => HReturn n v
  | FDef n name ps body => HDef n name ps body (go body)
  | FEmit e n v g => HEmit e n v g
  | FBefore n tb own => HBefore n tb own (go tb) (go own)
  | FGuardIf g before i p => HGuardIf g before i p (go i) (go p)
  | FTry b fin => HTry b fin (go b) (go fin)
  | FNameTry b p => HNameTry b p (go b) (go p)
  end.
End IndF.

Lemma xid_ie c t : src_e t = true -> xid (ie c t) = xid t.
Proof.
  destruct t; intros Hs; try discriminate Hs; cbn [ie xid]; unfold wrap.
  - destruct (sub c E_load_name); reflexivity.
  - destruct (const_ev c0) as [e|]; [destruct (sub c e)|]; reflexivity.
  - destruct (sub c E_after_binop); [reflexivity|]. destruct (sub c E_before_binop); reflexivity.
  - destruct (sub c E_after_compare); [reflexivity|]. destruct (sub c E_before_compare); [|reflexivity].
    destruct (map _ comps); reflexivity.
  - reflexivity.
  - reflexivity.
  - reflexivity.
Qed.

Section FunProofs.
Variable binop : N -> val -> val -> res val.
Variable cmpop : N -> val -> val -> res bool.
Variable unop : N -> val -> res val.
Variable truth : val -> bool.
Variable cval : scalar -> val.
Variable is_and : N -> bool.
Variable c : rcfg.
Variable pol : list entry -> N -> bool.
Variable ge : bool.

Notation eval_e := (eval_e binop cmpop unop truth cval is_and).
Notation ref_e := (ref_e binop cmpop unop truth cval is_and).
Notation eval_args := (eval_args binop cmpop unop truth cval is_and).
Notation ref_args := (ref_args binop cmpop unop truth cval is_and).
Notation eval_r := (eval_r binop cmpop unop truth cval is_and).
Notation ref_r := (ref_r binop cmpop unop truth cval is_and).
Notation fexec_s := (fexec_s binop cmpop unop truth cval is_and c pol).
Notation fexec_l := (fexec_l binop cmpop unop truth cval is_and c pol).
Notation fref_s := (fref_s binop cmpop unop truth cval is_and).
Notation fref_l := (fref_l binop cmpop unop truth cval is_and).
Notation fgon := (fgon c pol).
Notation fl := (filter_log c).

Lemma fl_app a b : fl (a ++ b) = fl a ++ fl b.
Proof. apply filter_app. Qed.
Lemma fl_cons e n v l : fl ((e, n, v) :: l) = (if sub c e then [(e, n, v)] else []) ++ fl l.
Proof. unfold filter_log. cbn [filter fst]. destruct (sub c e); reflexivity. Qed.
Lemma fl_nil : fl [] = [].
Proof. reflexivity. Qed.
Lemma fl_single e n v : fl [(e, n, v)] = if sub c e then [(e, n, v)] else [].
Proof. unfold filter_log. cbn [filter fst]. destruct (sub c e); reflexivity. Qed.
Lemma fl_idem l : fl (fl l) = fl l.
Proof. unfold filter_log. induction l as [|x l IH]; [reflexivity|]. cbn [filter]. destruct (sub c (fst (fst x))) eqn:E; cbn [filter]; rewrite ?E, IH; reflexivity. Qed.
Lemma fl_if (b : bool) x y : fl (if b then x else y) = if b then fl x else fl y.
Proof. destruct b; reflexivity. Qed.
Lemma fl_emitted_r e n q : fl (emitted_r e n q) = if sub c e then emitted_r e n q else [].
Proof. destruct q; cbn [emitted_r]; [rewrite fl_single|rewrite fl_nil]; destruct (sub c e); reflexivity. Qed.
Lemma fl_emitted e n q : fl (emitted e n q) = if sub c e then emitted e n q else [].
Proof. destruct q; cbn [emitted]; [rewrite fl_single|rewrite fl_nil]; destruct (sub c e); reflexivity. Qed.
Lemma fgon_fl p p' g : fl p = fl p' -> fgon p g = fgon p' g.
Proof. unfold FragFun.fgon. intros ->. reflexivity. Qed.
Lemma fl_pre p p' a b : fl p = fl p' -> fl a = fl b -> fl (p ++ a) = fl (p' ++ b).
Proof. intros H1 H2. rewrite !fl_app, H1, H2. reflexivity. Qed.
Lemma fl_fsay q l : fl (fsay q l) = fsay q (fl l).
Proof. destruct q; reflexivity. Qed.

Lemma eval_src t r : src_e t = true -> eval_e t r = (fst (ref_e t r), []).
Proof.
  intros Hs. pose proof (eval_ie binop cmpop unop truth cval is_and no_events t Hs r) as H.
  rewrite (ie_none no_events (fun _ => eq_refl) t Hs) in H. rewrite H. f_equal.
  generalize (snd (ref_e t r)). intros l. unfold filter_log. induction l as [|x l IH]; [reflexivity|exact IH].
Qed.

Ltac flags := repeat match goal with |- context [sub c ?e] => destruct (sub c e) end.
Ltac norm := cbn [app emitted emitted_r fst snd]; repeat first [rewrite fl_app | rewrite fl_cons | rewrite fl_nil | rewrite fl_emitted | rewrite fl_emitted_r | rewrite fl_idem | rewrite fl_if];
             rewrite ?app_nil_r; cbn [app emitted emitted_r fst snd].
Ltac fin := norm; flags; cbn [app emitted emitted_r fst snd]; rewrite ?app_nil_r; repeat rewrite <- app_assoc; cbn [app]; repeat rewrite <- app_assoc; reflexivity.

(* ================================================================ arguments *)
Lemma args_loud args lk : forallb src_e args = true ->
  eval_args (sub c E_before_argument) (sub c E_after_argument) (map (ie c) args) lk = (fst (ref_args false args lk), fl (snd (ref_args false args lk))).
Proof.
  induction args as [|a rest IH]; intros Hs; [reflexivity|].
  cbn [forallb] in Hs. apply andb_true_iff in Hs as [Ha Hr]. specialize (IH Hr).
  cbn [map FragFun.eval_args FragFun.ref_args]. rewrite IH, (xid_ie c a Ha), (eval_ie _ _ _ _ _ _ c a Ha lk).
  destruct (ref_e a lk) as [[v|e] l]; cbn [fst snd fsay].
  - destruct (ref_args false rest lk) as [[vs|e] l']; cbn [fst snd]; f_equal; fin.
  - f_equal. fin.
Qed.

Lemma args_quiet args lk : forallb src_e args = true ->
  eval_args false false args lk = (fst (ref_args true args lk), []) /\ snd (ref_args true args lk) = [].
Proof.
  induction args as [|a rest IH]; intros Hs; [split; reflexivity|].
  cbn [forallb] in Hs. apply andb_true_iff in Hs as [Ha Hr]. destruct (IH Hr) as [I1 I2].
  cbn [FragFun.eval_args FragFun.ref_args]. rewrite I1, (eval_src a lk Ha).
  destruct (ref_e a lk) as [[v|e] l]; cbn [fst snd fsay app].
  - destruct (ref_args true rest lk) as [[vs|e] l']; cbn [fst snd] in *; subst; split; reflexivity.
  - split; reflexivity.
Qed.

(* ================================================================ right-hand sides, given calls that agree *)
Definition rsim (x : rr * val * list entry) (y : rr * list entry) : Prop := fst (fst x) = fst y /\ fl (snd x) = fl (snd y).
Definition call_sim (call : callT) (callr : callR) : Prop :=
  forall f vs glob sv p p', fl p = fl p' -> rsim (call f vs glob sv p) (callr f vs glob p').

Section WithCalls.
Variable call : callT.
Variable callr : callR.
Hypothesis call_ok : call_sim call callr.

Lemma eval_wrapR e n r lk glob sv p :
  eval_r call lk glob (wrapR c e n r) sv p =
  let '(q, sv', l) := eval_r call lk glob r sv p in (q, sv', l ++ if sub c e then emitted_r e n q else []).
Proof.
  unfold wrapR. destruct (sub c e); cbn [FragFun.eval_r].
  - reflexivity.
  - destruct (eval_r call lk glob r sv p) as [[q sv'] l]. rewrite app_nil_r. reflexivity.
Qed.

Lemma eval_defR e n r lk glob sv p : exists p2, fl p2 = fl (p ++ [(e, n, None)]) /\
  eval_r call lk glob (defR c e n r) sv p =
  let '(q, sv', l) := eval_r call lk glob r sv p2 in (q, sv', (if sub c e then [(e, n, None)] else []) ++ l).
Proof.
  unfold defR. destruct (sub c e) eqn:E.
  - exists (p ++ [(e, n, None)]). split; [reflexivity|]. cbn [FragFun.eval_r]. reflexivity.
  - exists p. split; [rewrite fl_app, fl_single, E, app_nil_r; reflexivity|].
    destruct (eval_r call lk glob r sv p) as [[q sv'] l]. reflexivity.
Qed.

Lemma rhs_loud r : src_r r = true -> forall lk glob sv p p', fl p = fl p' ->
  rsim (eval_r call lk glob (ir c r) sv p) (ref_r callr false lk glob r p').
Proof.
  intros Hs lk glob sv p p' Hp. destruct r as [v|cn bc ba aa func args| |]; try discriminate Hs.
  - cbn [src_r] in Hs. cbn [ir FragFun.eval_r FragFun.ref_r]. rewrite (eval_ie _ _ _ _ _ _ c v Hs lk).
    destruct (ref_e v lk) as [q l]. cbn [fst snd fsay]. split; [reflexivity|apply fl_idem].
  - destruct func as [nf f| | | | | | | | | | | |]; try discriminate Hs. cbn [src_r] in Hs.
    apply andb_true_iff in Hs as [Hs Ha]. clear Hs.
    cbn [ir]. rewrite eval_wrapR. destruct (eval_defR E_before_load_complex_symbol cn
      (wrapR c E_after_call cn (RCall cn (sub c E_before_call) (sub c E_before_argument) (sub c E_after_argument) (ie c (XName nf f)) (map (ie c) args)))
      lk glob sv p) as (p2 & Hp2 & ->).
    rewrite eval_wrapR. cbn [FragFun.eval_r FragFun.ref_r].
    rewrite (eval_ie _ _ _ _ _ _ c (XName nf f) eq_refl lk), (args_loud args lk Ha).
    destruct (ref_e (XName nf f) lk) as [[vf|e] lf]; cbn [fst snd fsay].
    + destruct (ref_args false args lk) as [[vs|e] la]; cbn [fst snd].
      * destruct vf as [z|b| |s0|g|k|ra rb]; try (split; [reflexivity|fin]).
        assert (HP : fl (p2 ++ fl lf ++ (if sub c E_before_call then [(E_before_call, cn, Some (VFun g))] else []) ++ fl la) =
                     fl (p' ++ ([(E_before_load_complex_symbol, cn, None)] ++ lf ++ [(E_before_call, cn, Some (VFun g))]) ++ la)).
        { destruct (sub c E_before_call) eqn:E2; rewrite !fl_app, Hp2, !fl_app, Hp, !fl_idem, ?fl_single, ?fl_nil, ?E2; cbn [app];
            rewrite <- ?app_assoc, ?app_nil_r; reflexivity. }
        destruct (call_ok g vs glob sv _ _ HP) as [C1 C2].
        destruct (call g vs glob sv _) as [[q sv'] lc]. destruct (callr g vs glob _) as [q' lc']. cbn [fst snd] in C1, C2. subst q'.
        split; [reflexivity|]. cbn [fst snd]. rewrite !fl_app, C2. fin.
      * split; [reflexivity|fin].
    + split; [reflexivity|fin].
Qed.

Lemma rhs_quiet r : src_r r = true -> forall lk glob sv p p', fl p = fl p' ->
  rsim (eval_r call lk glob r sv p) (ref_r callr true lk glob r p').
Proof.
  intros Hs lk glob sv p p' Hp. destruct r as [v|cn bc ba aa func args| |]; try discriminate Hs.
  - cbn [src_r] in Hs. cbn [FragFun.eval_r FragFun.ref_r]. rewrite (eval_src v lk Hs).
    destruct (ref_e v lk) as [q l]. cbn [fst snd fsay]. split; reflexivity.
  - destruct func as [nf f| | | | | | | | | | | |]; try discriminate Hs. cbn [src_r] in Hs.
    apply andb_true_iff in Hs as [Hs Ha]. apply andb_true_iff in Hs as [Hs Haa]. apply andb_true_iff in Hs as [Hbc Hba].
    apply negb_true_iff in Hbc, Hba, Haa. subst bc ba aa.
    cbn [FragFun.eval_r FragFun.ref_r]. rewrite (eval_src (XName nf f) lk eq_refl).
    destruct (args_quiet args lk Ha) as [A1 A2]. rewrite A1.
    destruct (ref_e (XName nf f) lk) as [[vf|e] lf]; cbn [fst snd fsay app].
    + destruct (ref_args true args lk) as [[vs|e] la]; cbn [fst snd] in *; subst la.
      * destruct vf as [z|b| |s0|g|k|ra rb]; try (split; reflexivity).
        assert (HP : fl (p ++ [] ++ [] ++ []) = fl (p' ++ [] ++ [])) by (cbn [app]; rewrite !app_nil_r; exact Hp).
        destruct (call_ok g vs glob sv _ _ HP) as [C1 C2].
        destruct (call g vs glob sv _) as [[q sv'] lc]. destruct (callr g vs glob _) as [q' lc']. cbn [fst snd] in C1, C2. subst q'.
        split; [reflexivity|]. cbn [fst snd app]. rewrite app_nil_r. exact C2.
      * split; reflexivity.
    + split; reflexivity.
Qed.

(* ================================================================ statements: unfolding *)
Notation X_s := (fexec_s call).
Notation X_l := (fexec_l call).
Notation R_s := (fref_s callr).
Notation R_l := (fref_l callr).

Lemma fexec_l_cons sc glob x u r sv pre : X_l sc glob (x :: u) r sv pre = fseq (X_s sc glob x r sv pre) (X_l sc glob u) pre.
Proof. reflexivity. Qed.
Lemma fexec_l_nil sc glob r sv pre : X_l sc glob [] r sv pre = {| f_exc := None; f_env := r; f_saved := sv; f_log := [] |}.
Proof. reflexivity. Qed.
Lemma fexec_FIf sc glob n t b o r sv pre :
  X_s sc glob (FIf n t b o) r sv pre =
  let '(q, l) := eval_e t (look sc glob r) in
  match q with
  | Ok vt => let a := X_l sc glob (if truth vt then b else o) r sv (pre ++ l) in
             {| f_exc := f_exc a; f_env := f_env a; f_saved := f_saved a; f_log := l ++ f_log a |}
  | Err e => {| f_exc := Some (FX e); f_env := r; f_saved := sv; f_log := l |}
  end.
Proof. reflexivity. Qed.
Lemma fexec_FBefore sc glob n tb own r sv pre :
  X_s sc glob (FBefore n tb own) r sv pre =
  let a := X_l sc glob own r sv (pre ++ [(E_before_stmt, n, Some VNone)]) in
  {| f_exc := f_exc a; f_env := f_env a; f_saved := f_saved a; f_log := (E_before_stmt, n, Some VNone) :: f_log a |}.
Proof. reflexivity. Qed.
Lemma fexec_FGuardIf sc glob g before i p r sv pre :
  X_s sc glob (FGuardIf g before i p) r sv pre =
  if fgon pre g then
    match before with
    | Some n => let a := X_l sc glob i r sv (pre ++ [(E_before_function_body, n, Some (cval (SBool true)))]) in
                {| f_exc := f_exc a; f_env := f_env a; f_saved := f_saved a; f_log := (E_before_function_body, n, Some (cval (SBool true))) :: f_log a |}
    | None => X_l sc glob i r sv pre
    end
  else X_l sc glob p r sv pre.
Proof. reflexivity. Qed.
Lemma fexec_FTry sc glob b fin r sv pre :
  X_s sc glob (FTry b fin) r sv pre =
  let a := X_l sc glob b r sv pre in
  let z := X_l sc glob fin (f_env a) (f_saved a) (pre ++ f_log a) in
  {| f_exc := match f_exc z with Some x => Some x | None => f_exc a end; f_env := f_env z; f_saved := f_saved z; f_log := f_log a ++ f_log z |}.
Proof. reflexivity. Qed.
Lemma fexec_FNameTry sc glob b p r sv pre : X_s sc glob (FNameTry b p) r sv pre = X_l sc glob b r sv pre.
Proof. reflexivity. Qed.

Lemma fexec_l_single sc glob x r sv pre : X_l sc glob [x] r sv pre = X_s sc glob x r sv pre.
Proof. rewrite fexec_l_cons. unfold fseq. cbn. destruct (X_s sc glob x r sv pre) as [[e|] r' sv' l]; cbn; rewrite ?app_nil_r; reflexivity. Qed.
Lemma fexec_l_app sc glob u w : forall r sv pre, X_l sc glob (u ++ w) r sv pre = fseq (X_l sc glob u r sv pre) (X_l sc glob w) pre.
Proof.
  induction u as [|x u IH]; intros r sv pre.
  - cbn [app]. unfold fseq. cbn. rewrite app_nil_r. destruct (X_l sc glob w r sv pre); reflexivity.
  - cbn [app]. rewrite !fexec_l_cons. unfold fseq at 1 3. destruct (f_exc (X_s sc glob x r sv pre)) eqn:E.
    + unfold fseq. rewrite E. reflexivity.
    + rewrite IH. unfold fseq. cbn [f_exc f_env f_saved f_log].
      destruct (f_exc (X_l sc glob u (f_env (X_s sc glob x r sv pre)) (f_saved (X_s sc glob x r sv pre)) (pre ++ f_log (X_s sc glob x r sv pre)))) eqn:E2;
        cbn [f_exc f_env f_saved f_log]; rewrite ?E2; [reflexivity|].
      rewrite !app_assoc. reflexivity.
Qed.

(* the reference, statement by statement *)
Definition fbody_of (quiet : bool) (sc : scope) (glob : env) (s : fstmt) (r : env) (pre0 : list entry) : option fexc * env * list entry * val :=
  let say := fsay quiet in
  let n := fid s in
  match s with
  | FExpr _ v => let '(q, l) := ref_r callr quiet (look sc glob r) (globs sc glob r) v pre0 in
                 (fexc_of q, r, l ++ say (emitted_r E_after_expr_stmt n q), match q with ROk x => x | RErr _ => VNone end)
  | FAssign _ xs v =>
      let '(q, l) := ref_r callr quiet (look sc glob r) (globs sc glob r) v (pre0 ++ say [(E_before_assign_rhs, rid v, None)]) in
      (fexc_of q, match q with ROk x => fold_left (fun r' y => upd r' y x) xs r | RErr _ => r end,
       say [(E_before_assign_rhs, rid v, None)] ++ l ++ say (emitted_r E_after_assign_rhs (rid v) q), VNone)
  | FPass _ => (None, r, [], VNone)
  | FIf _ t b o =>
      let '(q, l) := ref_e t (look sc glob r) in
      match q with
      | Ok vt => let l1 := say (l ++ [(E_after_if_test, n, Some vt)]) in
                 let a := R_l quiet false sc glob (if truth vt then b else o) r (pre0 ++ l1) in
                 (fr_exc a, fr_env a, l1 ++ fr_log a, VNone)
      | Err e => (Some (FX e), r, say l, VNone)
      end
  | FReturn _ None => (Some (FRet VNone), r, [], VNone)
  | FReturn _ (Some v) =>
      let '(q, l) := ref_r callr quiet (look sc glob r) (globs sc glob r) v (pre0 ++ say [(E_before_return, rid v, None)]) in
      (Some (match q with ROk x => FRet x | RErr e => e end), r,
       say [(E_before_return, rid v, None)] ++ l ++ say (emitted_r E_after_return (rid v) q), VNone)
  | FDef n name _ _ => (None, upd r name (VFun n), [], VNone)
  | _ => (Some (FX ETypeError), r, [], VNone)
  end.

Lemma fref_unfold quiet m sc glob s r pre : R_s quiet m sc glob s r pre =
  let '(x, r', l, v) := fbody_of quiet sc glob s r (pre ++ fsay quiet [(E_before_stmt, fid s, Some VNone)]) in
  let after_value := if m then v else VNone in
  {| fr_exc := x; fr_env := r';
     fr_log := fsay quiet [(E_before_stmt, fid s, Some VNone)] ++ l ++
               match x with
               | Some _ => []
               | None => fsay quiet ((E_after_stmt, fid s, Some after_value) :: (if m then [(E_after_module_stmt, fid s, Some after_value)] else []))
               end |}.
Proof. destruct s; reflexivity. Qed.

Lemma fref_l_cons quiet m sc glob x u r pre :
  R_l quiet m sc glob (x :: u) r pre = frseq (R_s quiet m sc glob x r pre) (R_l quiet m sc glob u) pre.
Proof. reflexivity. Qed.

Definition fsim (a : fres) (b : frres) : Prop := f_exc a = fr_exc b /\ f_env a = fr_env b /\ fl (f_log a) = fl (fr_log b).

(* ================================================================ the pristine copy: source semantics, only the callees speak *)
Definition fquiet_ok (s : fstmt) : Prop := fsrc_b s = true -> forall sc glob r sv p p', fl p = fl p' ->
  fsim (X_s sc glob s r sv p) (R_s true false sc glob s r p').

Lemma fquiet_list u : Forall fquiet_ok u -> forallb fsrc_b u = true -> forall sc glob r sv p p', fl p = fl p' ->
  fsim (X_l sc glob u r sv p) (R_l true false sc glob u r p').
Proof.
  induction 1 as [|x u Hx _ IH]; intros Hs sc glob r sv p p' Hp.
  - repeat split.
  - cbn [forallb] in Hs. apply andb_true_iff in Hs as [Hsx Hs]. rewrite fexec_l_cons, fref_l_cons.
    destruct (Hx Hsx sc glob r sv p p' Hp) as (E1 & E2 & E3). unfold fseq, frseq. rewrite E1.
    destruct (fr_exc (R_s true false sc glob x r p')) eqn:Ex.
    + unfold fsim. rewrite Ex. repeat split; assumption.
    + destruct (IH Hs sc glob (f_env (X_s sc glob x r sv p)) (f_saved (X_s sc glob x r sv p))
                  (p ++ f_log (X_s sc glob x r sv p)) (p' ++ fr_log (R_s true false sc glob x r p')) (fl_pre _ _ _ _ Hp E3)) as (F1 & F2 & F3).
      rewrite E2 in F1, F2, F3. unfold fsim. cbn [f_exc f_env f_log fr_exc fr_env fr_log]. rewrite E2. split; [exact F1|split; [exact F2|]].
      rewrite !fl_app, E3, F3. reflexivity.
Qed.

Theorem fquiet_stmt : forall s, fquiet_ok s.
Proof.
  induction s using fstmt_ind'; intros Hs sc glob r sv pa pb Hp; try discriminate Hs; cbn [fsrc_b] in Hs; rewrite fref_unfold; cbn [fsay app fid fbody_of].
  - (* expression statement *)
    assert (Hp0 : fl pa = fl (pb ++ [])) by (rewrite app_nil_r; exact Hp).
    destruct (rhs_quiet v Hs (look sc glob r) (globs sc glob r) sv pa _ Hp0) as [A1 A2]. cbn [FragFun.fexec_s].
    destruct (eval_r call _ _ v sv pa) as [[q sv'] l]. destruct (ref_r callr true _ _ v _) as [q' l']. cbn [fst snd] in A1, A2. subst q'.
    unfold fsim. cbn [f_exc f_env f_log fr_exc fr_env fr_log]. repeat split. rewrite !app_nil_r. destruct q; cbn [fexc_of]; rewrite ?app_nil_r; exact A2.
  - (* assignment *)
    assert (Hp0 : fl pa = fl ((pb ++ []) ++ [])) by (rewrite !app_nil_r; exact Hp).
    destruct (rhs_quiet v Hs (look sc glob r) (globs sc glob r) sv pa _ Hp0) as [A1 A2]. cbn [FragFun.fexec_s].
    destruct (eval_r call _ _ v sv pa) as [[q sv'] l]. destruct (ref_r callr true _ _ v _) as [q' l']. cbn [fst snd] in A1, A2. subst q'.
    unfold fsim. destruct q; cbn [f_exc f_env f_log fr_exc fr_env fr_log fexc_of app]; rewrite ?app_nil_r; repeat split; exact A2.
  - repeat split.
  - (* if *)
    apply andb_true_iff in Hs as [Hs Ho]. apply andb_true_iff in Hs as [Ht Hb].
    rewrite fexec_FIf, (eval_src t _ Ht). destruct (ref_e t (look sc glob r)) as [[vt|e] l]; cbn [fst snd].
    + unfold fsim. cbn [f_exc f_env f_log fr_exc fr_env fr_log app]. rewrite ?app_nil_r.
      assert (HB : fsim (X_l sc glob (if truth vt then b else o) r sv pa) (R_l true false sc glob (if truth vt then b else o) r pb)).
      { destruct (truth vt); [apply (fquiet_list b H Hb)|apply (fquiet_list o H0 Ho)]; exact Hp. }
      destruct HB as (B1 & B2 & B3).
      destruct (fr_exc (R_l true false sc glob (if truth vt then b else o) r pb)); repeat split; try assumption; rewrite ?app_nil_r; exact B3.
    + repeat split.
  - (* return *)
    destruct v as [v|]; [|repeat split].
    assert (Hp0 : fl pa = fl ((pb ++ []) ++ [])) by (rewrite !app_nil_r; exact Hp).
    destruct (rhs_quiet v Hs (look sc glob r) (globs sc glob r) sv pa _ Hp0) as [A1 A2]. cbn [FragFun.fexec_s].
    destruct (eval_r call _ _ v sv pa) as [[q sv'] l]. destruct (ref_r callr true _ _ v _) as [q' l']. cbn [fst snd] in A1, A2. subst q'.
    unfold fsim. cbn [f_exc f_env f_log fr_exc fr_env fr_log app]. rewrite !app_nil_r. repeat split. exact A2.
Qed.

(* ================================================================ the instrumented statements against the loud reference *)
Definition floud_ok (s : fstmt) : Prop := fsrc_t s = true -> forall m sc glob r sv p p', fl p = fl p' ->
  fsim (X_l sc glob (fis c ge m s) r sv p) (R_s false m sc glob s r p').

Lemma floud_list u : Forall floud_ok u -> forallb fsrc_t u = true -> forall m sc glob r sv p p', fl p = fl p' ->
  fsim (X_l sc glob (flat_map (fis c ge m) u) r sv p) (R_l false m sc glob u r p').
Proof.
  induction 1 as [|x u Hx _ IH]; intros Hs m sc glob r sv p p' Hp.
  - repeat split.
  - cbn [forallb] in Hs. apply andb_true_iff in Hs as [Hsx Hs].
    cbn [flat_map]. rewrite fexec_l_app, fref_l_cons.
    destruct (Hx Hsx m sc glob r sv p p' Hp) as (E1 & E2 & E3). unfold fseq, frseq. rewrite E1.
    destruct (fr_exc (R_s false m sc glob x r p')) eqn:Ex.
    + unfold fsim. rewrite Ex. repeat split; assumption.
    + destruct (IH Hs m sc glob (f_env (X_l sc glob (fis c ge m x) r sv p)) (f_saved (X_l sc glob (fis c ge m x) r sv p))
                  (p ++ f_log (X_l sc glob (fis c ge m x) r sv p)) (p' ++ fr_log (R_s false m sc glob x r p')) (fl_pre _ _ _ _ Hp E3)) as (F1 & F2 & F3).
      rewrite E2 in F1, F2, F3. unfold fsim. cbn [f_exc f_env f_log fr_exc fr_env fr_log]. rewrite E2. split; [exact F1|split; [exact F2|]].
      rewrite !fl_app, E3, F3. reflexivity.
Qed.

Lemma fsrc_b_t u : forallb fsrc_b u = true -> forallb fsrc_t u = true.
Proof.
  induction u as [|x u IH]; [reflexivity|]. cbn [forallb]. intros H. apply andb_true_iff in H as [Hx Hu]. rewrite (IH Hu), andb_true_r.
  destruct x; try exact Hx; discriminate Hx.
Qed.

Definition fmain_of (s : fstmt) : fstmt :=
  match s with
  | FExpr n r => FExpr n (wrapR c E_after_expr_stmt n (ir c r))
  | FAssign n xs r => FAssign n xs (wrapR c E_after_assign_rhs (rid r) (defR c E_before_assign_rhs (rid r) (ir c r)))
  | FIf n t b o => FIf n (wrap c E_after_if_test n (ie c t)) (flat_map (fis c ge false) b) (flat_map (fis c ge false) o)
  | FReturn n (Some r) => FReturn n (Some (wrapR c E_after_return (rid r) (defR c E_before_return (rid r) (ir c r))))
  | FDef n name ps body =>
      let b' := flat_map (fis c ge false) body in
      let with_after := if sub c E_after_function_execution
                        then [FTry b' [FEmit E_after_function_execution n None (Some (if ge then Some n else None))]]
                        else b' in
      FDef n name ps
        [FNameTry
           (if ge then [FGuardIf n (if sub c E_before_function_body then Some n else None) with_after body]
            else (if sub c E_before_function_body then [FEmit E_before_function_body n (Some (RExp (XConst 0 (SBool true)))) None] else []) ++ with_after)
           body]
  | other => other
  end.
Definition f_is_expr (s : fstmt) : bool := match s with FExpr _ _ => true | _ => false end.
Definition fmvalue (s : fstmt) : rhs := match fmain_of s with FExpr _ v => v | _ => RExp XThunkCall end.
Definition fwants (m : bool) : bool := sub c E_after_stmt || (sub c E_after_module_stmt && m).
Definition fown_of (m : bool) (s : fstmt) : list fstmt :=
  match s with
  | FReturn _ _ => [fmain_of s]
  | _ => fmain_and_after (fwants m) m (fid s) (fmain_of s) (f_is_expr s) (fmvalue s)
  end.
Definition fbst (s : fstmt) : entry := (E_before_stmt, fid s, Some VNone).
Definition fthunk_branch (m : bool) (s : fstmt) : list fstmt :=
  fmain_and_after (fwants m) m (fid s) (FExpr 0 (RExp XThunkCall)) true (RExp XThunkCall).

Lemma fis_unfold m s : fis c ge m s =
  let expanded := if sub c E_before_stmt then [FBefore (fid s) (fthunk_branch m s) (fown_of m s)] else fown_of m s in
  if m && sub c E_after_module_stmt then expanded ++ [FEmit E_after_module_stmt (fid s) (Some (RExp (XLoadSaved (fid s)))) None] else expanded.
Proof. destruct s; reflexivity. Qed.

Definition fmain_ok (s : fstmt) : Prop := forall sc glob r sv pm pr_, fl pm = fl (pr_ ++ [fbst s]) ->
  let A := X_s sc glob (fmain_of s) r sv pm in
  let '(x, r', l, v) := fbody_of false sc glob s r (pr_ ++ [fbst s]) in
  f_exc A = x /\ f_env A = r' /\ fl (f_log A) = fl l.

Lemma fmain_ok_expr n v : src_r v = true -> fmain_ok (FExpr n v).
Proof.
  intros Hs sc glob r sv pm pr_ Hp. cbn [fmain_of fbody_of FragFun.fexec_s fid fsay]. rewrite eval_wrapR.
  destruct (rhs_loud v Hs (look sc glob r) (globs sc glob r) sv pm _ Hp) as [A1 A2].
  destruct (eval_r call _ _ (ir c v) sv pm) as [[q sv'] l]. destruct (ref_r callr false _ _ v _) as [q' l']. cbn [fst snd] in A1, A2. subst q'.
  cbn [f_exc f_env f_log]. repeat split. rewrite !fl_app, A2. fin.
Qed.

Lemma fmain_ok_assign n xs v : src_r v = true -> fmain_ok (FAssign n xs v).
Proof.
  intros Hs sc glob r sv pm pr_ Hp. cbn [fmain_of fbody_of FragFun.fexec_s fid fsay]. rewrite eval_wrapR.
  destruct (eval_defR E_before_assign_rhs (rid v) (ir c v) (look sc glob r) (globs sc glob r) sv pm) as (p2 & Hp2 & ->).
  assert (HP : fl p2 = fl ((pr_ ++ [fbst (FAssign n xs v)]) ++ [(E_before_assign_rhs, rid v, None)])).
  { rewrite Hp2. apply fl_pre; [exact Hp|reflexivity]. }
  destruct (rhs_loud v Hs (look sc glob r) (globs sc glob r) sv p2 _ HP) as [A1 A2].
  destruct (eval_r call _ _ (ir c v) sv p2) as [[q sv'] l]. destruct (ref_r callr false _ _ v _) as [q' l']. cbn [fst snd] in A1, A2. subst q'.
  destruct q; cbn [f_exc f_env f_log fexc_of]; repeat split; rewrite !fl_app, A2; fin.
Qed.

Lemma fmain_ok_return n v : (match v with Some r => src_r r | None => true end) = true -> fmain_ok (FReturn n v).
Proof.
  intros Hs sc glob r sv pm pr_ Hp. destruct v as [v|]; [|cbn; repeat split].
  cbn [fmain_of fbody_of FragFun.fexec_s fid fsay]. rewrite eval_wrapR.
  destruct (eval_defR E_before_return (rid v) (ir c v) (look sc glob r) (globs sc glob r) sv pm) as (p2 & Hp2 & ->).
  assert (HP : fl p2 = fl ((pr_ ++ [fbst (FReturn n (Some v))]) ++ [(E_before_return, rid v, None)])).
  { rewrite Hp2. apply fl_pre; [exact Hp|reflexivity]. }
  destruct (rhs_loud v Hs (look sc glob r) (globs sc glob r) sv p2 _ HP) as [A1 A2].
  destruct (eval_r call _ _ (ir c v) sv p2) as [[q sv'] l]. destruct (ref_r callr false _ _ v _) as [q' l']. cbn [fst snd] in A1, A2. subst q'.
  cbn [f_exc f_env f_log]. repeat split; rewrite !fl_app, A2; fin.
Qed.

Lemma fmain_ok_pass n : fmain_ok (FPass n).
Proof. intros sc glob r sv pm pr_ _. cbn. repeat split. Qed.
Lemma fmain_ok_def n name ps body : fmain_ok (FDef n name ps body).
Proof. intros sc glob r sv pm pr_ _. cbn. repeat split. Qed.

Lemma fmain_ok_if n t b o : src_e t = true -> forallb fsrc_b b = true -> forallb fsrc_b o = true ->
  Forall floud_ok b -> Forall floud_ok o -> fmain_ok (FIf n t b o).
Proof.
  intros Ht Hb Ho Fb Fo sc glob r sv pm pr_ Hp. cbn [fmain_of fbody_of fid fsay]. rewrite fexec_FIf, eval_wrap, (eval_ie _ _ _ _ _ _ c t Ht).
  destruct (ref_e t (look sc glob r)) as [[vt|e] l]; cbn [fst snd emitted f_exc f_env f_log]; [|repeat split; fin].
  set (LT := fl l ++ (if sub c E_after_if_test then [(E_after_if_test, n, Some vt)] else [])).
  set (l1 := l ++ [(E_after_if_test, n, Some vt)]).
  assert (H1 : fl LT = fl l1) by (subst LT l1; fin).
  assert (Hq : fl (pm ++ LT) = fl ((pr_ ++ [fbst (FIf n t b o)]) ++ l1)) by (apply fl_pre; [exact Hp|exact H1]).
  assert (Hl : fsim (X_l sc glob (if truth vt then flat_map (fis c ge false) b else flat_map (fis c ge false) o) r sv (pm ++ LT))
                    (R_l false false sc glob (if truth vt then b else o) r ((pr_ ++ [fbst (FIf n t b o)]) ++ l1)))
    by (destruct (truth vt); [apply (floud_list b Fb (fsrc_b_t b Hb))|apply (floud_list o Fo (fsrc_b_t o Ho))]; exact Hq).
  destruct Hl as (E1 & E2 & E3). cbn [f_exc f_env f_log]. repeat split; try assumption.
  rewrite !fl_app, H1, E3. reflexivity.
Qed.

Lemma ie_not_load' v : src_e v = true -> forall k, ie c v <> XLoadSaved k.
Proof.
  intros Hs k. destruct v; try discriminate Hs; cbn [ie]; unfold wrap.
  - destruct (sub c E_load_name); discriminate.
  - destruct (const_ev c0) as [e|]; [destruct (sub c e)|]; discriminate.
  - destruct (sub c E_after_binop); [discriminate|]. destruct (sub c E_before_binop); discriminate.
  - destruct (sub c E_after_compare); [discriminate|]. destruct (sub c E_before_compare); [|discriminate]. destruct (map _ comps); discriminate.
  - discriminate.
  - discriminate.
  - discriminate.
Qed.
Lemma ir_not_load e n v : src_r v = true -> forall k, wrapR c e n (ir c v) <> RExp (XLoadSaved k).
Proof.
  intros Hs k. unfold wrapR. destruct (sub c e); [discriminate|].
  destruct v as [v|cn bc ba aa func args| |]; try discriminate Hs.
  - cbn [ir]. intros H. injection H as H. exact (ie_not_load' v Hs k H).
  - cbn [ir]. unfold wrapR, defR. destruct (sub c E_after_load_complex_symbol); [discriminate|].
    destruct (sub c E_before_load_complex_symbol); [discriminate|]. destruct (sub c E_after_call); discriminate.
Qed.

Lemma fexec_FEmit_some e n v g sc glob r sv pre : (forall k, v <> RExp (XLoadSaved k)) ->
  X_s sc glob (FEmit e n (Some v) g) r sv pre =
  let '(q, sv', l) := eval_r call (look sc glob r) (globs sc glob r) v sv pre in
  match q with
  | ROk x => {| f_exc := None; f_env := r; f_saved := (if event_eqb e E_after_stmt then x else sv'); f_log := l ++ [(e, n, Some x)] |}
  | RErr x => {| f_exc := Some x; f_env := r; f_saved := sv'; f_log := l |}
  end.
Proof. intros H. destruct v as [v| | |]; try reflexivity. destruct v; try reflexivity. exfalso. exact (H n0 eq_refl). Qed.

Lemma fwants_false m : fwants m = false -> sub c E_after_stmt = false.
Proof. unfold fwants. intros H. apply orb_false_iff in H. exact (proj1 H). Qed.

Lemma fbody_nonexpr_value sc glob s r pr_ : fsrc_t s = true -> f_is_expr s = false -> snd (fbody_of false sc glob s r pr_) = VNone.
Proof.
  intros Hs He. destruct s; try discriminate Hs; try discriminate He; cbn [fbody_of].
  - destruct (ref_r callr false _ _ r0 _); reflexivity.
  - reflexivity.
  - destruct (ref_e t (look sc glob r)) as [[vt|e] l]; reflexivity.
  - destruct r0 as [v|]; [destruct (ref_r callr false _ _ v _)|]; reflexivity.
  - reflexivity.
Qed.

Definition fown_concl (s : fstmt) (m : bool) (sc : scope) (glob r : env) (pr_ : list entry) (O : fres) : Prop :=
  let '(x, r', l, v) := fbody_of false sc glob s r (pr_ ++ [fbst s]) in
  let av := if m then v else VNone in
  f_exc O = x /\ f_env O = r' /\
  fl (f_log O) = fl (l ++ match x with None => [(E_after_stmt, fid s, Some av)] | Some _ => [] end) /\
  (fwants m = true -> x = None -> f_saved O = av).

Lemma fown_generic s m : fsrc_t s = true -> fmain_ok s -> f_is_expr s && m = false -> forall sc glob r sv pm pr_, fl pm = fl (pr_ ++ [fbst s]) ->
  fown_concl s m sc glob r pr_ (X_l sc glob (fmain_and_after (fwants m) m (fid s) (fmain_of s) (f_is_expr s) (fmvalue s)) r sv pm).
Proof.
  intros Hs HM EM sc glob r sv pm pr_ Hp. unfold fown_concl, fmain_and_after. rewrite EM.
  specialize (HM sc glob r sv pm pr_ Hp). cbv zeta in HM.
  assert (Hav : (if m then snd (fbody_of false sc glob s r (pr_ ++ [fbst s])) else VNone) = VNone).
  { destruct m; [|reflexivity]. rewrite andb_true_r in EM. apply fbody_nonexpr_value; assumption. }
  destruct (fbody_of false sc glob s r (pr_ ++ [fbst s])) as [[[x r'] l] v] eqn:Eb. destruct HM as (A1 & A2 & A3). cbn [snd] in Hav. rewrite Hav.
  destruct (fwants m) eqn:W.
  - rewrite fexec_l_cons. unfold fseq. rewrite A1. destruct x as [e|].
    + repeat split; try assumption. rewrite A3, app_nil_r. reflexivity. intros _ H; discriminate H.
    + rewrite fexec_l_single. cbn [FragFun.fexec_s f_exc f_env f_saved f_log].
      replace (event_eqb E_after_stmt E_after_stmt) with true by reflexivity.
      repeat split; try assumption. rewrite !fl_app, A3. reflexivity.
  - pose proof (fwants_false m W) as Wa. rewrite fexec_l_single.
    repeat split; try assumption; [|intros H; discriminate H].
    rewrite fl_app, A3. destruct x; [rewrite fl_nil|rewrite fl_single, Wa]; rewrite app_nil_r; reflexivity.
Qed.

Lemma fown_ok s m : fsrc_t s = true -> fmain_ok s -> forall sc glob r sv pm pr_, fl pm = fl (pr_ ++ [fbst s]) ->
  fown_concl s m sc glob r pr_ (X_l sc glob (fown_of m s) r sv pm).
Proof.
  intros Hs HM sc glob r sv pm pr_ Hp.
  destruct s as [n v|n xs v|n|n t b o|n v|n name ps body| | | | |]; try discriminate Hs.
  - (* expression statement *)
    destruct m; [|apply fown_generic; try assumption; reflexivity].
    unfold fown_concl, fown_of, fmain_and_after. cbn [fsrc_t fsrc_b] in Hs.
    assert (W : fwants true = true \/ fwants true = false) by (destruct (fwants true); auto). destruct W as [W|W].
    + rewrite W. cbn [f_is_expr andb fmvalue fmain_of fid fbody_of fsay].
      rewrite fexec_l_single, (fexec_FEmit_some _ _ _ _ _ _ _ _ _ (ir_not_load E_after_expr_stmt n v Hs)), eval_wrapR.
      destruct (rhs_loud v Hs (look sc glob r) (globs sc glob r) sv pm _ Hp) as [A1 A2].
      destruct (eval_r call _ _ (ir c v) sv pm) as [[q sv'] l]. destruct (ref_r callr false _ _ v _) as [q' l']. cbn [fst snd] in A1, A2. subst q'.
      destruct q as [x|e]; cbn [fexc_of f_exc f_env f_log f_saved emitted_r].
      * replace (event_eqb E_after_stmt E_after_stmt) with true by reflexivity. repeat split; rewrite !fl_app, A2; fin.
      * repeat split; try (rewrite !fl_app, A2; fin). intros _ H; discriminate H.
    + rewrite W. pose proof (fwants_false true W) as Wa. specialize (HM sc glob r sv pm pr_ Hp). cbv zeta in HM.
      destruct (fbody_of false sc glob (FExpr n v) r (pr_ ++ [fbst (FExpr n v)])) as [[[x r'] l] v'] eqn:Eb. destruct HM as (A1 & A2 & A3).
      rewrite fexec_l_single. repeat split; try assumption; [|intros H; discriminate H].
      rewrite fl_app, A3. destruct x; [rewrite fl_nil|rewrite fl_single, Wa]; rewrite app_nil_r; reflexivity.
  - apply fown_generic; try assumption; reflexivity.
  - apply fown_generic; try assumption; reflexivity.
  - apply fown_generic; try assumption; reflexivity.
  - (* return: never followed by an after_stmt emission, and never ends normally *)
    specialize (HM sc glob r sv pm pr_ Hp). cbv zeta in HM. unfold fown_concl, fown_of. rewrite fexec_l_single.
    destruct v as [v|]; cbn [fbody_of fid fsay] in HM |- *.
    + destruct (ref_r callr false _ _ v _) as [q l]. destruct HM as (A1 & A2 & A3). repeat split; try assumption.
      * rewrite app_nil_r. exact A3.
      * intros _ H. discriminate H.
    + destruct HM as (A1 & A2 & A3). repeat split; try assumption. intros _ H. discriminate H.
  - apply fown_generic; try assumption; reflexivity.
Qed.

Lemma fassemble s : fsrc_t s = true -> fmain_ok s -> floud_ok s.
Proof.
  intros Hs HM _ m sc glob r sv pre pre' Hp. rewrite (fis_unfold m s), fref_unfold. cbv zeta. cbn [fsay].
  assert (HX : exists E, (X_l sc glob (if sub c E_before_stmt then [FBefore (fid s) (fthunk_branch m s) (fown_of m s)] else fown_of m s) r sv pre) = E /\
               let '(x, r', l, v) := fbody_of false sc glob s r (pre' ++ [fbst s]) in
               let av := if m then v else VNone in
               f_exc E = x /\ f_env E = r' /\
               fl (f_log E) = fl ([fbst s] ++ l ++ match x with None => [(E_after_stmt, fid s, Some av)] | Some _ => [] end) /\
               (fwants m = true -> x = None -> f_saved E = av)).
  { eexists. split; [reflexivity|]. destruct (sub c E_before_stmt) eqn:Bf.
    - rewrite fexec_l_single, fexec_FBefore. cbv zeta.
      assert (Hq : fl (pre ++ [(E_before_stmt, fid s, Some VNone)]) = fl (pre' ++ [fbst s])) by (apply fl_pre; [exact Hp|reflexivity]).
      pose proof (fown_ok s m Hs HM sc glob r sv _ _ Hq) as HO. unfold fown_concl in HO.
      destruct (fbody_of false sc glob s r (pre' ++ [fbst s])) as [[[x r'] l] v]. destruct HO as (O1 & O2 & O3 & O4).
      cbn [f_exc f_env f_saved f_log]. repeat split; try assumption.
      change ((E_before_stmt, fid s, Some VNone) :: f_log (X_l sc glob (fown_of m s) r sv (pre ++ [(E_before_stmt, fid s, Some VNone)])))
        with ([fbst s] ++ f_log (X_l sc glob (fown_of m s) r sv (pre ++ [(E_before_stmt, fid s, Some VNone)]))).
      rewrite !fl_app, O3, !fl_app. reflexivity.
    - assert (Hq : fl pre = fl (pre' ++ [fbst s])) by (rewrite fl_app, Hp; unfold fbst; rewrite fl_single, Bf, app_nil_r; reflexivity).
      pose proof (fown_ok s m Hs HM sc glob r sv _ _ Hq) as HO. unfold fown_concl in HO.
      destruct (fbody_of false sc glob s r (pre' ++ [fbst s])) as [[[x r'] l] v]. destruct HO as (O1 & O2 & O3 & O4).
      repeat split; try assumption. rewrite O3, (fl_app [fbst s]). unfold fbst. rewrite fl_single, Bf. reflexivity. }
  destruct HX as (E & HE & HP). rewrite <- HE in HP. clear HE.
  set (EXP := if sub c E_before_stmt then _ else _) in *.
  change (pre' ++ [(E_before_stmt, fid s, Some VNone)]) with (pre' ++ [fbst s]).
  destruct (fbody_of false sc glob s r (pre' ++ [fbst s])) as [[[x r'] l] v]. cbv zeta in HP. destruct HP as (E1 & E2 & E4 & E3).
  set (av := if m then v else VNone) in *.
  destruct (m && sub c E_after_module_stmt) eqn:Am.
  - apply andb_true_iff in Am as [Em Ea]. subst m.
    assert (W : fwants true = true) by (unfold fwants; rewrite Ea, orb_true_r; reflexivity).
    rewrite fexec_l_app. unfold fseq. rewrite E1. destruct x as [e|].
    + unfold fsim. cbn [fr_exc fr_env fr_log]. repeat split; try assumption; try (rewrite E4, ?app_nil_r; reflexivity).
    + rewrite fexec_l_single. cbn [FragFun.fexec_s f_exc f_env f_saved f_log]. unfold fsim. cbn [f_exc f_env f_log fr_exc fr_env fr_log].
      repeat split; try assumption. rewrite (E3 W eq_refl).
      rewrite fl_app, E4. rewrite <- fl_app. f_equal. unfold fbst. cbn [app]. rewrite <- app_assoc. reflexivity.
  - unfold fsim. cbn [fr_exc fr_env fr_log]. repeat split; try assumption. rewrite E4. unfold fbst. cbn [app].
    destruct x as [e|]; [reflexivity|].
    rewrite !fl_cons, !fl_app, !fl_cons. f_equal. f_equal. f_equal.
    destruct m; [|reflexivity]. cbn [andb] in Am. rewrite fl_single, Am. reflexivity.
Qed.

Theorem floud_stmt : forall s, floud_ok s.
Proof.
  induction s using fstmt_ind'; intros Hs; try discriminate Hs; cbn [fsrc_t fsrc_b] in Hs.
  - apply fassemble; [exact Hs|apply fmain_ok_expr; exact Hs|exact Hs].
  - apply fassemble; [exact Hs|apply fmain_ok_assign; exact Hs|exact Hs].
  - apply fassemble; [reflexivity|apply fmain_ok_pass|reflexivity].
  - pose proof Hs as Hs'. apply andb_true_iff in Hs as [Hs Ho]. apply andb_true_iff in Hs as [Ht Hb].
    apply fassemble; [exact Hs'|apply fmain_ok_if; assumption|exact Hs'].
  - apply fassemble; [exact Hs|apply fmain_ok_return; destruct v; [exact Hs|reflexivity]|exact Hs].
  - apply fassemble; [exact Hs|apply fmain_ok_def|exact Hs].
Qed.

(* ================================================================ one call, given that the calls it makes agree *)
Definition with_after (f : N) (body : list fstmt) : list fstmt :=
  if sub c E_after_function_execution
  then [FTry (flat_map (fis c ge false) body) [FEmit E_after_function_execution f None (Some (if ge then Some f else None))]]
  else flat_map (fis c ge false) body.
Definition instr_body (f : N) (body : list fstmt) : list fstmt :=
  [FNameTry
     (if ge then [FGuardIf f (if sub c E_before_function_body then Some f else None) (with_after f body) body]
      else (if sub c E_before_function_body then [FEmit E_before_function_body f (Some (RExp (XConst 0 (SBool true)))) None] else []) ++ with_after f body)
     body].
Definition efb (f : N) : entry := (E_before_function_body, f, Some (cval (SBool true))).
Definition eafe (f : N) : entry := (E_after_function_execution, f, Some VNone).

Lemma fmain_of_def n name ps body : fmain_of (FDef n name ps body) = FDef n name ps (instr_body n body).
Proof. reflexivity. Qed.

Lemma assigned_nametry b p : assigned (FNameTry b p) = flat_map assigned p.
Proof. induction p as [|x p IH]; [reflexivity|]. cbn [assigned flat_map] in *. rewrite IH. reflexivity. Qed.
Lemma assigned_instr_body f body : assigned_l (instr_body f body) = assigned_l body.
Proof. unfold assigned_l, instr_body. cbn [flat_map]. rewrite assigned_nametry, app_nil_r. reflexivity. Qed.

Lemma floud_all u : Forall floud_ok u.
Proof. apply Forall_forall. intros s _. apply floud_stmt. Qed.
Lemma fquiet_all u : Forall fquiet_ok u.
Proof. apply Forall_forall. intros s _. apply fquiet_stmt. Qed.

Lemma with_after_sim f body sc glob r sv q q' : fl q = fl q' -> forallb fsrc_b body = true ->
  f_exc (X_l sc glob (with_after f body) r sv q) = fr_exc (R_l false false sc glob body r q') /\
  fl (f_log (X_l sc glob (with_after f body) r sv q)) = fl (fr_log (R_l false false sc glob body r q') ++ [eafe f]).
Proof.
  intros Hq Hb. destruct (floud_list body (floud_all body) (fsrc_b_t body Hb) false sc glob r sv q q' Hq) as (E1 & E2 & E3).
  unfold with_after. destruct (sub c E_after_function_execution) eqn:Ea.
  - rewrite fexec_l_single, fexec_FTry. cbv zeta. rewrite fexec_l_single. cbn [FragFun.fexec_s f_exc f_env f_saved f_log].
    split; [exact E1|]. rewrite !fl_app, E3. reflexivity.
  - split; [exact E1|]. rewrite fl_app, E3. unfold eafe. rewrite fl_single, Ea, app_nil_r. reflexivity.
Qed.

Lemma body_sim f body sc glob r sv p p' : fl p = fl p' -> forallb fsrc_b body = true ->
  let loud := negb ge || fgon p' f in
  let lb := if loud then [efb f] else [] in
  let A := X_l sc glob (instr_body f body) r sv p in
  let B := R_l (negb loud) false sc glob body r (p' ++ lb) in
  f_exc A = fr_exc B /\ fl (f_log A) = fl (lb ++ fr_log B ++ (if loud then [eafe f] else [])).
Proof.
  intros Hp Hb. cbv zeta. unfold instr_body. rewrite fexec_l_single, fexec_FNameTry.
  assert (G : ge = true \/ ge = false) by (destruct ge; auto). destruct G as [G|G]; rewrite G; cbn [negb orb].
  - (* global guards: the guard decides *)
    rewrite fexec_l_single, fexec_FGuardIf, (fgon_fl p p' f Hp). destruct (fgon p' f) eqn:On; cbn [negb].
    + destruct (sub c E_before_function_body) eqn:Eb.
      * assert (Hq : fl (p ++ [(E_before_function_body, f, Some (cval (SBool true)))]) = fl (p' ++ [efb f])) by (apply fl_pre; [exact Hp|reflexivity]).
        destruct (with_after_sim f body sc glob r sv _ _ Hq Hb) as [W1 W2]. cbv zeta. cbn [f_exc f_log]. split; [exact W1|].
        change ((E_before_function_body, f, Some (cval (SBool true))) :: f_log (X_l sc glob (with_after f body) r sv (p ++ [(E_before_function_body, f, Some (cval (SBool true)))])))
          with ([efb f] ++ f_log (X_l sc glob (with_after f body) r sv (p ++ [(E_before_function_body, f, Some (cval (SBool true)))]))).
        rewrite fl_app, W2, <- fl_app. reflexivity.
      * assert (Hq : fl p = fl (p' ++ [efb f])) by (rewrite fl_app, Hp; unfold efb; rewrite fl_single, Eb, app_nil_r; reflexivity).
        destruct (with_after_sim f body sc glob r sv _ _ Hq Hb) as [W1 W2]. split; [exact W1|].
        rewrite W2, (fl_app [efb f]). unfold efb at 2. rewrite fl_single, Eb. reflexivity.
    + assert (Hq : fl p = fl (p' ++ [])) by (rewrite app_nil_r; exact Hp).
      destruct (fquiet_list body (fquiet_all body) Hb sc glob r sv p _ Hq) as (E1 & E2 & E3).
      split; [exact E1|]. cbn [app]. rewrite app_nil_r. exact E3.
  - (* no global guards: always instrumented *)
    destruct (sub c E_before_function_body) eqn:Eb.
    + cbn [app]. rewrite fexec_l_cons. unfold fseq. cbn [FragFun.fexec_s FragFun.eval_r FragSem.eval_e rr_of f_exc f_env f_saved f_log app].
      assert (Hq : fl (p ++ [(E_before_function_body, f, Some (cval (SBool true)))]) = fl (p' ++ [efb f])) by (apply fl_pre; [exact Hp|reflexivity]).
      replace (event_eqb E_before_function_body E_after_stmt) with false by reflexivity.
      destruct (with_after_sim f body sc glob r sv _ _ Hq Hb) as [W1 W2]. cbn [f_exc f_log]. split; [exact W1|].
      change (efb f :: fr_log (R_l false false sc glob body r (p' ++ [efb f])) ++ [eafe f])
        with ([efb f] ++ fr_log (R_l false false sc glob body r (p' ++ [efb f])) ++ [eafe f]).
      rewrite (fl_app [efb f]), <- W2. unfold efb. rewrite fl_cons, fl_single. reflexivity.
    + cbn [app]. assert (Hq : fl p = fl (p' ++ [efb f])) by (rewrite fl_app, Hp; unfold efb; rewrite fl_single, Eb, app_nil_r; reflexivity).
      destruct (with_after_sim f body sc glob r sv _ _ Hq Hb) as [W1 W2]. split; [exact W1|].
      rewrite W2. unfold efb. rewrite (fl_cons E_before_function_body), Eb. reflexivity.
Qed.
End WithCalls.

(* ---------------------------------------------------------------- the tables of definitions *)
Definition itab (ftab : N -> option (list N * list fstmt)) : N -> option (list N * list fstmt) :=
  fun f => match ftab f with Some (ps, body) => Some (ps, instr_body f body) | None => None end.
Definition tab_ok (ftab : N -> option (list N * list fstmt)) : Prop := forall f ps body, ftab f = Some (ps, body) -> forallb fsrc_b body = true.

Lemma call_step tabi ftab call callr : (forall f, tabi f = itab ftab f) -> tab_ok ftab -> call_sim call callr ->
  call_sim (do_call binop cmpop unop truth cval is_and c pol tabi call) (do_callr binop cmpop unop truth cval is_and c pol ge ftab callr).
Proof.
  intros Hi Ht Hc f vs glob sv p p' Hp. unfold do_call, do_callr. rewrite Hi. unfold itab.
  destruct (ftab f) as [[ps body]|] eqn:Ef; [|split; reflexivity].
  destruct (Nat.eqb (length ps) (length vs)); [|split; reflexivity].
  rewrite assigned_instr_body.
  destruct (body_sim call callr Hc f body (Some (ps ++ assigned_l body)) glob (bind ps vs (fun _ => None)) sv p p' Hp (Ht f ps body Ef)) as [B1 B2].
  unfold rsim. cbn [fst snd]. split.
  - rewrite B1. reflexivity.
  - exact B2.
Qed.

Theorem calls_agree tabi ftab : (forall f, tabi f = itab ftab f) -> tab_ok ftab -> forall d,
  call_sim (fcall binop cmpop unop truth cval is_and c pol tabi d) (fcallr binop cmpop unop truth cval is_and c pol ge ftab d).
Proof.
  intros Hi Ht. induction d as [|d IH].
  - intros f vs glob sv p p' _. split; reflexivity.
  - cbn [fcall fcallr]. apply call_step; assumption.
Qed.

(* ---------------------------------------------------------------- the definitions of the instrumented module *)
Lemma defs_of_app u w n : defs_of (u ++ w) n = match defs_of u n with Some d => Some d | None => defs_of w n end.
Proof. induction u as [|x u IH]; [reflexivity|]. cbn [app defs_of]. destruct (find_def n x); [reflexivity|exact IH]. Qed.

Lemma defs_fis s n : fsrc_t s = true ->
  defs_of (fis c ge true s) n = match find_def n s with Some (ps, body) => Some (ps, instr_body n body) | None => None end.
Proof.
  intros Hs. rewrite fis_unfold. cbv zeta. unfold fown_of, fthunk_branch, fmain_and_after.
  destruct s as [k v|k xs v|k|k t b o|k v|k name ps body| | | | |]; try discriminate Hs; cbn [f_is_expr andb fid].
  1-4: destruct (sub c E_before_stmt), (fwants true), (sub c E_after_module_stmt); reflexivity.
  - destruct v; destruct (sub c E_before_stmt), (sub c E_after_module_stmt); reflexivity.
  - rewrite fmain_of_def.
    destruct (sub c E_before_stmt), (fwants true), (sub c E_after_module_stmt); cbn [app defs_of find_def];
      destruct (N.eqb_spec k n) as [->|Hne]; reflexivity.
Qed.

Lemma defs_flat m n : forallb fsrc_t m = true ->
  defs_of (flat_map (fis c ge true) m) n = match defs_of m n with Some (ps, body) => Some (ps, instr_body n body) | None => None end.
Proof.
  induction m as [|s m IH]; intros Hs; [reflexivity|].
  cbn [forallb] in Hs. apply andb_true_iff in Hs as [Hs Hm]. cbn [flat_map defs_of]. rewrite defs_of_app, (defs_fis s n Hs), (IH Hm).
  destruct (find_def n s) as [[ps body]|]; reflexivity.
Qed.

Lemma defs_instr m : forallb fsrc_t m = true -> forall n, defs_of (finstr_module0 c ge m) n = itab (defs_of m) n.
Proof.
  intros Hs n. unfold finstr_module0, itab. rewrite !defs_of_app, (defs_flat m n Hs).
  destruct (sub c E_init_module); cbn [defs_of find_def]; destruct (defs_of m n) as [[ps body]|]; try reflexivity;
    destruct (sub c E_exit_module); reflexivity.
Qed.

Lemma find_def_src s n ps body : fsrc_t s = true -> find_def n s = Some (ps, body) -> forallb fsrc_b body = true.
Proof.
  intros Hs H. destruct s; try discriminate H; try discriminate Hs. cbn [find_def] in H. destruct (N.eqb n0 n); [|discriminate H]. injection H as <- <-. exact Hs.
Qed.
Lemma defs_src m : forallb fsrc_t m = true -> tab_ok (defs_of m).
Proof.
  induction m as [|s m IH]; intros Hs f ps body H; [discriminate H|].
  cbn [forallb] in Hs. apply andb_true_iff in Hs as [Hs Hm]. cbn [defs_of] in H.
  destruct (find_def f s) as [d|] eqn:Ef.
  - injection H as ->. exact (find_def_src s f ps body Hs Ef).
  - exact (IH Hm f ps body H).
Qed.

(* ================================================================ the module *)
Theorem fmodule_sim0 m : forallb fsrc_t m = true -> forall d r sv,
  fsim (frun binop cmpop unop truth cval is_and c pol d (finstr_module0 c ge m) r sv)
       (fref_module0 binop cmpop unop truth cval is_and c pol ge d m r).
Proof.
  intros Hs d r sv. unfold frun, FragFun.fref_module0.
  pose proof (calls_agree (defs_of (finstr_module0 c ge m)) (defs_of m) (defs_instr m Hs) (defs_src m Hs) d) as Hc.
  set (call := fcall binop cmpop unop truth cval is_and c pol (defs_of (finstr_module0 c ge m)) d) in *.
  set (callr := fcallr binop cmpop unop truth cval is_and c pol ge (defs_of m) d) in *.
  unfold finstr_module0.
  set (g0 := fun _ : N => @None val).
  assert (HB : forall r sv p p', fl p = fl p' -> fsim (fexec_l call None g0 (flat_map (fis c ge true) m) r sv p) (fref_l callr false true None g0 m r p')).
  { intros. apply (floud_list call callr); [apply (floud_all call callr Hc)|exact Hs|assumption]. }
  assert (HX : forall r sv p p', fl p = fl p' ->
            fsim (fexec_l call None g0 (flat_map (fis c ge true) m ++ (if sub c E_exit_module then [FEmit E_exit_module 0 None None] else [])) r sv p)
                 {| fr_exc := fr_exc (fref_l callr false true None g0 m r p'); fr_env := fr_env (fref_l callr false true None g0 m r p');
                    fr_log := fr_log (fref_l callr false true None g0 m r p') ++ match fr_exc (fref_l callr false true None g0 m r p') with None => [(E_exit_module, 0, Some VNone)] | Some _ => [] end |}).
  { intros r0 sv0 p p' Hp. destruct (HB r0 sv0 p p' Hp) as (B1 & B2 & B3). rewrite fexec_l_app. unfold fseq. rewrite B1.
    destruct (fr_exc (fref_l callr false true None g0 m r0 p')) as [e|] eqn:Ex.
    - unfold fsim. cbn [fr_exc fr_env fr_log]. rewrite app_nil_r. repeat split; assumption.
    - unfold fsim. cbn [f_exc f_env f_log fr_exc fr_env fr_log].
      destruct (sub c E_exit_module) eqn:Xm; cbn [FragFun.fexec_l FragFun.fexec_s fseq f_exc f_env f_log app]; repeat split; try assumption;
        rewrite ?fl_app, ?B3, ?fl_single, ?Xm, ?fl_nil, ?app_nil_r; reflexivity. }
  destruct (sub c E_init_module) eqn:Im.
  - cbn [app]. rewrite fexec_l_cons. unfold fseq. cbn [FragFun.fexec_s f_exc f_env f_saved f_log].
    match goal with |- context [fexec_l call None g0 _ r ?s0 ?q] => destruct (HX r s0 q [(E_init_module, 0, Some VNone)] eq_refl) as (X1 & X2 & X3) end.
    unfold fsim. cbn [f_exc f_env f_log fr_exc fr_env fr_log] in *. repeat split; try assumption.
    cbn [app] in *. rewrite !fl_cons, X3. reflexivity.
  - cbn [app]. assert (H0 : fl [] = fl [(E_init_module, 0, Some VNone)]) by (rewrite fl_single, Im; reflexivity).
    destruct (HX r sv [] _ H0) as (X1 & X2 & X3). unfold fsim. cbn [fr_exc fr_env fr_log] in *. repeat split; try assumption.
    rewrite fl_cons, Im. exact X3.
Qed.

(* the module docstring: as written, first, silent; it defines no function *)
Lemma frest_src m : forallb fsrc_t m = true -> forallb fsrc_t (frest m) = true.
Proof.
  destruct m as [|d rest]; [reflexivity|]. unfold frest. destruct (is_docstring d); [|auto].
  cbn [forallb]. intros H. now apply andb_true_iff in H as [_ H].
Qed.
Lemma fdoc_frest m : fdoc m ++ frest m = m.
Proof. destruct m as [|d rest]; [reflexivity|]. unfold fdoc, frest. now destruct (is_docstring d). Qed.
Lemma frun_doc cc pp dd u d r sv : is_docstring dd = true ->
  f_exc (frun binop cmpop unop truth cval is_and cc pp d (dd :: u) r sv) = f_exc (frun binop cmpop unop truth cval is_and cc pp d u r sv) /\
  f_env (frun binop cmpop unop truth cval is_and cc pp d (dd :: u) r sv) = f_env (frun binop cmpop unop truth cval is_and cc pp d u r sv) /\
  f_log (frun binop cmpop unop truth cval is_and cc pp d (dd :: u) r sv) = f_log (frun binop cmpop unop truth cval is_and cc pp d u r sv).
Proof.
  destruct dd as [n v| | | | | | | | | |]; try discriminate. destruct v as [v| | |]; try discriminate.
  destruct v as [|m sc| | | | | | | | | | |]; try discriminate. destruct sc; try discriminate. intros _.
  unfold frun. change (defs_of (FExpr n (RExp (XConst m (SStr s))) :: u)) with (fun k => defs_of u k).
  cbn [FragFun.fexec_l]. unfold fseq. cbn [FragFun.fexec_s FragFun.eval_r FragSem.eval_e fexc_of f_exc f_env f_saved f_log app].
  repeat split; reflexivity.
Qed.
Theorem fmodule_sim m : forallb fsrc_t m = true -> forall d r sv,
  fsim (frun binop cmpop unop truth cval is_and c pol d (finstr_module c ge m) r sv)
       (fref_module binop cmpop unop truth cval is_and c pol ge d m r).
Proof.
  intros Hs d r sv. unfold finstr_module, FragFun.fref_module.
  pose proof (fmodule_sim0 (frest m) (frest_src m Hs) d r sv) as M.
  destruct m as [|dd rest]; [exact M|]. unfold fdoc, frest in *. destruct (is_docstring dd) eqn:Ed; [|exact M].
  cbn [app]. destruct (frun_doc c pol dd (finstr_module0 c ge rest) d r sv Ed) as (E1 & E2 & E3).
  destruct M as (M1 & M2 & M3). unfold fsim. rewrite E1, E2, E3. repeat split; assumption.
Qed.

(* ================================================================ the source program as it is (no rewriting at all) computes the reference results *)
Definition call_res (call : callT) (callr : callR) : Prop :=
  forall f vs glob sv p p', fst (fst (call f vs glob sv p)) = fst (callr f vs glob p').

Lemma ref_args_fst q1 q2 args lk : fst (ref_args q1 args lk) = fst (ref_args q2 args lk).
Proof.
  induction args as [|a rest IH]; [reflexivity|]. cbn [FragFun.ref_args].
  destruct (ref_e a lk) as [[v|e] l]; [|reflexivity].
  destruct (ref_args q1 rest lk) as [[vs1|e1] l1], (ref_args q2 rest lk) as [[vs2|e2] l2]; cbn [fst] in *; congruence.
Qed.

Section Plain.
Variable call : callT.
Variable callr : callR.
Hypothesis call_ok : call_res call callr.
Variable c0 : rcfg.                                (* whatever the run of the untouched source is given: it tests no guard *)
Variable pol0 : list entry -> N -> bool.
Notation X_s := (FragFun.fexec_s binop cmpop unop truth cval is_and c0 pol0 call).
Notation X_l := (FragFun.fexec_l binop cmpop unop truth cval is_and c0 pol0 call).
Lemma fexec_l_cons0 sc glob x u r sv pre : X_l sc glob (x :: u) r sv pre = fseq (X_s sc glob x r sv pre) (X_l sc glob u) pre.
Proof. reflexivity. Qed.
Lemma fexec_FIf0 sc glob n t b o r sv pre :
  X_s sc glob (FIf n t b o) r sv pre =
  let '(q, l) := eval_e t (look sc glob r) in
  match q with
  | Ok vt => let a := X_l sc glob (if truth vt then b else o) r sv (pre ++ l) in
             {| f_exc := f_exc a; f_env := f_env a; f_saved := f_saved a; f_log := l ++ f_log a |}
  | Err e => {| f_exc := Some (FX e); f_env := r; f_saved := sv; f_log := l |}
  end.
Proof. reflexivity. Qed.
Notation R_s := (fref_s callr).
Notation R_l := (fref_l callr).

Lemma rhs_plain r : src_r r = true -> forall q lk glob sv p p',
  fst (fst (eval_r call lk glob r sv p)) = fst (ref_r callr q lk glob r p').
Proof.
  intros Hs q lk glob sv p p'. destruct r as [v|cn bc ba aa func args| |]; try discriminate Hs.
  - cbn [src_r] in Hs. cbn [FragFun.eval_r FragFun.ref_r]. rewrite (eval_src v lk Hs). destruct (ref_e v lk) as [x l]. reflexivity.
  - destruct func as [nf f| | | | | | | | | | | |]; try discriminate Hs. cbn [src_r] in Hs.
    apply andb_true_iff in Hs as [Hs Ha]. apply andb_true_iff in Hs as [Hs Haa]. apply andb_true_iff in Hs as [Hbc Hba].
    apply negb_true_iff in Hbc, Hba, Haa. subst bc ba aa.
    cbn [FragFun.eval_r FragFun.ref_r]. rewrite (eval_src (XName nf f) lk eq_refl).
    destruct (args_quiet args lk Ha) as [A1 _]. rewrite A1. rewrite (ref_args_fst true q args lk).
    destruct (ref_e (XName nf f) lk) as [[vf|e] lf]; cbn [fst snd]; [|reflexivity].
    destruct (ref_args q args lk) as [[vs|e] la]; cbn [fst snd]; [|reflexivity].
    destruct vf as [z|b| |s0|g|k|ra rb]; try reflexivity.
    match goal with |- context [call g vs glob sv ?P] => pose proof (call_ok g vs glob sv P (p' ++ (fsay q [(E_before_load_complex_symbol, cn, None)] ++ fsay q (lf ++ [(E_before_call, cn, Some (VFun g))])) ++ la)) as C1 end.
    destruct (call g vs glob sv _) as [[x sv'] lc]. destruct (callr g vs glob _) as [x' lc']. cbn [fst snd] in C1. subst x'. reflexivity.
Qed.

Definition fres_eq (a : fres) (b : frres) : Prop := f_exc a = fr_exc b /\ f_env a = fr_env b.
Definition fplain_ok (s : fstmt) : Prop := fsrc_t s = true -> forall q m sc glob r sv p p', fres_eq (X_s sc glob s r sv p) (R_s q m sc glob s r p').

Lemma fplain_list u : Forall fplain_ok u -> forallb fsrc_t u = true -> forall q m sc glob r sv p p',
  fres_eq (X_l sc glob u r sv p) (R_l q m sc glob u r p').
Proof.
  induction 1 as [|x u Hx _ IH]; intros Hs q m sc glob r sv p p'.
  - split; reflexivity.
  - cbn [forallb] in Hs. apply andb_true_iff in Hs as [Hsx Hs]. rewrite fexec_l_cons0, fref_l_cons.
    destruct (Hx Hsx q m sc glob r sv p p') as (E1 & E2). unfold fseq, frseq. rewrite E1.
    destruct (fr_exc (R_s q m sc glob x r p')) eqn:Ex.
    + unfold fres_eq. rewrite Ex. split; assumption.
    + rewrite E2. destruct (IH Hs q m sc glob (fr_env (R_s q m sc glob x r p')) (f_saved (X_s sc glob x r sv p))
                  (p ++ f_log (X_s sc glob x r sv p)) (p' ++ fr_log (R_s q m sc glob x r p'))) as (F1 & F2).
      split; assumption.
Qed.

Theorem fplain_stmt : forall s, fplain_ok s.
Proof.
  induction s using fstmt_ind'; intros Hs q m sc glob r sv pa pb; try discriminate Hs; cbn [fsrc_t fsrc_b] in Hs; rewrite fref_unfold; cbn [fid fbody_of].
  - pose proof (rhs_plain v Hs q (look sc glob r) (globs sc glob r) sv pa (pb ++ fsay q [(E_before_stmt, n, Some VNone)])) as A1. cbn [FragFun.fexec_s].
    destruct (eval_r call _ _ v sv pa) as [[x sv'] l]. destruct (ref_r callr q _ _ v _) as [x' l']. cbn [fst snd] in A1. subst x'. split; reflexivity.
  - pose proof (rhs_plain v Hs q (look sc glob r) (globs sc glob r) sv pa
                  ((pb ++ fsay q [(E_before_stmt, n, Some VNone)]) ++ fsay q [(E_before_assign_rhs, rid v, None)])) as A1. cbn [FragFun.fexec_s].
    destruct (eval_r call _ _ v sv pa) as [[x sv'] l]. destruct (ref_r callr q _ _ v _) as [x' l']. cbn [fst snd] in A1. subst x'.
    destruct x; split; reflexivity.
  - split; reflexivity.
  - apply andb_true_iff in Hs as [Hs Ho]. apply andb_true_iff in Hs as [Ht Hb].
    rewrite fexec_FIf0, (eval_src t _ Ht). destruct (ref_e t (look sc glob r)) as [[vt|e] l]; cbn [fst snd]; [|split; reflexivity].
    assert (HB : forall p p', fres_eq (X_l sc glob (if truth vt then b else o) r sv p) (R_l q false sc glob (if truth vt then b else o) r p')).
    { intros p p'. destruct (truth vt); [apply (fplain_list b H (fsrc_b_t b Hb))|apply (fplain_list o H0 (fsrc_b_t o Ho))]. }
    match goal with |- context [R_l q false sc glob _ r ?P] => destruct (HB (pa ++ []) P) as (B1 & B2) end.
    split; cbn [f_exc f_env fr_exc fr_env]; assumption.
  - destruct v as [v|]; [|split; reflexivity].
    pose proof (rhs_plain v Hs q (look sc glob r) (globs sc glob r) sv pa
                  ((pb ++ fsay q [(E_before_stmt, n, Some VNone)]) ++ fsay q [(E_before_return, rid v, None)])) as A1. cbn [FragFun.fexec_s].
    destruct (eval_r call _ _ v sv pa) as [[x sv'] l]. destruct (ref_r callr q _ _ v _) as [x' l']. cbn [fst snd] in A1. subst x'. split; reflexivity.
  - split; reflexivity.
Qed.
End Plain.

Variable c0 : rcfg.
Variable pol0 : list entry -> N -> bool.
Lemma fplain_all call callr : call_res call callr -> forall u, Forall (fplain_ok call callr c0 pol0) u.
Proof. intros Hc u. apply Forall_forall. intros s _. apply fplain_stmt. exact Hc. Qed.

Lemma plain_step ftab call callr : tab_ok ftab -> call_res call callr ->
  call_res (do_call binop cmpop unop truth cval is_and c0 pol0 ftab call) (do_callr binop cmpop unop truth cval is_and c pol ge ftab callr).
Proof.
  intros Ht Hc f vs glob sv p p'. unfold do_call, do_callr.
  destruct (ftab f) as [[ps body]|] eqn:Ef; [|reflexivity].
  destruct (Nat.eqb (length ps) (length vs)); [|reflexivity]. cbn [fst snd].
  match goal with |- context [fref_l callr ?Q false ?SC glob body ?R ?P] =>
    destruct (fplain_list call callr c0 pol0 body (fplain_all call callr Hc body) (fsrc_b_t body (Ht f ps body Ef)) Q false SC glob R sv p P) as [B1 B2] end.
  rewrite B1. reflexivity.
Qed.

Theorem plain_calls ftab : tab_ok ftab -> forall d,
  call_res (fcall binop cmpop unop truth cval is_and c0 pol0 ftab d) (fcallr binop cmpop unop truth cval is_and c pol ge ftab d).
Proof.
  intros Ht. induction d as [|d IH].
  - intros f vs glob sv p p'. reflexivity.
  - cbn [fcall fcallr]. apply plain_step; assumption.
Qed.

Theorem fplain_module0 m : forallb fsrc_t m = true -> forall d r sv,
  fres_eq (frun binop cmpop unop truth cval is_and c0 pol0 d m r sv) (fref_module0 binop cmpop unop truth cval is_and c pol ge d m r).
Proof.
  intros Hs d r sv. unfold frun, FragFun.fref_module0.
  pose proof (plain_calls (defs_of m) (defs_src m Hs) d) as Hc.
  match goal with |- context [fref_l ?CR false true None ?G m r ?P] =>
    destruct (fplain_list _ CR c0 pol0 m (fplain_all _ CR Hc m) Hs false true None G r sv [] P) as [B1 B2] end.
  split; cbn [fr_exc fr_env]; assumption.
Qed.
Theorem fplain_module m : forallb fsrc_t m = true -> forall d r sv,
  fres_eq (frun binop cmpop unop truth cval is_and c0 pol0 d m r sv) (fref_module binop cmpop unop truth cval is_and c pol ge d m r).
Proof.
  intros Hs d r sv. unfold FragFun.fref_module.
  pose proof (fplain_module0 (frest m) (frest_src m Hs) d r sv) as M.
  destruct m as [|dd rest]; [exact M|]. unfold frest in *. destruct (is_docstring dd) eqn:Ed; [|exact M].
  destruct (frun_doc c0 pol0 dd rest d r sv Ed) as (E1 & E2 & _). destruct M as (M1 & M2). unfold fres_eq. rewrite E1, E2. split; assumption.
Qed.

(* ================================================================ scoping: the instrumented copy of a body assigns no name the pristine copy does not assign
   (so reading a function's local names off the pristine copy kept in the `except NameError` handler, as model/FragFun.v does, gives
   the set Python's compiler computes for the whole rewritten definition) *)
Lemma assigned_FIf n t b o : assigned (FIf n t b o) = flat_map assigned b ++ flat_map assigned o.
Proof. reflexivity. Qed.
Lemma assigned_FBefore n tb own : assigned (FBefore n tb own) = flat_map assigned tb ++ flat_map assigned own.
Proof. reflexivity. Qed.

Definition asg_ok (s : fstmt) : Prop := fsrc_t s = true -> forall m x, In x (flat_map assigned (fis c ge m s)) -> In x (assigned s).

Lemma asg_list u : Forall asg_ok u -> forallb fsrc_t u = true -> forall m x, In x (flat_map assigned (flat_map (fis c ge m) u)) -> In x (flat_map assigned u).
Proof.
  induction 1 as [|s u Hs _ IH]; intros Hu m x Hin; [exact Hin|].
  cbn [forallb] in Hu. apply andb_true_iff in Hu as [H1 H2]. cbn [flat_map] in Hin |- *. rewrite flat_map_app in Hin.
  apply in_app_or in Hin as [Hin|Hin]; apply in_or_app; [left; exact (Hs H1 m x Hin)|right; exact (IH H2 m x Hin)].
Qed.

Lemma asg_assemble s : (forall x, In x (assigned (fmain_of s)) -> In x (assigned s)) -> forall m x, In x (flat_map assigned (fis c ge m s)) -> In x (assigned s).
Proof.
  intros HM m x. rewrite fis_unfold. cbv zeta.
  assert (HO : In x (flat_map assigned (fown_of m s)) -> In x (assigned s)).
  { unfold fown_of, fmain_and_after. destruct s; destruct (fwants m); try destruct (f_is_expr _ && m); cbn [flat_map assigned app]; rewrite ?app_nil_r;
      try (intros HF; exact (False_ind _ HF)); try apply HM. }
  assert (HE : In x (flat_map assigned (if sub c E_before_stmt then [FBefore (fid s) (fthunk_branch m s) (fown_of m s)] else fown_of m s)) -> In x (assigned s)).
  { destruct (sub c E_before_stmt); [|exact HO]. cbn [flat_map]. rewrite assigned_FBefore, app_nil_r. intros H. apply in_app_or in H as [H|H]; [|exact (HO H)].
    unfold fthunk_branch, fmain_and_after in H. destruct (fwants m); cbn in H; destruct m; cbn in H; destruct H. }
  destruct (m && sub c E_after_module_stmt); [|exact HE]. rewrite flat_map_app. intros H. apply in_app_or in H as [H|H]; [exact (HE H)|destruct H].
Qed.

Theorem assigned_fis : forall s, asg_ok s.
Proof.
  induction s using fstmt_ind'; intros Hs; try discriminate Hs; cbn [fsrc_t fsrc_b] in Hs; apply asg_assemble; cbn [fmain_of]; try (intros x Hx; exact Hx).
  - apply andb_true_iff in Hs as [Hs Ho]. apply andb_true_iff in Hs as [Ht Hb]. intros x. rewrite !assigned_FIf. intros Hx.
    apply in_app_or in Hx as [Hx|Hx]; apply in_or_app; [left; exact (asg_list b H (fsrc_b_t b Hb) false x Hx)|right; exact (asg_list o H0 (fsrc_b_t o Ho) false x Hx)].
  - destruct v; intros x Hx; exact Hx.
Qed.

Corollary assigned_instr_sub body : forallb fsrc_b body = true -> forall x, In x (assigned_l (flat_map (fis c ge false) body)) -> In x (assigned_l body).
Proof.
  intros Hb x. apply asg_list; [|exact (fsrc_b_t body Hb)]. apply Forall_forall. intros s _. apply assigned_fis.
Qed.
End FunProofs.

(* ================================================================ the statements the properties quote *)
Section FinalFun.
Variable binop : N -> val -> val -> res val.
Variable cmpop : N -> val -> val -> res bool.
Variable unop : N -> val -> res val.
Variable truth : val -> bool.
Variable cval : scalar -> val.
Variable is_and : N -> bool.
Notation X := (frun binop cmpop unop truth cval is_and).
Notation RM := (fref_module binop cmpop unop truth cval is_and).

(* the instrumented program, whatever is subscribed and however the function guards are flipped, computes what the untouched source computes *)
Theorem fun_plain c ge pol c0 pol0 m d r sv sv' : forallb fsrc_t m = true ->
  f_exc (X c pol d (finstr_module c ge m) r sv) = f_exc (X c0 pol0 d m r sv') /\
  f_env (X c pol d (finstr_module c ge m) r sv) = f_env (X c0 pol0 d m r sv').
Proof.
  intros Hs. destruct (fmodule_sim binop cmpop unop truth cval is_and c pol ge m Hs d r sv) as (A1 & A2 & _).
  destruct (fplain_module binop cmpop unop truth cval is_and c pol ge c0 pol0 m Hs d r sv') as (B1 & B2).
  rewrite A1, A2, B1, B2. split; reflexivity.
Qed.

Theorem fun_results c1 ge1 pol1 c2 ge2 pol2 m d r sv sv' : forallb fsrc_t m = true ->
  f_exc (X c1 pol1 d (finstr_module c1 ge1 m) r sv) = f_exc (X c2 pol2 d (finstr_module c2 ge2 m) r sv') /\
  f_env (X c1 pol1 d (finstr_module c1 ge1 m) r sv) = f_env (X c2 pol2 d (finstr_module c2 ge2 m) r sv').
Proof.
  intros Hs. destruct (fun_plain c1 ge1 pol1 c1 pol1 m d r sv sv Hs) as (A1 & A2). destruct (fun_plain c2 ge2 pol2 c1 pol1 m d r sv' sv Hs) as (B1 & B2).
  rewrite A1, A2, B1, B2. split; reflexivity.
Qed.

(* ... and delivers the reference stream: every event of the fragment once per dynamic occurrence, in evaluation order, gated by the function guards *)
Theorem fun_stream c ge pol m d r sv : forallb fsrc_t m = true ->
  filter_log c (f_log (X c pol d (finstr_module c ge m) r sv)) = filter_log c (fr_log (RM c pol ge d m r)).
Proof. intros Hs. exact (proj2 (proj2 (fmodule_sim binop cmpop unop truth cval is_and c pol ge m Hs d r sv))). Qed.
End FinalFun.
