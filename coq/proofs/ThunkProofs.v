From Coq Require Import List NArith Bool Arith Lia.
Import ListNotations.
From PyccoloV Require Import model.Thunk.

Section Local.
Variable multi : nat -> bool.
Variable top : nat.
Notation step := (step false true multi top).
Notation run := (run false true multi top).

(* per-thread slots, stored on every tracer: a waiting thread finds its own value in the slot of the top tracer *)
Definition Inv (s : st) : Prop :=
  forall t, dead (threads s t) = false /\
            (waiting (threads s t) = true -> exists v rest, todo (threads s t) = Some v :: rest /\ sl s t top = Some v).

Lemma step_inv s t : Inv s -> Inv (step s t) /\ forall u, expected (threads (step s t) u) = expected (threads s u).
Proof.
  intros HI. unfold Thunk.step.
  destruct (HI t) as [Hd Hw]. rewrite Hd.
  destruct (todo (threads s t)) as [|r rest] eqn:Htodo; [split; [exact HI|reflexivity]|].
  destruct (waiting (threads s t)) eqn:Hwait.
  - destruct (Hw eq_refl) as (v & rest' & Heq & Hsl). inversion Heq; subst r rest'. clear Heq.
    unfold key. rewrite Hsl. split.
    + intros u. cbn [threads sl]. unfold upd, clear, key.
      destruct (Nat.eqb_spec u t) as [->|Hne]; cbn.
      * split; [reflexivity|discriminate].
      * destruct (HI u) as [Hdu Hwu]. split; [exact Hdu|]. intros Hx. destruct (Hwu Hx) as (v' & r' & E1 & E2).
        exists v', r'. split; [exact E1|]. try (apply Nat.eqb_neq in Hne; rewrite Hne); exact E2.
    + intros u. cbn [threads]. unfold upd. destruct (Nat.eqb_spec u t) as [->|Hne]; [|reflexivity].
      unfold expected. cbn. rewrite Htodo. cbn. rewrite <- app_assoc. reflexivity.
  - destruct r as [v|].
    + split.
      * intros u. cbn [threads sl]. unfold upd, store, key.
        destruct (Nat.eqb_spec u t) as [->|Hne]; cbn.
        -- split; [reflexivity|]. intros _. exists v, rest. split; [reflexivity|]. rewrite ?Nat.eqb_refl. reflexivity.
        -- destruct (HI u) as [Hdu Hwu]. split; [exact Hdu|]. intros Hx. destruct (Hwu Hx) as (v' & r' & E1 & E2).
           exists v', r'. split; [exact E1|]. try (apply Nat.eqb_neq in Hne; rewrite Hne); exact E2.
      * intros u. cbn [threads]. unfold upd. destruct (Nat.eqb_spec u t) as [->|Hne]; [|reflexivity].
        unfold expected. cbn. rewrite Htodo. reflexivity.
    + split.
      * intros u. cbn [threads sl]. unfold upd, store, key.
        destruct (Nat.eqb_spec u t) as [->|Hne]; cbn.
        -- split; [reflexivity|discriminate].
        -- destruct (HI u) as [Hdu Hwu]. split; [exact Hdu|]. intros Hx. destruct (Hwu Hx) as (v' & r' & E1 & E2).
           exists v', r'. split; [exact E1|]. try (apply Nat.eqb_neq in Hne; rewrite Hne); exact E2.
      * intros u. cbn [threads]. unfold upd. destruct (Nat.eqb_spec u t) as [->|Hne]; [|reflexivity].
        unfold expected. cbn. rewrite Htodo. cbn. rewrite <- app_assoc. reflexivity.
Qed.

Lemma run_inv sched : forall s, Inv s -> Inv (run sched s) /\ forall u, expected (threads (run sched s) u) = expected (threads s u).
Proof.
  induction sched as [|t sched IH]; intros s HI; [split; [exact HI|reflexivity]|].
  cbn [Thunk.run fold_left]. destruct (step_inv s t HI) as [HI1 He1].
  destruct (IH _ HI1) as [HI2 He2]. split; [exact HI2|]. intros u. unfold Thunk.run in He2. rewrite He2. apply He1.
Qed.

Lemma init_inv progs : Inv (init progs).
Proof. intros t. cbn. split; [reflexivity|discriminate]. Qed.

(* every thread, whatever the others do and however they interleave: what it has done so far is a prefix of what it does alone, and it has not failed *)
Theorem local_threads_undisturbed progs sched u :
  let th := threads (run sched (init progs)) u in
  outs th ++ map spec_out (todo th) = map spec_out (progs u) /\ dead th = false.
Proof.
  destruct (run_inv sched (init progs) (init_inv progs)) as [HI He]. cbn zeta. split.
  - exact (He u).
  - exact (proj1 (HI u)).
Qed.
End Local.

(* one slot per tracer for the whole process: a worker's emission in the window destroys the main thread's value *)
Example shared_refuted :
  let s := Thunk.run true false (fun _ => true) 0 [0; 1; 0]%nat (init (fun t => if t =? 0 then [Some 7%N] else [None])) in
  outs (threads s 0) = [Fail].
Proof. reflexivity. Qed.

(* per-thread slots stored only on tracers that may see the thread: a worker statement replaced by a multi-thread tracer below a main-only top tracer fails *)
Example visible_only_refuted :
  let s := Thunk.run false false (fun k => k =? 0) 1 [1; 1]%nat (init (fun t => if t =? 1 then [Some 7%N] else [])) in
  outs (threads s 1) = [Fail].
Proof. reflexivity. Qed.
