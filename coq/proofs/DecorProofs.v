From Coq Require Import List NArith Bool Arith Lia.
Import ListNotations.
From PyccoloV Require Import model.Ctx model.Decor proofs.CtxProofs.

Lemma wf_wrap n ts body : Forall (fun t => t < n) ts -> wf_items n body -> wf_items n (wrap ts body).
Proof.
  induction 1 as [|t ts Ht _ IH]; intros Hb; cbn [wrap]; [exact Hb|].
  cbn [wf_items wf_item]. split; [|exact I]. split; [exact Ht|].
  specialize (IH Hb). clear -IH. induction (wrap ts body) as [|x l IHl]; [exact I|]. destruct IH as [Hx Hl]. split; [exact Hx|]. now apply IHl.
Qed.

(* whatever the function does - return or raise - and from whatever state it is called (inside other contexts too), the
   call leaves the tracer stack, every tracer's flags, the hooks and the interpreter's trace function as they were *)
Theorem call_scoped cfg ts body s sp : Inv s -> Rel s sp -> Forall (fun t => t < ntr s) ts -> wf_items (ntr s) body ->
  let s' := snd (fst (run_items cfg (wrap ts body) s)) in core_eq s s' /\ Inv s'.
Proof.
  intros I R Ht Hb. pose proof (all_items_good cfg (wrap ts body) s sp I R (wf_wrap _ _ _ Ht Hb)) as H.
  destruct (run_items cfg (wrap ts body) s) as [[r s'] lg]. destruct (spec_items (wrap ts body) sp) as [r2 lg2].
  cbn. destruct H as (_ & _ & C & I'). auto.
Qed.

(* the reference for the nested contexts: every tracer of the list gets `enabled` pushed *)
Lemma spec_wrap ts : forall body sp,
  spec_items (wrap ts body) sp = spec_items body (fold_left (fun sp t => spec_push sp t true) ts sp).
Proof.
  induction ts as [|t ts IH]; intros body sp; [reflexivity|].
  cbn [wrap fold_left]. unfold spec_items at 1. cbn [spec_items_of spec_item negb].
  fold spec_items. rewrite IH.
  destruct (spec_items body _) as [r lg]. destruct r; [reflexivity|]. now rewrite app_nil_r.
Qed.

Lemma length_spec_push sp t b : length (spec_push sp t b) = length sp.
Proof. unfold spec_push. apply length_set_nth. Qed.
Lemma fires_push_same sp t b : t < length sp -> spec_fires (spec_push sp t b) t = b.
Proof. intros H. unfold spec_fires, spec_push. now rewrite nth_set_nth_same. Qed.
Lemma fires_push_other sp t u b : t <> u -> spec_fires (spec_push sp t b) u = spec_fires sp u.
Proof. intros H. unfold spec_fires, spec_push. now rewrite nth_set_nth_other. Qed.

Lemma fires_fold ts : forall sp u, Forall (fun t => t < length sp) ts ->
  spec_fires (fold_left (fun sp t => spec_push sp t true) ts sp) u = memb u ts || spec_fires sp u.
Proof.
  induction ts as [|t ts IH]; intros sp u Ht; [reflexivity|].
  inversion Ht as [|? ? H1 H2]; subst. cbn [fold_left memb existsb].
  rewrite IH by (rewrite length_spec_push; exact H2).
  destruct (Nat.eqb u t) eqn:E.
  - apply Nat.eqb_eq in E. subst u. rewrite fires_push_same by assumption. cbn [orb]. apply orb_true_r.
  - apply Nat.eqb_neq in E. rewrite fires_push_other by congruence. reflexivity.
Qed.
Lemma length_fold ts : forall sp, length (fold_left (fun sp t => spec_push sp t true) ts sp) = length sp.
Proof. induction ts as [|t ts IH]; intros sp; [reflexivity|]. cbn [fold_left]. now rewrite IH, length_spec_push. Qed.

(* during the call the function body's events reach exactly the tracers of the decorator's list (plus whoever was
   already receiving function-body events), whether the body then returns or raises *)
Theorem call_delivery cfg ts raises s sp : Inv s -> Rel s sp -> Forall (fun t => t < ntr s) ts -> length sp = ntr s ->
  view_log (ntr s) (snd (run_items cfg (wrap ts (fbody raises)) s)) =
    [(KFunc, map (fun u => memb u ts || spec_fires sp u) (seq 0 (ntr s)))].
Proof.
  intros I R Ht Hl.
  assert (Hb : wf_items (ntr s) (fbody raises)) by (unfold fbody; destruct raises; cbn; repeat split; auto; discriminate).
  pose proof (delivery_general cfg (wrap ts (fbody raises)) s sp I R (wf_wrap _ _ _ Ht Hb)) as H.
  destruct (run_items cfg (wrap ts (fbody raises)) s) as [[r s'] lg]. cbn [snd].
  rewrite spec_wrap in H.
  assert (Ht' : Forall (fun t => t < length sp) ts) by (now rewrite Hl).
  assert (E : spec_items (fbody raises) (fold_left (fun sp t => spec_push sp t true) ts sp) =
              (raises, [(KFunc, map (fun u => memb u ts || spec_fires sp u) (seq 0 (ntr s)))])).
  { unfold fbody, spec_items. destruct raises; cbn [spec_items_of spec_item]; rewrite length_fold, Hl;
      (replace (map (spec_fires _) (seq 0 (ntr s))) with (map (fun u => memb u ts || spec_fires sp u) (seq 0 (ntr s)))
         by (apply map_ext; intros u; symmetry; now apply fires_fold)); reflexivity. }
  rewrite E in H. now destruct H.
Qed.

Lemma select_first name pre c post :
  (forall x, In (Some x) pre -> x <> name) -> c = name -> select name (pre ++ Some c :: post) = Some (length pre).
Proof.
  intros Hpre ->. unfold select.
  assert (G : forall i, (fix go (l : list (option N)) (i : nat) : option nat :=
     match l with [] => None | Some n :: l' => if N.eqb n name then Some i else go l' (S i) | None :: l' => go l' (S i) end)
     (pre ++ Some name :: post) i = Some (i + length pre)).
  { induction pre as [|x pre IH]; intros i; cbn.
    - rewrite N.eqb_refl. f_equal. lia.
    - destruct x as [x|].
      + assert (x <> name) by (apply Hpre; now left). apply N.eqb_neq in H. rewrite H.
        rewrite IH by (intros y Hy; apply Hpre; now right). f_equal. lia.
      + rewrite IH by (intros y Hy; apply Hpre; now right). f_equal. lia. }
  apply G.
Qed.

(* ---- find_function_code *)
(* the objects the search can reach: constants of the level, or of generic-parameter objects among them, and so on *)
Inductive greach : list cobj -> cobj -> Prop :=
  | gr_here level c : In c (next_consts level) -> greach level c
  | gr_down level c : greach (filter co_generic (next_consts level)) c -> greach level c.

(* what is found carries the name and is reachable through type-parameter scopes only: never a function nested in an
   ordinary function (the decorated function's own nested function of the same name, seed C19-a) *)
Theorem find_code_sound fuel : forall level name c, find_code fuel level name = Some c -> co_name c = name /\ greach level c.
Proof.
  induction fuel as [|k IH]; intros level name c H; [discriminate|].
  cbn [find_code] in H. destruct level as [|l0 ls]; [discriminate|].
  destruct (find (fun c => N.eqb (co_name c) name) (next_consts (l0 :: ls))) as [c0|] eqn:E.
  - inversion H; subst c0. apply find_some in E as [Hin Hn]. apply N.eqb_eq in Hn. split; [exact Hn|now apply gr_here].
  - destruct (IH _ _ _ H) as [Hn Hr]. split; [exact Hn|now apply gr_down].
Qed.
(* nearest to the top: a constant of the level with the name wins over anything deeper, and it is the first such *)
Theorem find_code_top k level name c : level <> [] ->
  find (fun c => N.eqb (co_name c) name) (next_consts level) = Some c -> find_code (S k) level name = Some c.
Proof. intros Hne E. cbn [find_code]. destruct level; [congruence|]. now rewrite E. Qed.
(* a function with type parameters: its code sits in the <generic parameters> object, one level down *)
Theorem find_code_generic k m name g c :
  find (fun c => N.eqb (co_name c) name) (co_consts m) = None ->
  filter co_generic (co_consts m) = [g] ->
  find (fun c => N.eqb (co_name c) name) (co_consts g) = Some c ->
  find_code (S (S k)) [m] name = Some c.
Proof.
  intros E1 E2 E3. cbn [find_code next_consts flat_map]. rewrite app_nil_r, E1, E2. cbn [next_consts flat_map]. rewrite app_nil_r, E3. reflexivity.
Qed.
