(* Proofs about model/FragLoop.v: while loops and guards on the fragment - the instrumented program under ANY guard schedule against the gated reference *)
From Coq Require Import List ZArith NArith Bool Lia.
Import ListNotations.
From PyccoloV Require Import gen.PyAst gen.Ids gen.Events model.Tree model.Erase model.RwFrag model.FragSem proofs.FragSemProofs model.FragLoop.
Local Open Scope N_scope.

Fixpoint lsrc_s (s : lstmt) : bool :=
  match s with
  | LExpr _ v | LAssign _ _ v => src_e v
  | LPass _ | LBreak _ | LContinue _ => true
  | LIf _ t b o | LWhile _ t b o => src_e t && forallb lsrc_s b && forallb lsrc_s o
  | _ => false
  end.

Section IndL.
Variable P : lstmt -> Prop.
Hypothesis HExpr : forall n v, P (LExpr n v).
Hypothesis HAssign : forall n xs v, P (LAssign n xs v).
Hypothesis HPass : forall n, P (LPass n).
Hypothesis HIf : forall n t b o, Forall P b -> Forall P o -> P (LIf n t b o).
Hypothesis HWhile : forall n t b o, Forall P b -> Forall P o -> P (LWhile n t b o).
Hypothesis HBreak : forall n, P (LBreak n).
Hypothesis HContinue : forall n, P (LContinue n).
Hypothesis HEmit : forall e n v g, P (LEmit e n v g).
Hypothesis HBefore : forall n tb own, P (LBefore n tb own).
Hypothesis HWhileG : forall n g t' t b o, P (LWhileG n g t' t b o).
Hypothesis HGuardIf : forall g before i p, P (LGuardIf g before i p).
Hypothesis HTry : forall b fin, P (LTry b fin).
Fixpoint lstmt_ind' (s : lstmt) : P s :=
  let fix all (l : list lstmt) : Forall P l := match l with [] => Forall_nil P | x :: l' => Forall_cons x (lstmt_ind' x) (all l') end in
  match s with
  | LExpr n v => HExpr n v
  | LAssign n xs v => HAssign n xs v
  | LPass n => HPass n
  | LIf n t b o => HIf n t b o (all b) (all o)
  | LWhile n t b o => HWhile n t b o (all b) (all o)
  | LBreak n => HBreak n
  | LContinue n => HContinue n
  | LEmit e n v g => HEmit e n v g
  | LBefore n tb own => HBefore n tb own
  | LWhileG n g t' t b o => HWhileG n g t' t b o
  | LGuardIf g before i p => HGuardIf g before i p
  | LTry b fin => HTry b fin
  end.
End IndL.

Lemma filter_none l : filter_log no_events l = [].
Proof. unfold filter_log. induction l; [reflexivity|exact IHl]. Qed.

Section LoopProofs.
Variable binop : N -> val -> val -> res val.
Variable cmpop : N -> val -> val -> res bool.
Variable unop : N -> val -> res val.
Variable truth : val -> bool.
Variable cval : scalar -> val.
Variable is_and : N -> bool.
Variable c : rcfg.
Variable pol : list entry -> guard -> bool.
Variable fuel : nat.
Variable ge : bool.

Notation eval_e := (eval_e binop cmpop unop truth cval is_and).
Notation ref_e := (ref_e binop cmpop unop truth cval is_and).
Notation lexec_s := (lexec_s binop cmpop unop truth cval is_and c pol fuel).
Notation lexec_l := (lexec_l binop cmpop unop truth cval is_and c pol fuel).
Notation lref_s := (lref_s binop cmpop unop truth cval is_and c pol fuel ge).
Notation lref_l := (lref_l binop cmpop unop truth cval is_and c pol fuel ge).
Notation gon := (gon c pol).

(* a source expression as it is evaluates to the reference result and emits nothing *)
Lemma eval_src t r : src_e t = true -> eval_e t r = (fst (ref_e t r), []).
Proof.
  intros Hs. pose proof (eval_ie binop cmpop unop truth cval is_and no_events t Hs r) as H.
  rewrite (ie_none no_events (fun _ => eq_refl) t Hs), filter_none in H. exact H.
Qed.

(* ---- the loops by name *)
Definition lloop (test : env -> list entry -> res val * list entry) (b o : list lstmt) :=
  fix loop (f : nat) (r : env) (saved : val) (pre : list entry) {struct f} : lres :=
    match f with
    | O => {| l_exc := Some LFuel; l_env := r; l_saved := saved; l_log := [] |}
    | S f' =>
        let '(q, lt) := test r pre in
        match q with
        | Err e => {| l_exc := Some (LX e); l_env := r; l_saved := saved; l_log := lt |}
        | Ok vt =>
            if truth vt then
              let a := lexec_l b r saved (pre ++ lt) in
              match l_exc a with
              | Some LBrk => {| l_exc := None; l_env := l_env a; l_saved := l_saved a; l_log := lt ++ l_log a |}
              | None | Some LCnt =>
                  let z := loop f' (l_env a) (l_saved a) (pre ++ lt ++ l_log a) in
                  {| l_exc := l_exc z; l_env := l_env z; l_saved := l_saved z; l_log := lt ++ l_log a ++ l_log z |}
              | Some _ => {| l_exc := l_exc a; l_env := l_env a; l_saved := l_saved a; l_log := lt ++ l_log a |}
              end
            else let a := lexec_l o r saved (pre ++ lt) in
                 {| l_exc := l_exc a; l_env := l_env a; l_saved := l_saved a; l_log := lt ++ l_log a |}
        end
    end.
Lemma lexec_LWhile n t b o r sv pre : lexec_s (LWhile n t b o) r sv pre = lloop (fun r _ => eval_e t r) b o fuel r sv pre.
Proof. reflexivity. Qed.
Lemma lexec_LWhileG n g t' t b o r sv pre :
  lexec_s (LWhileG n g t' t b o) r sv pre = lloop (fun r pre => if gon pre g then eval_e t' r else eval_e t r) b o fuel r sv pre.
Proof. reflexivity. Qed.
Lemma lexec_l_cons x u r sv pre : lexec_l (x :: u) r sv pre = lseq (lexec_s x r sv pre) (lexec_l u) pre.
Proof. reflexivity. Qed.
Lemma lexec_LIf n t b o r sv pre :
  lexec_s (LIf n t b o) r sv pre =
  let '(q, l) := eval_e t r in
  match q with
  | Ok vt => let a := lexec_l (if truth vt then b else o) r sv (pre ++ l) in
             {| l_exc := l_exc a; l_env := l_env a; l_saved := l_saved a; l_log := l ++ l_log a |}
  | Err e => {| l_exc := Some (LX e); l_env := r; l_saved := sv; l_log := l |}
  end.
Proof. reflexivity. Qed.
Lemma lexec_LBefore n tb own r sv pre :
  lexec_s (LBefore n tb own) r sv pre =
  let a := lexec_l own r sv (pre ++ [(E_before_stmt, n, Some VNone)]) in
  {| l_exc := l_exc a; l_env := l_env a; l_saved := l_saved a; l_log := (E_before_stmt, n, Some VNone) :: l_log a |}.
Proof. reflexivity. Qed.
Lemma lexec_LGuardIf g before i p r sv pre :
  lexec_s (LGuardIf g before i p) r sv pre =
  if gon pre g then
    match before with
    | Some n => let a := lexec_l i r sv (pre ++ [(E_before_while_loop_body, n, Some (cval (SBool true)))]) in
                {| l_exc := l_exc a; l_env := l_env a; l_saved := l_saved a; l_log := (E_before_while_loop_body, n, Some (cval (SBool true))) :: l_log a |}
    | None => lexec_l i r sv pre
    end
  else lexec_l p r sv pre.
Proof. reflexivity. Qed.
Lemma lexec_LTry b fin r sv pre :
  lexec_s (LTry b fin) r sv pre =
  let a := lexec_l b r sv pre in
  let z := lexec_l fin (l_env a) (l_saved a) (pre ++ l_log a) in
  {| l_exc := match l_exc z with Some x => Some x | None => l_exc a end; l_env := l_env z; l_saved := l_saved z; l_log := l_log a ++ l_log z |}.
Proof. reflexivity. Qed.

(* ---- the reference by name *)
Definition say (quiet : bool) (l : list entry) : list entry := if quiet then [] else l.
Definition ebw (n : N) : entry := (E_before_while_loop_body, n, Some (cval (SBool true))).
Definition eaw (n : N) : entry := (E_after_while_loop_iter, n, Some VNone).
Definition rloop (quiet : bool) (n : N) (t : texpr) (b o : list lstmt) :=
  fix loop (f : nat) (r : env) (pre : list entry) {struct f} : rlres :=
    match f with
    | O => {| rl_exc := Some LFuel; rl_env := r; rl_log := [] |}
    | S f' =>
        let '(q, l) := ref_e t r in
        let loud_t := negb quiet && (negb ge || gon pre (GTest n)) in
        let lt := if loud_t then l ++ emitted E_after_while_test n q else [] in
        match q with
        | Err e => {| rl_exc := Some (LX e); rl_env := r; rl_log := lt |}
        | Ok vt =>
            if truth vt then
              let loud_b := negb quiet && (negb ge || gon (pre ++ lt) (GBody n)) in
              let lb := if loud_b then [ebw n] else [] in
              let a := lref_l (negb loud_b) false b r (pre ++ lt ++ lb) in
              let la := if loud_b then [eaw n] else [] in
              match rl_exc a with
              | Some LBrk => {| rl_exc := None; rl_env := rl_env a; rl_log := lt ++ lb ++ rl_log a ++ la |}
              | None | Some LCnt =>
                  let z := loop f' (rl_env a) (pre ++ lt ++ lb ++ rl_log a ++ la) in
                  {| rl_exc := rl_exc z; rl_env := rl_env z; rl_log := lt ++ lb ++ rl_log a ++ la ++ rl_log z |}
              | Some _ => {| rl_exc := rl_exc a; rl_env := rl_env a; rl_log := lt ++ lb ++ rl_log a ++ la |}
              end
            else let a := lref_l quiet false o r (pre ++ lt) in
                 {| rl_exc := rl_exc a; rl_env := rl_env a; rl_log := lt ++ rl_log a |}
        end
    end.

Definition lbody_of (quiet : bool) (s : lstmt) (r : env) (pre : list entry) : option lexc * env * list entry * val :=
  let n := lid s in
  match s with
  | LExpr _ v => let '(q, l) := ref_e v r in (lexc_of q, r, say quiet (l ++ emitted E_after_expr_stmt n q), match q with Ok x => x | Err _ => VNone end)
  | LAssign _ xs v =>
      let '(q, l) := ref_e v r in
      (lexc_of q, match q with Ok x => fold_left (fun r' y => upd r' y x) xs r | Err _ => r end,
       say quiet ((E_before_assign_rhs, xid v, None) :: l ++ emitted E_after_assign_rhs (xid v) q), VNone)
  | LPass _ => (None, r, [], VNone)
  | LBreak _ => (Some LBrk, r, [], VNone)
  | LContinue _ => (Some LCnt, r, [], VNone)
  | LIf _ t b o =>
      let '(q, l) := ref_e t r in
      match q with
      | Ok vt => let l1 := say quiet (l ++ [(E_after_if_test, n, Some vt)]) in
                 let a := lref_l quiet false (if truth vt then b else o) r (pre ++ say quiet [(E_before_stmt, n, Some VNone)] ++ l1) in
                 (rl_exc a, rl_env a, l1 ++ rl_log a, VNone)
      | Err e => (Some (LX e), r, say quiet l, VNone)
      end
  | LWhile _ t b o =>
      let z := rloop quiet n t b o fuel r (pre ++ say quiet [(E_before_stmt, n, Some VNone)]) in
      (rl_exc z, rl_env z, rl_log z, VNone)
  | _ => (Some (LX ETypeError), r, [], VNone)
  end.

Lemma lref_unfold quiet m s r pre : lref_s quiet m s r pre =
  let '(x, r', l, v) := lbody_of quiet s r pre in
  let after_value := if m then v else VNone in
  {| rl_exc := x; rl_env := r';
     rl_log := say quiet [(E_before_stmt, lid s, Some VNone)] ++ l ++
               match x with
               | Some _ => []
               | None => say quiet ((E_after_stmt, lid s, Some after_value) :: (if m then [(E_after_module_stmt, lid s, Some after_value)] else []))
               end |}.
Proof. destruct s; reflexivity. Qed.

Lemma lref_l_cons quiet m x u r pre : lref_l quiet m (x :: u) r pre = rseq (lref_s quiet m x r pre) (lref_l quiet m u) pre.
Proof. reflexivity. Qed.

(* ================================================================ the pristine copy: source semantics, nothing emitted *)
Record quiet_rel (a : lres) (b : rlres) (sv : val) : Prop := {
  q_exc : l_exc a = rl_exc b; q_env : l_env a = rl_env b; q_saved : l_saved a = sv; q_log : l_log a = []; q_rlog : rl_log b = [] }.

Definition quiet_ok (s : lstmt) : Prop := lsrc_s s = true -> forall r sv pre pre',
  quiet_rel (lexec_s (pr ge s) r sv pre) (lref_s true false s r pre') sv.

Lemma quiet_list u : Forall quiet_ok u -> forallb lsrc_s u = true -> forall r sv pre pre',
  quiet_rel (lexec_l (map (pr ge) u) r sv pre) (lref_l true false u r pre') sv.
Proof.
  induction 1 as [|x u Hx _ IH]; intros Hs r sv pre pre'.
  - split; reflexivity.
  - cbn [forallb] in Hs. apply andb_true_iff in Hs as [Hsx Hs]. cbn [map]. rewrite lexec_l_cons, lref_l_cons.
    destruct (Hx Hsx r sv pre pre') as [A1 A2 A3 A4 A5]. unfold lseq, rseq. rewrite A1.
    destruct (rl_exc (lref_s true false x r pre')) eqn:Ex.
    + split; try assumption. rewrite Ex. exact A1.
    + destruct (IH Hs (l_env (lexec_s (pr ge x) r sv pre)) (l_saved (lexec_s (pr ge x) r sv pre)) (pre ++ l_log (lexec_s (pr ge x) r sv pre))
                  (pre' ++ rl_log (lref_s true false x r pre'))) as [B1 B2 B3 B4 B5].
      rewrite A2 in *. split; cbn [l_exc l_env l_saved l_log rl_exc rl_env rl_log]; try assumption.
      * rewrite B3. exact A3.
      * rewrite B4, A4. reflexivity.
      * rewrite B5, A5. reflexivity.
Qed.

Lemma quiet_loop n t b o (test : env -> list entry -> res val * list entry) :
  src_e t = true -> (forall r pre, test r pre = (fst (ref_e t r), [])) ->
  Forall quiet_ok b -> Forall quiet_ok o -> forallb lsrc_s b = true -> forallb lsrc_s o = true ->
  forall f r sv pre pre',
  quiet_rel (lloop test (map (pr ge) b) (map (pr ge) o) f r sv pre) (rloop true n t b o f r pre') sv.
Proof.
  intros Ht Htest Fb Fo Hb Ho. induction f as [|f IH]; intros r sv pre pre'.
  - split; reflexivity.
  - cbn [lloop rloop]. rewrite Htest. destruct (ref_e t r) as [[vt|e] l]; cbn [fst negb andb].
    + destruct (truth vt).
      * match goal with |- context [lexec_l (map (pr ge) b) r sv ?p] => match goal with |- context [lref_l true false b r ?p'] =>
          destruct (quiet_list b Fb Hb r sv p p') as [A1 A2 A3 A4 A5];
          remember (lexec_l (map (pr ge) b) r sv p) as A eqn:EA; remember (lref_l true false b r p') as B eqn:EB end end.
        rewrite A1.
        destruct (rl_exc B) as [[e| | |]|] eqn:Ex;
          try (split; cbn [l_exc l_env l_saved l_log rl_exc rl_env rl_log]; try assumption; rewrite ?A4, ?A5; reflexivity);
          (match goal with |- context [lloop test _ _ f (l_env A) (l_saved A) ?p] => match goal with |- context [rloop true n t b o f (rl_env B) ?p'] =>
             destruct (IH (l_env A) (l_saved A) p p') as [B1 B2 B3 B4 B5] end end;
           rewrite A2 in *; split; cbn [l_exc l_env l_saved l_log rl_exc rl_env rl_log]; try assumption;
           [rewrite B3; exact A3|rewrite B4, A4; reflexivity|rewrite B5, A5; reflexivity]).
      * match goal with |- context [lexec_l (map (pr ge) o) r sv ?p] => match goal with |- context [lref_l true false o r ?p'] =>
          destruct (quiet_list o Fo Ho r sv p p') as [A1 A2 A3 A4 A5] end end.
        split; cbn [l_exc l_env l_saved l_log rl_exc rl_env rl_log]; try assumption; rewrite ?A4, ?A5; reflexivity.
    + split; reflexivity.
Qed.

Theorem quiet_stmt : forall s, quiet_ok s.
Proof.
  induction s using lstmt_ind'; intros Hs r sv pre pre'; try discriminate Hs; cbn [lsrc_s] in Hs; rewrite lref_unfold; cbn [pr lbody_of lid].
  - (* Expr *)
    cbn [FragLoop.lexec_s]. rewrite (eval_src v r Hs). destruct (ref_e v r) as [[x|e] l]; cbn [fst say app]; split; reflexivity.
  - (* Assign *)
    cbn [FragLoop.lexec_s]. rewrite (eval_src v r Hs). destruct (ref_e v r) as [[x|e] l]; cbn [fst say app]; split; reflexivity.
  - (* Pass *)
    split; reflexivity.
  - (* If *)
    apply andb_true_iff in Hs as [Hs Ho]. apply andb_true_iff in Hs as [Ht Hb].
    rewrite lexec_LIf, (eval_src t r Ht). destruct (ref_e t r) as [[vt|e] l]; cbn [fst say app]; [|split; reflexivity].
    assert (Q : quiet_rel (lexec_l (if truth vt then map (pr ge) b else map (pr ge) o) r sv (pre ++ []))
                          (lref_l true false (if truth vt then b else o) r (pre' ++ [])) sv)
      by (destruct (truth vt); [apply quiet_list|apply quiet_list]; assumption).
    destruct Q as [A1 A2 A3 A4 A5]. cbn [app]. rewrite A5.
    split; cbn [l_exc l_env l_saved l_log rl_exc rl_env rl_log app]; try assumption.
    destruct (rl_exc _); reflexivity.
  - (* While *)
    apply andb_true_iff in Hs as [Hs Ho]. apply andb_true_iff in Hs as [Ht Hb].
    assert (Q : quiet_rel (lexec_s (if ge then LWhileG n (GTest n) t t (map (pr ge) b) (map (pr ge) o) else LWhile n t (map (pr ge) b) (map (pr ge) o)) r sv pre)
                          (rloop true n t b o fuel r (pre' ++ [])) sv).
    { assert (E : forall X Y : lstmt, (if ge then X else Y) = X \/ (if ge then X else Y) = Y) by (intros; destruct ge; auto).
      destruct (E (LWhileG n (GTest n) t t (map (pr ge) b) (map (pr ge) o)) (LWhile n t (map (pr ge) b) (map (pr ge) o))) as [-> | ->];
        [rewrite lexec_LWhileG|rewrite lexec_LWhile]; apply quiet_loop; try assumption; intros r0 pre0; rewrite ?(eval_src t r0 Ht);
        try reflexivity. destruct (gon pre0 (GTest n)); reflexivity. }
    destruct Q as [A1 A2 A3 A4 A5]. cbn [say app]. rewrite A5.
    split; cbn [l_exc l_env l_saved l_log rl_exc rl_env rl_log app]; try assumption.
    destruct (rl_exc _); reflexivity.
  - (* break *)
    split; reflexivity.
  - (* continue *)
    split; reflexivity.
Qed.

(* ================================================================ the instrumented program against the gated reference *)
Notation fl := (filter_log c).
Definition lsim (a : lres) (b : rlres) : Prop := l_exc a = rl_exc b /\ l_env a = rl_env b /\ fl (l_log a) = fl (rl_log b).

Lemma gon_fl p p' g : fl p = fl p' -> gon p g = gon p' g.
Proof. unfold FragLoop.gon. intros ->. reflexivity. Qed.
Lemma fl_pre p p' a b : fl p = fl p' -> fl a = fl b -> fl (p ++ a) = fl (p' ++ b).
Proof. intros H1 H2. rewrite !fl_app, H1, H2. reflexivity. Qed.

Lemma lexec_l_nil r sv pre : lexec_l [] r sv pre = {| l_exc := None; l_env := r; l_saved := sv; l_log := [] |}.
Proof. reflexivity. Qed.
Lemma lexec_l_single x r sv pre : lexec_l [x] r sv pre = lexec_s x r sv pre.
Proof. rewrite lexec_l_cons. unfold lseq. cbn. destruct (lexec_s x r sv pre) as [[e|] r' sv' l]; cbn; rewrite ?app_nil_r; reflexivity. Qed.
Lemma lexec_l_app u w : forall r sv pre, lexec_l (u ++ w) r sv pre = lseq (lexec_l u r sv pre) (lexec_l w) pre.
Proof.
  induction u as [|x u IH]; intros r sv pre.
  - cbn [app]. unfold lseq. cbn. rewrite app_nil_r. destruct (lexec_l w r sv pre); reflexivity.
  - cbn [app]. rewrite !lexec_l_cons. unfold lseq at 1 3. destruct (l_exc (lexec_s x r sv pre)) eqn:E.
    + unfold lseq. rewrite E. reflexivity.
    + rewrite IH. unfold lseq. cbn [l_exc l_env l_saved l_log].
      destruct (l_exc (lexec_l u (l_env (lexec_s x r sv pre)) (l_saved (lexec_s x r sv pre)) (pre ++ l_log (lexec_s x r sv pre)))) eqn:E2;
        cbn [l_exc l_env l_saved l_log]; rewrite ?E2; [reflexivity|].
      rewrite !app_assoc. reflexivity.
Qed.

Definition loud_ok (s : lstmt) : Prop := lsrc_s s = true -> forall m r sv pre pre', fl pre = fl pre' ->
  lsim (lexec_l (lis c ge m s) r sv pre) (lref_s false m s r pre').

Lemma loud_list u : Forall loud_ok u -> forallb lsrc_s u = true -> forall m r sv pre pre', fl pre = fl pre' ->
  lsim (lexec_l (flat_map (lis c ge m) u) r sv pre) (lref_l false m u r pre').
Proof.
  induction 1 as [|x u Hx _ IH]; intros Hs m r sv pre pre' Hp.
  - repeat split.
  - cbn [forallb] in Hs. apply andb_true_iff in Hs as [Hsx Hs].
    cbn [flat_map]. rewrite lexec_l_app, lref_l_cons.
    destruct (Hx Hsx m r sv pre pre' Hp) as (E1 & E2 & E3). unfold lseq, rseq. rewrite E1.
    destruct (rl_exc (lref_s false m x r pre')) eqn:Ex.
    + unfold lsim. rewrite Ex. repeat split; assumption.
    + destruct (IH Hs m (l_env (lexec_l (lis c ge m x) r sv pre)) (l_saved (lexec_l (lis c ge m x) r sv pre))
                  (pre ++ l_log (lexec_l (lis c ge m x) r sv pre)) (pre' ++ rl_log (lref_s false m x r pre')) (fl_pre _ _ _ _ Hp E3)) as (F1 & F2 & F3).
      rewrite E2 in F1, F2, F3. unfold lsim. cbn [l_exc l_env l_log rl_exc rl_env rl_log]. rewrite E2. split; [exact F1|split; [exact F2|]].
      rewrite !fl_app, E3, F3. reflexivity.
Qed.

Lemma quiet_all u : Forall quiet_ok u.
Proof. apply Forall_forall. intros s _. apply quiet_stmt. Qed.

Lemma fl_single e n v : fl [(e, n, v)] = if sub c e then [(e, n, v)] else [].
Proof. rewrite fl_cons, fl_nil, app_nil_r. reflexivity. Qed.
Lemma ge_cases : ge = true \/ ge = false.
Proof. destruct ge; auto. Qed.

Section OneLoop.
Variables (n : N) (t : texpr) (b o : list lstmt).
Hypothesis Ht : src_e t = true.
Hypothesis Hb : forallb lsrc_s b = true.
Hypothesis Ho : forallb lsrc_s o = true.
Hypothesis Fb : Forall loud_ok b.
Hypothesis Fo : Forall loud_ok o.

Definition W_t' := wrap c E_after_while_test n (ie c t).
Definition W_b' := flat_map (lis c ge false) b.
Definition W_o' := flat_map (lis c ge false) o.
Definition W_after := if sub c E_after_while_loop_iter
                      then [LTry W_b' [LEmit E_after_while_loop_iter n None (Some (if ge then Some (GBody n) else None))]] else W_b'.
Definition W_body := if ge then [LGuardIf (GBody n) (if sub c E_before_while_loop_body then Some n else None) W_after (map (pr ge) b)]
                     else (if sub c E_before_while_loop_body then [LEmit E_before_while_loop_body n (Some (XConst 0 (SBool true))) None] else []) ++ W_after.
Definition W_test := fun (r : env) (pre : list entry) => if ge then (if gon pre (GTest n) then eval_e W_t' r else eval_e t r) else eval_e W_t' r.
Definition bwlb : entry := ebw n.
Definition awli : entry := eaw n.

Lemma test_sim r p p' : fl p = fl p' ->
  fst (W_test r p) = fst (ref_e t r) /\
  fl (snd (W_test r p)) = fl (if negb ge || gon p' (GTest n) then snd (ref_e t r) ++ emitted E_after_while_test n (fst (ref_e t r)) else []).
Proof.
  intros Hp. unfold W_test, W_t'. rewrite eval_wrap, (eval_ie binop cmpop unop truth cval is_and c t Ht), (eval_src t r Ht), (gon_fl p p' _ Hp).
  destruct (ref_e t r) as [q l]. cbn [fst snd].
  destruct ge_cases as [E|E]; rewrite E; cbn [negb orb]; [destruct (gon p' (GTest n))|]; cbn [fst snd]; split; try reflexivity;
    rewrite ?fl_app, ?fl_idem, ?fl_if, ?fl_emitted, ?fl_nil; destruct (sub c E_after_while_test); reflexivity.
Qed.

Lemma after_sim r sv q q' : fl q = fl q' ->
  let A := lexec_l W_after r sv q in
  let a := lref_l false false b r q' in
  l_exc A = rl_exc a /\ l_env A = rl_env a /\ fl (l_log A) = fl (rl_log a ++ [awli]).
Proof.
  intros Hq. cbv zeta. destruct (loud_list b Fb Hb false r sv q q' Hq) as (E1 & E2 & E3). fold W_b' in E1, E2, E3.
  unfold W_after. destruct (sub c E_after_while_loop_iter) eqn:Ea.
  - rewrite lexec_l_single, lexec_LTry. cbv zeta. rewrite lexec_l_single. cbn [FragLoop.lexec_s l_exc l_env l_saved l_log].
    repeat split; try assumption. rewrite !fl_app, E3. reflexivity.
  - repeat split; try assumption. rewrite fl_app, E3. unfold awli, eaw. rewrite fl_single, Ea, app_nil_r. reflexivity.
Qed.

Lemma iter_sim r sv p p' : fl p = fl p' ->
  let LB := negb ge || gon p' (GBody n) in
  let lb := if LB then [bwlb] else [] in
  let A := lexec_l W_body r sv p in
  let a := lref_l (negb LB) false b r (p' ++ lb) in
  let la := if LB then [awli] else [] in
  l_exc A = rl_exc a /\ l_env A = rl_env a /\ fl (l_log A) = fl (lb ++ rl_log a ++ la).
Proof.
  intros Hp. cbv zeta. unfold W_body.
  destruct ge_cases as [E|E].
  - (* guards enabled: the guard test chooses between the instrumented body and the pristine copy *)
    replace (if ge then [LGuardIf (GBody n) (if sub c E_before_while_loop_body then Some n else None) W_after (map (pr ge) b)]
             else (if sub c E_before_while_loop_body then [LEmit E_before_while_loop_body n (Some (XConst 0 (SBool true))) None] else []) ++ W_after)
      with [LGuardIf (GBody n) (if sub c E_before_while_loop_body then Some n else None) W_after (map (pr ge) b)] by (rewrite E; reflexivity).
    replace (negb ge) with false by (rewrite E; reflexivity). cbn [orb].
    rewrite lexec_l_single, lexec_LGuardIf, (gon_fl p p' _ Hp).
    destruct (gon p' (GBody n)) eqn:G; cbn [negb].
    + destruct (sub c E_before_while_loop_body) eqn:Bf.
      * cbv zeta. match goal with |- context [lexec_l W_after r sv ?q] =>
          assert (Hq : fl q = fl (p' ++ [bwlb])) by (apply fl_pre; [exact Hp|reflexivity]);
          destruct (after_sim r sv q _ Hq) as (A1 & A2 & A3) end.
        cbn [l_exc l_env l_log]. repeat split; try assumption.
        cbn [app]. rewrite (fl_cons c E_before_while_loop_body), A3. unfold bwlb, ebw. rewrite (fl_cons c E_before_while_loop_body). reflexivity.
      * assert (Hq : fl p = fl (p' ++ [bwlb])) by (rewrite fl_app, Hp; unfold bwlb, ebw; rewrite fl_single, Bf, app_nil_r; reflexivity).
        destruct (after_sim r sv _ _ Hq) as (A1 & A2 & A3). unfold bwlb, awli, ebw, eaw in *. repeat split; try assumption.
        rewrite A3. cbn [app]. rewrite (fl_cons c E_before_while_loop_body), Bf. reflexivity.
    + destruct (quiet_list b (quiet_all b) Hb r sv p (p' ++ [])) as [Q1 Q2 Q3 Q4 Q5].
      repeat split; try assumption. rewrite Q4, Q5. reflexivity.
  - (* guards disabled: always instrumented *)
    replace (if ge then [LGuardIf (GBody n) (if sub c E_before_while_loop_body then Some n else None) W_after (map (pr ge) b)]
             else (if sub c E_before_while_loop_body then [LEmit E_before_while_loop_body n (Some (XConst 0 (SBool true))) None] else []) ++ W_after)
      with ((if sub c E_before_while_loop_body then [LEmit E_before_while_loop_body n (Some (XConst 0 (SBool true))) None] else []) ++ W_after) by (rewrite E; reflexivity).
    replace (negb ge) with true by (rewrite E; reflexivity). cbn [orb negb].
    destruct (sub c E_before_while_loop_body) eqn:Bf.
    + cbn [app]. rewrite lexec_l_cons. unfold lseq. cbn [FragLoop.lexec_s FragSem.eval_e l_exc l_env l_saved l_log app].
      match goal with |- context [lexec_l W_after r ?s0 ?q] =>
        assert (Hq : fl q = fl (p' ++ [bwlb])) by (apply fl_pre; [exact Hp|reflexivity]);
        destruct (after_sim r s0 q _ Hq) as (A1 & A2 & A3) end.
      repeat split; try assumption.
      cbn [app]. rewrite (fl_cons c E_before_while_loop_body), A3. unfold bwlb, ebw. rewrite (fl_cons c E_before_while_loop_body). reflexivity.
    + cbn [app].
      assert (Hq : fl p = fl (p' ++ [bwlb])) by (rewrite fl_app, Hp; unfold bwlb, ebw; rewrite fl_single, Bf, app_nil_r; reflexivity).
      destruct (after_sim r sv _ _ Hq) as (A1 & A2 & A3). unfold bwlb, awli, ebw, eaw in *. repeat split; try assumption.
      rewrite A3. cbn [app]. rewrite (fl_cons c E_before_while_loop_body), Bf. reflexivity.
Qed.

Lemma loop_sim : forall f r sv p p', fl p = fl p' ->
  lsim (lloop W_test W_body W_o' f r sv p) (rloop false n t b o f r p').
Proof.
  induction f as [|f IH]; intros r sv p p' Hp.
  - repeat split.
  - cbn [lloop rloop]. cbn [negb andb].
    destruct (test_sim r p p' Hp) as (T1 & T2).
    destruct (W_test r p) as [q LT]. destruct (ref_e t r) as [q0 l]. cbn [fst snd] in T1, T2. subst q0.
    set (lt := if negb ge || gon p' (GTest n) then l ++ emitted E_after_while_test n q else []) in *.
    destruct q as [vt|e]; [|repeat split; exact T2].
    assert (Hq : fl (p ++ LT) = fl (p' ++ lt)) by (apply fl_pre; assumption).
    destruct (truth vt).
    + pose proof (iter_sim r sv (p ++ LT) (p' ++ lt) Hq) as HI. cbv zeta in HI. unfold bwlb, awli in HI.
      set (LB := negb ge || gon (p' ++ lt) (GBody n)) in *.
      set (lb := if LB then [ebw n] else []) in *.
      set (la := if LB then [eaw n] else []) in *.
      replace (p' ++ lt ++ lb) with ((p' ++ lt) ++ lb) by (rewrite app_assoc; reflexivity).
      destruct HI as (I1 & I2 & I3).
      set (A := lexec_l W_body r sv (p ++ LT)) in *.
      set (a := lref_l (negb LB) false b r ((p' ++ lt) ++ lb)) in *.
      rewrite I1.
      assert (Hcont : lsim (let z := lloop W_test W_body W_o' f (l_env A) (l_saved A) (p ++ LT ++ l_log A) in
                            {| l_exc := l_exc z; l_env := l_env z; l_saved := l_saved z; l_log := LT ++ l_log A ++ l_log z |})
                           (let z := rloop false n t b o f (rl_env a) (p' ++ lt ++ lb ++ rl_log a ++ la) in
                            {| rl_exc := rl_exc z; rl_env := rl_env z; rl_log := lt ++ lb ++ rl_log a ++ la ++ rl_log z |})).
      { cbv zeta. assert (Hn : fl (p ++ LT ++ l_log A) = fl (p' ++ lt ++ lb ++ rl_log a ++ la)).
        { rewrite !fl_app, Hp, T2, I3, !fl_app. reflexivity. }
        destruct (IH (l_env A) (l_saved A) _ _ Hn) as (J1 & J2 & J3). rewrite I2 in J1, J2, J3.
        unfold lsim. cbn [l_exc l_env l_log rl_exc rl_env rl_log]. rewrite I2. repeat split; try assumption.
        rewrite !fl_app, T2, I3, J3, !fl_app, <- !app_assoc. reflexivity. }
      destruct (rl_exc a) as [[e| | |]|] eqn:Ex; try exact Hcont;
        unfold lsim; cbn [l_exc l_env l_log rl_exc rl_env rl_log]; repeat split; try assumption; try reflexivity;
        rewrite !fl_app, T2, I3, !fl_app; reflexivity.
    + destruct (loud_list o Fo Ho false r sv (p ++ LT) (p' ++ lt) Hq) as (O1 & O2 & O3). fold W_o' in O1, O2, O3.
      unfold lsim. cbn [l_exc l_env l_log rl_exc rl_env rl_log]. repeat split; try assumption.
      rewrite !fl_app, T2, O3. reflexivity.
Qed.

Definition W_main : lstmt := if ge then LWhileG n (GTest n) W_t' t W_body W_o' else LWhile n W_t' W_body W_o'.
Lemma main_exec r sv p : lexec_s W_main r sv p = lloop W_test W_body W_o' fuel r sv p.
Proof.
  unfold W_main, W_test. destruct ge_cases as [E|E]; rewrite E; [rewrite lexec_LWhileG|rewrite lexec_LWhile]; reflexivity.
Qed.
End OneLoop.

(* ================================================================ statements *)
Definition lmain_of (s : lstmt) : lstmt :=
  match s with
  | LExpr n v => LExpr n (wrap c E_after_expr_stmt n (ie c v))
  | LAssign n xs v =>
      let v1 := ie c v in
      let v2 := if sub c E_before_assign_rhs then XDefRhs (xid v) v1 else v1 in
      LAssign n xs (wrap c E_after_assign_rhs (xid v) v2)
  | LIf n t b o => LIf n (wrap c E_after_if_test n (ie c t)) (flat_map (lis c ge false) b) (flat_map (lis c ge false) o)
  | LWhile n t b o => W_main n t b o
  | other => other
  end.
Definition l_is_expr (s : lstmt) : bool := match s with LExpr _ _ => true | _ => false end.
Definition lmvalue (s : lstmt) : texpr := match lmain_of s with LExpr _ v => v | _ => XThunkCall end.
Definition lwants (m : bool) : bool := sub c E_after_stmt || (sub c E_after_module_stmt && m).
Definition lown_of (m : bool) (s : lstmt) : list lstmt := lmain_and_after (lwants m) m (lid s) (lmain_of s) (l_is_expr s) (lmvalue s).
Definition bst (s : lstmt) : entry := (E_before_stmt, lid s, Some VNone).

Lemma lis_unfold m s : lsrc_s s = true -> lis c ge m s =
  let expanded := if sub c E_before_stmt
                  then [LBefore (lid s) (lmain_and_after (lwants m) m (lid s) (LExpr 0 XThunkCall) true XThunkCall) (lown_of m s)]
                  else lown_of m s in
  if m && sub c E_after_module_stmt then expanded ++ [LEmit E_after_module_stmt (lid s) (Some (XLoadSaved (lid s))) None] else expanded.
Proof.
  destruct s; intros Hs; try discriminate Hs; try reflexivity.
  unfold lown_of, lmvalue, lmain_of, W_main, W_body, W_after, W_t', W_b', W_o'. cbn [lis lid].
  destruct ge_cases as [E|E]; rewrite E; reflexivity.
Qed.

Definition lmain_ok (s : lstmt) : Prop := forall r sv pm pr_, fl pm = fl (pr_ ++ [bst s]) ->
  let A := lexec_s (lmain_of s) r sv pm in
  let '(x, r', l, v) := lbody_of false s r pr_ in
  l_exc A = x /\ l_env A = r' /\ fl (l_log A) = fl l.

Ltac flags := repeat match goal with |- context [sub c ?e] => destruct (sub c e) end.
Ltac norm := cbn [app emitted fst snd]; repeat first [rewrite fl_app | rewrite fl_cons | rewrite fl_nil | rewrite fl_emitted | rewrite fl_idem | rewrite fl_if]; rewrite ?app_nil_r; cbn [app emitted fst snd].
Ltac fin := norm; flags; cbn [app emitted fst snd]; rewrite ?app_nil_r, <- ?app_assoc; cbn [app]; reflexivity.

Lemma lmain_ok_expr n v : src_e v = true -> lmain_ok (LExpr n v).
Proof.
  intros Hs r sv pm pr_ _. cbn [lmain_of lbody_of FragLoop.lexec_s lid say]. rewrite eval_wrap, (eval_ie _ _ _ _ _ _ c v Hs).
  destruct (ref_e v r) as [[x|e] l]; cbn [fst snd lexc_of emitted l_exc l_env l_log]; repeat split; fin.
Qed.
Lemma lmain_ok_assign n xs v : src_e v = true -> lmain_ok (LAssign n xs v).
Proof.
  intros Hs r sv pm pr_ _. cbn [lmain_of lbody_of FragLoop.lexec_s lid say]. rewrite eval_wrap.
  destruct (sub c E_before_assign_rhs) eqn:Eb; cbn [FragSem.eval_e]; rewrite (eval_ie _ _ _ _ _ _ c v Hs);
    destruct (ref_e v r) as [[x|e] l]; cbn [fst snd lexc_of emitted l_exc l_env l_log]; repeat split; norm; rewrite ?Eb; fin.
Qed.
Lemma lmain_ok_pass n : lmain_ok (LPass n).
Proof. intros r sv pm pr_ _. cbn. repeat split. Qed.

Lemma lmain_ok_break n : lmain_ok (LBreak n).
Proof. intros r sv pm pr_ _. cbn. repeat split. Qed.
Lemma lmain_ok_continue n : lmain_ok (LContinue n).
Proof. intros r sv pm pr_ _. cbn. repeat split. Qed.

Lemma lmain_ok_if n t b o : src_e t = true -> forallb lsrc_s b = true -> forallb lsrc_s o = true ->
  Forall loud_ok b -> Forall loud_ok o -> lmain_ok (LIf n t b o).
Proof.
  intros Ht Hb Ho Fb Fo r sv pm pr_ Hp. cbn [lmain_of lbody_of lid say]. rewrite lexec_LIf, eval_wrap, (eval_ie _ _ _ _ _ _ c t Ht).
  destruct (ref_e t r) as [[vt|e] l]; cbn [fst snd emitted l_exc l_env l_log]; [|repeat split; fin].
  set (LT := fl l ++ (if sub c E_after_if_test then [(E_after_if_test, n, Some vt)] else [])).
  set (l1 := l ++ [(E_after_if_test, n, Some vt)]).
  assert (H1 : fl LT = fl l1) by (subst LT l1; fin).
  assert (Hq : fl (pm ++ LT) = fl (pr_ ++ [(E_before_stmt, n, Some VNone)] ++ l1)).
  { rewrite app_assoc. apply fl_pre; [exact Hp|exact H1]. }
  assert (Hl : lsim (lexec_l (if truth vt then flat_map (lis c ge false) b else flat_map (lis c ge false) o) r sv (pm ++ LT))
                    (lref_l false false (if truth vt then b else o) r (pr_ ++ [(E_before_stmt, n, Some VNone)] ++ l1)))
    by (destruct (truth vt); [apply (loud_list b Fb Hb)|apply (loud_list o Fo Ho)]; exact Hq).
  destruct Hl as (E1 & E2 & E3). cbn [l_exc l_env l_log]. repeat split; try assumption.
  rewrite !fl_app, H1, E3. reflexivity.
Qed.

Lemma lmain_ok_while n t b o : src_e t = true -> forallb lsrc_s b = true -> forallb lsrc_s o = true ->
  Forall loud_ok b -> Forall loud_ok o -> lmain_ok (LWhile n t b o).
Proof.
  intros Ht Hb Ho Fb Fo r sv pm pr_ Hp. cbn [lmain_of lbody_of lid say]. rewrite main_exec.
  destruct (loop_sim n t b o Ht Hb Ho Fb Fo fuel r sv pm (pr_ ++ [(E_before_stmt, n, Some VNone)]) Hp) as (E1 & E2 & E3).
  repeat split; assumption.
Qed.

Lemma lexec_LEmit_some e n v g r sv pre : (forall k, v <> XLoadSaved k) ->
  lexec_s (LEmit e n (Some v) g) r sv pre =
  let '(q, l) := eval_e v r in
  match q with
  | Ok x => {| l_exc := None; l_env := r; l_saved := (if event_eqb e E_after_stmt then x else sv); l_log := l ++ [(e, n, Some x)] |}
  | Err x => {| l_exc := Some (LX x); l_env := r; l_saved := sv; l_log := l |}
  end.
Proof. intros H. destruct v; try reflexivity. exfalso. exact (H n0 eq_refl). Qed.

Lemma lwants_false m : lwants m = false -> sub c E_after_stmt = false.
Proof. unfold lwants. intros H. apply orb_false_iff in H. exact (proj1 H). Qed.

Lemma lbody_nonexpr_value s r pr_ : lsrc_s s = true -> l_is_expr s = false -> snd (lbody_of false s r pr_) = VNone.
Proof.
  intros Hs He. destruct s; try discriminate Hs; try discriminate He; cbn [lbody_of].
  - destruct (ref_e v r); reflexivity.
  - reflexivity.
  - destruct (ref_e t r) as [[vt|e] l]; reflexivity.
  - reflexivity.
  - reflexivity.
  - reflexivity.
Qed.

Lemma lown_ok s m : lsrc_s s = true -> lmain_ok s -> forall r sv pm pr_, fl pm = fl (pr_ ++ [bst s]) ->
  let O := lexec_l (lown_of m s) r sv pm in
  let '(x, r', l, v) := lbody_of false s r pr_ in
  let av := if m then v else VNone in
  l_exc O = x /\ l_env O = r' /\
  fl (l_log O) = fl (l ++ match x with None => [(E_after_stmt, lid s, Some av)] | Some _ => [] end) /\
  (lwants m = true -> x = None -> l_saved O = av).
Proof.
  intros Hs HM r sv pm pr_ Hp. unfold lown_of, lmain_and_after.
  destruct (lwants m) eqn:W.
  - destruct (l_is_expr s && m) eqn:EM.
    + apply andb_true_iff in EM as [Ee Em]. subst m. destruct s; try discriminate Ee. cbn [lsrc_s] in Hs.
      cbn [lmvalue lmain_of lid lbody_of say]. rewrite lexec_l_single, (lexec_LEmit_some _ _ _ _ _ _ _ (ie_not_load c v Hs _ _)).
      rewrite eval_wrap, (eval_ie _ _ _ _ _ _ c v Hs).
      destruct (ref_e v r) as [[x|e] l]; cbn [fst snd lexc_of emitted l_exc l_env l_log l_saved].
      * replace (event_eqb E_after_stmt E_after_stmt) with true by reflexivity. repeat split; fin.
      * repeat split; try fin. intros _ H; discriminate H.
    + specialize (HM r sv pm pr_ Hp). cbv zeta in HM.
      assert (Hav : (if m then snd (lbody_of false s r pr_) else VNone) = VNone).
      { destruct m; [|reflexivity]. rewrite andb_true_r in EM. apply lbody_nonexpr_value; assumption. }
      destruct (lbody_of false s r pr_) as [[[x r'] l] v] eqn:Eb. destruct HM as (A1 & A2 & A3). cbn [snd] in Hav.
      rewrite Hav. rewrite lexec_l_cons. unfold lseq. rewrite A1. destruct x as [e|].
      * repeat split; try assumption. rewrite A3, app_nil_r. reflexivity. intros _ H; discriminate H.
      * rewrite lexec_l_single. cbn [FragLoop.lexec_s l_exc l_env l_saved l_log].
        replace (event_eqb E_after_stmt E_after_stmt) with true by reflexivity.
        repeat split; try assumption. rewrite !fl_app, A3. reflexivity.
  - specialize (HM r sv pm pr_ Hp). cbv zeta in HM. destruct (lbody_of false s r pr_) as [[[x r'] l] v] eqn:Eb. destruct HM as (A1 & A2 & A3).
    pose proof (lwants_false m W) as Wa. rewrite lexec_l_single.
    repeat split; try assumption; [|intros H; discriminate H].
    rewrite fl_app, A3. destruct x; [rewrite fl_nil|rewrite fl_single, Wa]; rewrite app_nil_r; reflexivity.
Qed.

Lemma before_exec n tb own r sv pre : exists q, fl q = fl (pre ++ [(E_before_stmt, n, Some VNone)]) /\
  lexec_l [LBefore n tb own] r sv pre =
  {| l_exc := l_exc (lexec_l own r sv q); l_env := l_env (lexec_l own r sv q); l_saved := l_saved (lexec_l own r sv q);
     l_log := [(E_before_stmt, n, Some VNone)] ++ l_log (lexec_l own r sv q) |}.
Proof. eexists. split; [|rewrite lexec_l_single, lexec_LBefore; reflexivity]. reflexivity. Qed.

Lemma lassemble s : lsrc_s s = true -> lmain_ok s -> loud_ok s.
Proof.
  intros Hs HM _ m r sv pre pre' Hp. rewrite (lis_unfold m s Hs), lref_unfold. cbv zeta. cbn [say].
  (* the statement's own part under either prefix *)
  assert (HX : exists E, (lexec_l (if sub c E_before_stmt
                                   then [LBefore (lid s) (lmain_and_after (lwants m) m (lid s) (LExpr 0 XThunkCall) true XThunkCall) (lown_of m s)]
                                   else lown_of m s) r sv pre) = E /\
               let '(x, r', l, v) := lbody_of false s r pre' in
               let av := if m then v else VNone in
               l_exc E = x /\ l_env E = r' /\
               fl (l_log E) = fl ([bst s] ++ l ++ match x with None => [(E_after_stmt, lid s, Some av)] | Some _ => [] end) /\
               (lwants m = true -> x = None -> l_saved E = av)).
  { eexists. split; [reflexivity|]. destruct (sub c E_before_stmt) eqn:Bf.
    - destruct (before_exec (lid s) (lmain_and_after (lwants m) m (lid s) (LExpr 0 XThunkCall) true XThunkCall) (lown_of m s) r sv pre) as (q & Hq0 & ->).
      assert (Hq : fl q = fl (pre' ++ [bst s])) by (rewrite Hq0; apply fl_pre; [exact Hp|reflexivity]).
      pose proof (lown_ok s m Hs HM r sv _ _ Hq) as HO. cbv zeta in HO.
      destruct (lbody_of false s r pre') as [[[x r'] l] v]. destruct HO as (O1 & O2 & O3 & O4).
      cbn [l_exc l_env l_saved l_log]. repeat split; try assumption.
      rewrite !fl_app, O3, !fl_app. reflexivity.
    - assert (Hq : fl pre = fl (pre' ++ [bst s])) by (rewrite fl_app, Hp; unfold bst; rewrite fl_single, Bf, app_nil_r; reflexivity).
      pose proof (lown_ok s m Hs HM r sv _ _ Hq) as HO. cbv zeta in HO.
      destruct (lbody_of false s r pre') as [[[x r'] l] v]. destruct HO as (O1 & O2 & O3 & O4).
      repeat split; try assumption. rewrite O3, (fl_app _ [bst s]). unfold bst. rewrite fl_single, Bf. reflexivity. }
  destruct HX as (E & HE & HP). cbv zeta. rewrite <- HE in HP. clear HE.
  set (EXP := if sub c E_before_stmt then _ else _) in *.
  destruct (lbody_of false s r pre') as [[[x r'] l] v]. cbv zeta in HP. destruct HP as (E1 & E2 & E4 & E3).
  set (av := if m then v else VNone) in *.
  destruct (m && sub c E_after_module_stmt) eqn:Am.
  - apply andb_true_iff in Am as [Em Ea]. subst m.
    assert (W : lwants true = true) by (unfold lwants; rewrite Ea, orb_true_r; reflexivity).
    rewrite lexec_l_app. unfold lseq. rewrite E1. destruct x as [e|].
    + unfold lsim. cbn [rl_exc rl_env rl_log]. repeat split; try assumption; try (rewrite E4, ?app_nil_r; reflexivity).
    + rewrite lexec_l_single. cbn [FragLoop.lexec_s l_exc l_env l_saved l_log]. unfold lsim. cbn [l_exc l_env l_log rl_exc rl_env rl_log].
      repeat split; try assumption. rewrite (E3 W eq_refl).
      rewrite fl_app, E4. rewrite <- fl_app. f_equal. unfold bst. cbn [app]. rewrite <- app_assoc. reflexivity.
  - unfold lsim. cbn [rl_exc rl_env rl_log]. repeat split; try assumption. rewrite E4. unfold bst. cbn [app].
    destruct x as [e|]; [reflexivity|].
    rewrite !fl_cons, !fl_app, !fl_cons. f_equal. f_equal. f_equal.
    destruct m; [|reflexivity]. cbn [andb] in Am. rewrite fl_single, Am. reflexivity.
Qed.

Theorem loud_stmt : forall s, loud_ok s.
Proof.
  induction s using lstmt_ind'; intros Hs; try discriminate Hs; cbn [lsrc_s] in Hs.
  - apply lassemble; [exact Hs|apply lmain_ok_expr; exact Hs|exact Hs].
  - apply lassemble; [exact Hs|apply lmain_ok_assign; exact Hs|exact Hs].
  - apply lassemble; [reflexivity|apply lmain_ok_pass|reflexivity].
  - pose proof Hs as Hs'. apply andb_true_iff in Hs as [Hs Ho]. apply andb_true_iff in Hs as [Ht Hb].
    apply lassemble; [exact Hs'|apply lmain_ok_if; assumption|exact Hs'].
  - pose proof Hs as Hs'. apply andb_true_iff in Hs as [Hs Ho]. apply andb_true_iff in Hs as [Ht Hb].
    apply lassemble; [exact Hs'|apply lmain_ok_while; assumption|exact Hs'].
  - apply lassemble; [reflexivity|apply lmain_ok_break|reflexivity].
  - apply lassemble; [reflexivity|apply lmain_ok_continue|reflexivity].
Qed.

Notation lref_module := (lref_module binop cmpop unop truth cval is_and c pol fuel ge).
Notation lref_module0 := (lref_module0 binop cmpop unop truth cval is_and c pol fuel ge).

Theorem lmodule_sim0 body : forallb lsrc_s body = true -> forall r sv,
  lsim (lexec_l (linstr_module0 c ge body) r sv []) (lref_module0 body r).
Proof.
  intros Hs r sv. unfold linstr_module0, FragLoop.lref_module0.
  assert (HB : forall r sv p p', fl p = fl p' -> lsim (lexec_l (flat_map (lis c ge true) body) r sv p) (lref_l false true body r p')).
  { intros. apply loud_list; [|exact Hs|assumption]. apply Forall_forall. intros s _. apply loud_stmt. }
  assert (HX : forall r sv p p', fl p = fl p' ->
            lsim (lexec_l (flat_map (lis c ge true) body ++ (if sub c E_exit_module then [LEmit E_exit_module 0 None None] else [])) r sv p)
                 {| rl_exc := rl_exc (lref_l false true body r p'); rl_env := rl_env (lref_l false true body r p');
                    rl_log := rl_log (lref_l false true body r p') ++ match rl_exc (lref_l false true body r p') with None => [(E_exit_module, 0, Some VNone)] | Some _ => [] end |}).
  { intros r0 sv0 p p' Hp. destruct (HB r0 sv0 p p' Hp) as (B1 & B2 & B3). rewrite lexec_l_app. unfold lseq. rewrite B1.
    destruct (rl_exc (lref_l false true body r0 p')) as [e|] eqn:Ex.
    - unfold lsim. cbn [rl_exc rl_env rl_log]. rewrite app_nil_r. repeat split; assumption.
    - unfold lsim. cbn [l_exc l_env l_log rl_exc rl_env rl_log].
      destruct (sub c E_exit_module) eqn:Xm; cbn [FragLoop.lexec_l FragLoop.lexec_s lseq l_exc l_env l_log app]; repeat split; try assumption;
        rewrite ?fl_app, ?B3, ?fl_single, ?Xm, ?fl_nil, ?app_nil_r; reflexivity. }
  destruct (sub c E_init_module) eqn:Im.
  - cbn [app]. rewrite lexec_l_cons. unfold lseq. cbn [FragLoop.lexec_s l_exc l_env l_saved l_log].
    match goal with |- context [lexec_l _ r ?s0 ?q] => destruct (HX r s0 q [(E_init_module, 0, Some VNone)] eq_refl) as (X1 & X2 & X3) end.
    unfold lsim. cbn [l_exc l_env l_log rl_exc rl_env rl_log] in *. repeat split; try assumption.
    cbn [app] in *. rewrite !fl_cons, X3. reflexivity.
  - cbn [app]. assert (H0 : fl [] = fl [(E_init_module, 0, Some VNone)]) by (rewrite fl_single, Im; reflexivity).
    destruct (HX r sv [] _ H0) as (X1 & X2 & X3). unfold lsim. cbn [rl_exc rl_env rl_log] in *. repeat split; try assumption.
    rewrite fl_cons, Im. exact X3.
Qed.

(* the module docstring: as written, first, silent *)
Lemma lrest_src body : forallb lsrc_s body = true -> forallb lsrc_s (lrest body) = true.
Proof.
  destruct body as [|d rest]; [reflexivity|]. unfold lrest. destruct (is_doc_l d); [|auto].
  cbn [forallb]. intros H. now apply andb_true_iff in H as [_ H].
Qed.
Lemma ldoc_lrest body : ldoc body ++ lrest body = body.
Proof. destruct body as [|d rest]; [reflexivity|]. unfold ldoc, lrest. now destruct (is_doc_l d). Qed.
Lemma lexec_doc d u r sv : is_doc_l d = true ->
  l_exc (lexec_l (d :: u) r sv []) = l_exc (lexec_l u r sv []) /\ l_env (lexec_l (d :: u) r sv []) = l_env (lexec_l u r sv []) /\
  l_log (lexec_l (d :: u) r sv []) = l_log (lexec_l u r sv []).
Proof.
  destruct d as [n v| | | | | | | | | | |]; try discriminate. destruct v as [|m sc| | | | | | | | | | |]; try discriminate.
  destruct sc; try discriminate. intros _. rewrite lexec_l_cons. unfold lseq.
  cbn [FragLoop.lexec_s FragSem.eval_e lexc_of l_exc l_env l_saved l_log app]. repeat split; reflexivity.
Qed.
Theorem lmodule_sim body : forallb lsrc_s body = true -> forall r sv,
  lsim (lexec_l (linstr_module c ge body) r sv []) (lref_module body r).
Proof.
  intros Hs r sv. unfold linstr_module, FragLoop.lref_module.
  pose proof (lmodule_sim0 (lrest body) (lrest_src body Hs)) as M.
  destruct body as [|d rest]; [exact (M r sv)|]. unfold ldoc, lrest in *. destruct (is_doc_l d) eqn:Ed; [|exact (M r sv)].
  cbn [app]. destruct (lexec_doc d (linstr_module0 c ge rest) r sv Ed) as (E1 & E2 & E3).
  destruct (M r sv) as (M1 & M2 & M3). unfold lsim. rewrite E1, E2, E3. repeat split; assumption.
Qed.
End LoopProofs.

(* ================================================================ the results of the reference do not depend on subscription, guards or schedule *)
Section Inv.
Variable binop : N -> val -> val -> res val.
Variable cmpop : N -> val -> val -> res bool.
Variable unop : N -> val -> res val.
Variable truth : val -> bool.
Variable cval : scalar -> val.
Variable is_and : N -> bool.
Variable fuel : nat.
Variables (c1 c2 : rcfg) (pol1 pol2 : list entry -> guard -> bool) (ge1 ge2 : bool).
Notation R1 := (lref_s binop cmpop unop truth cval is_and c1 pol1 fuel ge1).
Notation R2 := (lref_s binop cmpop unop truth cval is_and c2 pol2 fuel ge2).
Notation RL1 := (lref_l binop cmpop unop truth cval is_and c1 pol1 fuel ge1).
Notation RL2 := (lref_l binop cmpop unop truth cval is_and c2 pol2 fuel ge2).
Notation ref_e := (ref_e binop cmpop unop truth cval is_and).

Definition same_res (a b : rlres) : Prop := rl_exc a = rl_exc b /\ rl_env a = rl_env b.
Definition inv_ok (s : lstmt) : Prop := forall q1 m1 q2 m2 r p1 p2, same_res (R1 q1 m1 s r p1) (R2 q2 m2 s r p2).

Lemma inv_list u : Forall inv_ok u -> forall q1 m1 q2 m2 r p1 p2, same_res (RL1 q1 m1 u r p1) (RL2 q2 m2 u r p2).
Proof.
  induction 1 as [|x u Hx _ IH]; intros q1 m1 q2 m2 r p1 p2.
  - split; reflexivity.
  - rewrite !lref_l_cons. destruct (Hx q1 m1 q2 m2 r p1 p2) as (E1 & E2). unfold rseq. rewrite E1.
    destruct (rl_exc (R2 q2 m2 x r p2)) eqn:Ex.
    + split; [rewrite Ex; exact E1|exact E2].
    + rewrite E2. destruct (IH q1 m1 q2 m2 (rl_env (R2 q2 m2 x r p2)) (p1 ++ rl_log (R1 q1 m1 x r p1)) (p2 ++ rl_log (R2 q2 m2 x r p2))) as (F1 & F2).
      split; assumption.
Qed.

Lemma inv_loop n t b o : Forall inv_ok b -> Forall inv_ok o -> forall f q1 q2 r p1 p2,
  same_res (rloop binop cmpop unop truth cval is_and c1 pol1 fuel ge1 q1 n t b o f r p1)
           (rloop binop cmpop unop truth cval is_and c2 pol2 fuel ge2 q2 n t b o f r p2).
Proof.
  intros Fb Fo. induction f as [|f IH]; intros q1 q2 r p1 p2.
  - split; reflexivity.
  - cbn [rloop]. destruct (ref_e t r) as [[vt|e] l]; [|split; reflexivity].
    destruct (truth vt).
    + match goal with |- same_res (match rl_exc (?RA ?qa false b r ?pa) with _ => _ end) (match rl_exc (?RB ?qb false b r ?pb) with _ => _ end) =>
        destruct (inv_list b Fb qa false qb false r pa pb) as (E1 & E2); remember (RA qa false b r pa) as A; remember (RB qb false b r pb) as B end.
      rewrite E1. rewrite E2.
      destruct (rl_exc B) as [[e| | |]|] eqn:Ex;
        try (split; cbn [rl_exc rl_env]; try reflexivity; try assumption; fail);
        (match goal with |- same_res {| rl_exc := rl_exc (?L1 f (rl_env B) ?pa); rl_env := _; rl_log := _ |} {| rl_exc := rl_exc (?L2 f (rl_env B) ?pb); rl_env := _; rl_log := _ |} =>
           destruct (IH q1 q2 (rl_env B) pa pb) as (F1 & F2) end;
         split; cbn [rl_exc rl_env]; assumption).
    + match goal with |- same_res {| rl_exc := rl_exc (?RA ?qa false o r ?pa); rl_env := _; rl_log := _ |} {| rl_exc := rl_exc (?RB ?qb false o r ?pb); rl_env := _; rl_log := _ |} =>
        destruct (inv_list o Fo qa false qb false r pa pb) as (E1 & E2) end.
      split; cbn [rl_exc rl_env]; assumption.
Qed.

Theorem inv_stmt : forall s, inv_ok s.
Proof.
  induction s using lstmt_ind'; intros q1 m1 q2 m2 r p1 p2; rewrite !lref_unfold; cbn [lbody_of lid]; try (split; reflexivity).
  - destruct (ref_e v r) as [[x|e] l]; split; reflexivity.
  - destruct (ref_e v r) as [[x|e] l]; split; reflexivity.
  - destruct (ref_e t r) as [[vt|e] l]; [|split; reflexivity].
    match goal with |- context [RL1 q1 false ?u r ?pa] => match goal with |- context [RL2 q2 false u r ?pb] =>
      assert (HL : same_res (RL1 q1 false u r pa) (RL2 q2 false u r pb)) by (destruct (truth vt); apply inv_list; assumption);
      destruct HL as (E1 & E2); destruct (RL1 q1 false u r pa), (RL2 q2 false u r pb) end end.
    cbn in E1, E2. subst. split; reflexivity.
  - match goal with |- context [rloop _ _ _ _ _ _ c1 pol1 fuel ge1 q1 n t b o fuel r ?pa] => match goal with |- context [rloop _ _ _ _ _ _ c2 pol2 fuel ge2 q2 n t b o fuel r ?pb] =>
      destruct (inv_loop n t b o H H0 fuel q1 q2 r pa pb) as (E1 & E2);
      destruct (rloop binop cmpop unop truth cval is_and c1 pol1 fuel ge1 q1 n t b o fuel r pa), (rloop binop cmpop unop truth cval is_and c2 pol2 fuel ge2 q2 n t b o fuel r pb) end end.
    cbn in E1, E2. subst. split; reflexivity.
Qed.
End Inv.

(* ================================================================ the statements *)
Section FinalLoop.
Variable binop : N -> val -> val -> res val.
Variable cmpop : N -> val -> val -> res bool.
Variable unop : N -> val -> res val.
Variable truth : val -> bool.
Variable cval : scalar -> val.
Variable is_and : N -> bool.
Variable fuel : nat.
Notation X := (lexec_l binop cmpop unop truth cval is_and).
Notation RM := (lref_module binop cmpop unop truth cval is_and).

(* C10 on the loop fragment, results: whatever is subscribed, whether global guards are enabled, and whichever guards the handlers
   activate or deactivate and whenever (any two policies), the program ends with the same exception (or none, or out of fuel in the
   same place) and the same bindings *)
Theorem loop_results c1 ge1 pol1 c2 ge2 pol2 body r sv sv' : forallb lsrc_s body = true ->
  l_exc (X c1 pol1 fuel (linstr_module c1 ge1 body) r sv []) = l_exc (X c2 pol2 fuel (linstr_module c2 ge2 body) r sv' []) /\
  l_env (X c1 pol1 fuel (linstr_module c1 ge1 body) r sv []) = l_env (X c2 pol2 fuel (linstr_module c2 ge2 body) r sv' []).
Proof.
  intros Hs.
  destruct (lmodule_sim binop cmpop unop truth cval is_and c1 pol1 fuel ge1 body Hs r sv) as (A1 & A2 & _).
  destruct (lmodule_sim binop cmpop unop truth cval is_and c2 pol2 fuel ge2 body Hs r sv') as (B1 & B2 & _).
  assert (I : same_res (RM c1 pol1 fuel ge1 body r) (RM c2 pol2 fuel ge2 body r)).
  { unfold FragLoop.lref_module, FragLoop.lref_module0.
    destruct (inv_list binop cmpop unop truth cval is_and fuel c1 c2 pol1 pol2 ge1 ge2 (lrest body)
                (proj2 (Forall_forall _ _) (fun s _ => inv_stmt binop cmpop unop truth cval is_and fuel c1 c2 pol1 pol2 ge1 ge2 s))
                false true false true r [(E_init_module, 0%N, Some VNone)] [(E_init_module, 0%N, Some VNone)]) as (I1 & I2).
    split; cbn [rl_exc rl_env]; assumption. }
  destruct I as (I1 & I2). split; congruence.
Qed.

(* the stream: the subscribed events arrive exactly as the gated reference says - an iteration that starts while the loop's body guard
   is off (and a test evaluated while the test guard is off) contributes nothing, everything else arrives once, in order, with value and node *)
Theorem loop_stream c ge pol body r sv : forallb lsrc_s body = true ->
  filter_log c (l_log (X c pol fuel (linstr_module c ge body) r sv [])) = filter_log c (rl_log (RM c pol fuel ge body r)).
Proof. intros Hs. exact (proj2 (proj2 (lmodule_sim binop cmpop unop truth cval is_and c pol fuel ge body Hs r sv))). Qed.
End FinalLoop.

(* with nothing subscribed and global guards disabled the rewriter leaves a source program as it is *)
Lemma lis_none : forall s, lsrc_s s = true -> forall m, lis no_events false m s = [s].
Proof.
  assert (N0 : forall e, sub no_events e = false) by reflexivity.
  induction s using lstmt_ind'; intros Hs m; try discriminate Hs; cbn [lis lsrc_s lid] in *; unfold lmain_and_after, wrap; rewrite ?N0; cbn [orb andb];
    rewrite ?andb_false_r.
  - rewrite (ie_none no_events N0 v Hs). reflexivity.
  - rewrite (ie_none no_events N0 v Hs). reflexivity.
  - reflexivity.
  - apply andb_true_iff in Hs as [Hs Ho]. apply andb_true_iff in Hs as [Ht Hb]. rewrite (ie_none no_events N0 t Ht).
    assert (L : forall u, Forall (fun s => lsrc_s s = true -> forall m, lis no_events false m s = [s]) u -> forallb lsrc_s u = true -> flat_map (lis no_events false false) u = u).
    { induction 1 as [|x u Hx _ IH]; intros Hu; [reflexivity|]. cbn [forallb] in Hu. apply andb_true_iff in Hu as [Hx' Hu].
      cbn [flat_map]. rewrite (Hx Hx' false), (IH Hu). reflexivity. }
    rewrite (L b H Hb), (L o H0 Ho). reflexivity.
  - apply andb_true_iff in Hs as [Hs Ho]. apply andb_true_iff in Hs as [Ht Hb]. rewrite (ie_none no_events N0 t Ht).
    assert (L : forall u, Forall (fun s => lsrc_s s = true -> forall m, lis no_events false m s = [s]) u -> forallb lsrc_s u = true -> flat_map (lis no_events false false) u = u).
    { induction 1 as [|x u Hx _ IH]; intros Hu; [reflexivity|]. cbn [forallb] in Hu. apply andb_true_iff in Hu as [Hx' Hu].
      cbn [flat_map]. rewrite (Hx Hx' false), (IH Hu). reflexivity. }
    rewrite (L b H Hb), (L o H0 Ho). reflexivity.
  - reflexivity.
  - reflexivity.
Qed.

Lemma linstr_none0 body : forallb lsrc_s body = true -> linstr_module0 no_events false body = body.
Proof.
  intros Hs. unfold linstr_module0. cbn [sub no_events app]. rewrite app_nil_r.
  induction body as [|x u IH]; [reflexivity|]. cbn [forallb] in Hs. apply andb_true_iff in Hs as [Hx Hu].
  cbn [flat_map]. rewrite (lis_none x Hx true), (IH Hu). reflexivity.
Qed.
Lemma linstr_none body : forallb lsrc_s body = true -> linstr_module no_events false body = body.
Proof. intros Hs. unfold linstr_module. rewrite (linstr_none0 _ (lrest_src body Hs)). apply ldoc_lrest. Qed.

(* hence: the instrumented program, under any subscription / guard setting / schedule, ends as the program as it is *)
Theorem loop_plain binop cmpop unop truth cval is_and fuel c ge pol pol0 body r sv sv' : forallb lsrc_s body = true ->
  l_exc (lexec_l binop cmpop unop truth cval is_and c pol fuel (linstr_module c ge body) r sv []) =
  l_exc (lexec_l binop cmpop unop truth cval is_and no_events pol0 fuel body r sv' []) /\
  l_env (lexec_l binop cmpop unop truth cval is_and c pol fuel (linstr_module c ge body) r sv []) =
  l_env (lexec_l binop cmpop unop truth cval is_and no_events pol0 fuel body r sv' []).
Proof.
  intros Hs. pose proof (loop_results binop cmpop unop truth cval is_and fuel c ge pol no_events false pol0 body r sv sv' Hs) as H.
  rewrite (linstr_none body Hs) in H. exact H.
Qed.
