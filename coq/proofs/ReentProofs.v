(* C16: switches are restored by every emission/region, and nested handler invocations are all opted in. *)
From Coq Require Import List NArith Bool Lia.
Import ListNotations.
From PyccoloV Require Import model.Reent.

Fixpoint node_ind2 (P : node -> Prop) (H : forall t cs, Forall P cs -> P (Node t cs)) (n : node) : P n :=
  match n with
  | Node t cs => H t cs ((fix go (l : list node) : Forall P l :=
                            match l with [] => Forall_nil P | x :: l' => Forall_cons x (node_ind2 P H x) (go l') end) cs)
  end.

Lemma run_em tracers s :
  run (Node TgEm tracers) s =
    let is_re := negb (fA s) in
    let re_only := is_re && negb (fR s) in
    let '(raised, s1) := tloop_of run is_re re_only tracers (set_flags s false (fR s)) in
    (raised, set_flags s1 (fA s) (fR s)).
Proof. reflexivity. Qed.
Lemma run_region acts s :
  run (Node TgRegion acts) s =
    let '(r, s1) := aloop_of run acts (set_flags s (fA s) true) in (r, set_flags s1 (fA s1) (fR s)).
Proof. reflexivity. Qed.
Lemma run_catch acts s :
  run (Node TgCatch acts) s = let '(r, s1) := aloop_of run acts s in (false, s1).
Proof. reflexivity. Qed.

(* ---------------------------------------------------------------- C16_restore *)
Definition same (s s' : st) : Prop := fA s' = fA s /\ fR s' = fR s /\ depth s' = depth s.
Definition restores (n : node) : Prop := forall s, same s (snd (run n s)).

Lemma same_refl s : same s s. Proof. repeat split. Qed.
Lemma same_trans a b c : same a b -> same b c -> same a c.
Proof. unfold same. intros (?&?&?) (?&?&?). repeat split; congruence. Qed.

Lemma aloop_same acts : Forall restores acts -> forall s, same s (snd (aloop_of run acts s)).
Proof.
  induction 1 as [|a az Ha _ IH]; intros s; cbn; [apply same_refl|].
  pose proof (Ha s) as Hs. destruct (run a s) as [r s']. cbn in Hs. destruct r; cbn; auto.
  eapply same_trans; eauto.
Qed.

Lemma invoke_same id allow_re reentrant acts : Forall restores acts ->
  forall s, same s (snd (invoke run id allow_re reentrant acts s)).
Proof.
  intros Hf s. unfold invoke.
  pose proof (aloop_same acts Hf {| fA := fA s; fR := fR s; depth := S (depth s); in_main := in_main s;
                                   log := log s ++ [(depth s, fR s || allow_re && reentrant, id)] |}) as Hs.
  destruct (aloop_of run acts _) as [r so]. destruct Hs as (H1 & H2 & _). cbn in *. repeat split; auto.
Qed.

Definition handler_restores (h : node) : Prop := match h with Node _ acts => Forall restores acts end.

Lemma hloop_same re_only allow_re propagate hs : Forall handler_restores hs ->
  forall s, same s (snd (hloop_of run re_only allow_re propagate hs s)).
Proof.
  induction 1 as [|h hs Hh _ IH]; intros s; cbn; [apply same_refl|].
  destruct h as [[| | id reentrant raises c | |] acts]; auto.
  destruct (re_only && negb reentrant); auto.
  pose proof (invoke_same id allow_re reentrant acts Hh s) as Hs.
  destruct (invoke run id allow_re reentrant acts s) as [r s']. cbn in Hs.
  destruct (r || raises).
  - destruct propagate; cbn; auto. eapply same_trans; eauto.
  - destruct c; cbn; auto. eapply same_trans; eauto.
Qed.

Definition tracer_restores (t : node) : Prop := match t with Node _ hs => Forall handler_restores hs end.

Lemma tloop_same is_re re_only ts : Forall tracer_restores ts ->
  forall s, same s (snd (tloop_of run is_re re_only ts s)).
Proof.
  induction 1 as [|t ts Ht _ IH]; intros s; cbn; [apply same_refl|].
  destruct t as [[| allow_re propagate hd multi | | |] hs]; auto.
  destruct (negb (in_main s) && negb multi); auto.
  destruct (is_re && negb allow_re && negb (fR s)); auto. destruct hd; auto.
  pose proof (hloop_same re_only allow_re propagate hs Ht s) as Hs.
  destruct (hloop_of run re_only allow_re propagate hs s) as [res s']. cbn in Hs.
  destruct res as [|[|]]; cbn; auto. eapply same_trans; eauto.
Qed.

(* children of children of children: from Forall restores on the direct children of an emission we cannot get
   the acts; so the induction is on a stronger predicate that carries restoration for every descendant *)
Fixpoint all_desc (P : node -> Prop) (n : node) : Prop :=
  match n with Node _ cs => P n /\ (fix go (l : list node) : Prop := match l with [] => True | x :: l' => all_desc P x /\ go l' end) cs end.

Theorem restore_all : forall n s, same s (snd (run n s)).
Proof.
  (* strengthen: holds for n and is available for every sub-node; plain structural induction on size instead *)
  assert (Hsz : forall k n, (fix size (n : node) : nat := match n with Node _ cs => S ((fix sl (l : list node) := match l with [] => 0 | x :: l' => size x + sl l' end) cs) end) n <= k -> restores n).
  { induction k as [|k IH]; intros [t cs] Hk; [cbn in Hk; lia|].
    assert (Hc : forall c, In c cs -> restores c).
    { intros c Hin. apply IH. cbn in Hk. apply le_S_n in Hk. clear -Hin Hk.
      induction cs as [|x xs IHx]; [destruct Hin|]. cbn in Hk. destruct Hin as [->|Hin]; [lia|]. apply IHx; auto; lia. }
    assert (Hg : forall c g, In c cs -> In g (match c with Node _ l => l end) -> restores g).
    { intros [tc lc] g Hin Hg. apply IH. cbn in Hk. apply le_S_n in Hk. clear -Hin Hg Hk.
      induction cs as [|x xs IHx]; [destruct Hin|]. cbn in Hk. destruct Hin as [->|Hin].
      - cbn in Hk. assert (Hx : forall l : list node, In g l -> (fix size (n : node) : nat := match n with Node _ cs => S ((fix sl (l : list node) := match l with [] => 0 | x :: l' => size x + sl l' end) cs) end) g <= (fix sl (l : list node) := match l with [] => 0 | x :: l' => (fix size (n : node) : nat := match n with Node _ cs => S ((fix sl (l : list node) := match l with [] => 0 | x :: l' => size x + sl l' end) cs) end) x + sl l' end) l).
        { induction l as [|y ys IHy]; intros Hi; [destruct Hi|]. destruct Hi as [->|Hi]; [lia|]. specialize (IHy Hi). lia. }
        specialize (Hx lc Hg). lia.
      - apply IHx; auto. lia. }
    assert (Hgg : forall c g a, In c cs -> In g (match c with Node _ l => l end) -> In a (match g with Node _ l => l end) -> restores a).
    { intros [tc lc] [tg lg] a Hin Hg' Ha. apply IH. cbn in Hk. apply le_S_n in Hk.
      set (size := (fix size (n : node) : nat := match n with Node _ cs => S ((fix sl (l : list node) := match l with [] => 0 | x :: l' => size x + sl l' end) cs) end)) in *.
      set (sl := (fix sl (l : list node) := match l with [] => 0 | x :: l' => size x + sl l' end)) in *.
      assert (Hx : forall (l : list node) x, In x l -> size x <= sl l).
      { induction l as [|y ys IHy]; intros x Hi; [destruct Hi|]. destruct Hi as [->|Hi]; cbn; [lia|]. specialize (IHy x Hi). lia. }
      pose proof (Hx _ _ Hin) as H1. pose proof (Hx _ _ Hg') as H2. pose proof (Hx _ _ Ha) as H3.
      cbn in H1, H2. fold sl in H1, H2. lia. }
    intros s. destruct t.
    - rewrite run_em. cbn zeta.
      assert (Htr : Forall tracer_restores cs).
      { apply Forall_forall. intros [tc lc] Hin. cbn. apply Forall_forall. intros [tg lg] Hgin. cbn.
        apply Forall_forall. intros a Ha. eapply (Hgg (Node tc lc) (Node tg lg) a); eauto. }
      pose proof (tloop_same (negb (fA s)) (negb (fA s) && negb (fR s)) cs Htr (set_flags s false (fR s))) as Hs.
      destruct (tloop_of run _ _ cs _) as [r s1]. destruct Hs as (_ & _ & Hd). cbn in *. repeat split; auto.
    - apply same_refl.
    - apply same_refl.
    - rewrite run_region.
      pose proof (aloop_same cs (proj2 (Forall_forall _ _) Hc) (set_flags s (fA s) true)) as Hs.
      destruct (aloop_of run cs _) as [r s1]. destruct Hs as (H1 & _ & H3). cbn in *. repeat split; auto.
    - rewrite run_catch.
      pose proof (aloop_same cs (proj2 (Forall_forall _ _) Hc) s) as Hs.
      destruct (aloop_of run cs s) as [r s1]. exact Hs. }
  intros n. eapply Hsz. apply le_n.
Qed.

(* ---------------------------------------------------------------- C16_depth *)
Definition inv (s : st) : Prop := depth s >= 1 -> fA s = false.
Definition good_log (s : st) : Prop := Forall (fun e : nat * bool * N => fst (fst e) >= 1 -> snd (fst e) = true) (log s).
Definition depth_ok (n : node) : Prop := forall s, inv s -> good_log s -> good_log (snd (run n s)).

Lemma aloop_good acts : Forall depth_ok acts -> forall s, inv s -> good_log s -> good_log (snd (aloop_of run acts s)).
Proof.
  induction 1 as [|a az Ha _ IH]; intros s Hi Hg; cbn; auto.
  pose proof (Ha s Hi Hg) as Hg'. pose proof (restore_all a s) as (H1 & H2 & H3).
  destruct (run a s) as [r s']. cbn in *. destruct r; cbn; auto.
  apply IH; auto. unfold inv. rewrite H1, H3. exact Hi.
Qed.

(* inside an emission: A is off, R is what it was at entry (origR), depth is d *)
Definition J (origR : bool) (d : nat) (s : st) : Prop := fA s = false /\ fR s = origR /\ depth s = d /\ good_log s.

Lemma invoke_J origR d is_re id allow_re reentrant acts : Forall depth_ok acts ->
  (d >= 1 -> is_re = true) ->
  (is_re && negb allow_re && negb origR = false) -> ((is_re && negb origR) && negb reentrant = false) ->
  forall s, J origR d s -> J origR d (snd (invoke run id allow_re reentrant acts s)).
Proof.
  intros Hf Hre Hg1 Hg2 s (HA & HR & HD & HL). unfold invoke.
  set (s_in := {| fA := fA s; fR := fR s; depth := S (depth s); in_main := in_main s; log := log s ++ [(depth s, fR s || allow_re && reentrant, id)] |}).
  assert (Hin : good_log s_in).
  { unfold good_log, s_in. cbn. apply Forall_app. split; auto. constructor; [|constructor]. cbn. intros Hd1.
    rewrite HD in Hd1. specialize (Hre Hd1). subst is_re. rewrite HR. cbn in *.
    destruct origR; cbn in *; auto. destruct allow_re; cbn in *; try discriminate. destruct reentrant; cbn in *; auto. }
  assert (Hinv : inv s_in) by (intros _; exact HA).
  pose proof (aloop_good acts Hf s_in Hinv Hin) as Hgl.
  pose proof (aloop_same acts (proj2 (Forall_forall _ _) (fun a _ => restore_all a)) s_in) as (H1 & H2 & H3).
  destruct (aloop_of run acts s_in) as [r so]. cbn in *. unfold J. cbn. repeat split; auto; congruence.
Qed.

Definition handler_ok (h : node) : Prop := match h with Node _ acts => Forall depth_ok acts end.
Lemma hloop_J origR d is_re allow_re propagate hs : Forall handler_ok hs ->
  (d >= 1 -> is_re = true) -> (is_re && negb allow_re && negb origR = false) ->
  forall s, J origR d s -> J origR d (snd (hloop_of run (is_re && negb origR) allow_re propagate hs s)).
Proof.
  intros Hf Hre Hg1. induction Hf as [|h hs Hh _ IH]; intros s HJ; cbn; auto.
  destruct h as [[| | id reentrant raises c | |] acts]; auto.
  destruct ((is_re && negb origR) && negb reentrant) eqn:Eg; auto.
  pose proof (invoke_J origR d is_re id allow_re reentrant acts Hh Hre Hg1 Eg s HJ) as HJ'.
  destruct (invoke run id allow_re reentrant acts s) as [r s']. cbn in HJ'.
  destruct (r || raises); [destruct propagate|destruct c]; cbn; auto.
Qed.

Definition tracer_ok (t : node) : Prop := match t with Node _ hs => Forall handler_ok hs end.
Lemma tloop_J origR d is_re ts : Forall tracer_ok ts -> (d >= 1 -> is_re = true) ->
  forall s, J origR d s -> J origR d (snd (tloop_of run is_re (is_re && negb origR) ts s)).
Proof.
  intros Hf Hre. induction Hf as [|t ts Ht _ IH]; intros s HJ; cbn; auto.
  destruct t as [[| allow_re propagate hd multi | | |] hs]; auto.
  destruct HJ as (HA & HR & HD & HL). rewrite HR.
  destruct (negb (in_main s) && negb multi); [apply IH; repeat split; auto|].
  destruct (is_re && negb allow_re && negb origR) eqn:Eg; [apply IH; repeat split; auto|].
  destruct hd; [apply IH; repeat split; auto|].
  pose proof (hloop_J origR d is_re allow_re propagate hs Ht Hre Eg s (conj HA (conj HR (conj HD HL)))) as HJ'.
  destruct (hloop_of run (is_re && negb origR) allow_re propagate hs s) as [res s']. cbn in HJ'.
  destruct res as [|[|]]; cbn; auto.
Qed.

Theorem depth_all : forall n, depth_ok n.
Proof.
  assert (Hsz : forall k n, (fix size (n : node) : nat := match n with Node _ cs => S ((fix sl (l : list node) := match l with [] => 0 | x :: l' => size x + sl l' end) cs) end) n <= k -> depth_ok n).
  { induction k as [|k IH]; intros [t cs] Hk; [cbn in Hk; lia|].
    set (size := (fix size (n : node) : nat := match n with Node _ cs => S ((fix sl (l : list node) := match l with [] => 0 | x :: l' => size x + sl l' end) cs) end)) in *.
    set (sl := (fix sl (l : list node) := match l with [] => 0 | x :: l' => size x + sl l' end)) in *.
    assert (Hx : forall (l : list node) x, In x l -> size x <= sl l).
    { induction l as [|y ys IHy]; intros x Hi; [destruct Hi|]. destruct Hi as [->|Hi]; cbn; [lia|]. specialize (IHy x Hi). lia. }
    cbn in Hk. fold sl in Hk. apply le_S_n in Hk.
    assert (Hc : forall c, In c cs -> depth_ok c).
    { intros c Hin. apply IH. pose proof (Hx _ _ Hin). lia. }
    assert (Hgg : forall c g a, In c cs -> In g (match c with Node _ l => l end) -> In a (match g with Node _ l => l end) -> depth_ok a).
    { intros [tc lc] [tg lg] a Hin Hg' Ha. apply IH.
      pose proof (Hx _ _ Hin) as H1. pose proof (Hx _ _ Hg') as H2. pose proof (Hx _ _ Ha) as H3.
      cbn in H1, H2. fold sl in H1, H2. lia. }
    intros s Hi Hg. destruct t.
    - rewrite run_em. cbn zeta.
      assert (Htr : Forall tracer_ok cs).
      { apply Forall_forall. intros [tc lc] Hin. cbn. apply Forall_forall. intros [tg lg] Hgin. cbn.
        apply Forall_forall. intros a Ha. eapply (Hgg (Node tc lc) (Node tg lg) a); eauto. }
      assert (Hre : depth s >= 1 -> negb (fA s) = true) by (intros Hd; rewrite (Hi Hd); reflexivity).
      pose proof (tloop_J (fR s) (depth s) (negb (fA s)) cs Htr Hre (set_flags s false (fR s))) as HJ.
      destruct (tloop_of run _ _ cs _) as [r s1]. cbn in *.
      destruct HJ as (_ & _ & _ & HL); [repeat split; auto|]. exact HL.
    - exact Hg.
    - exact Hg.
    - rewrite run_region.
      pose proof (aloop_good cs (proj2 (Forall_forall _ _) Hc) (set_flags s (fA s) true)) as HL.
      destruct (aloop_of run cs _) as [r s1]. cbn in *. apply HL; auto.
    - rewrite run_catch.
      pose proof (aloop_good cs (proj2 (Forall_forall _ _) Hc) s Hi Hg) as HL.
      destruct (aloop_of run cs s) as [r s1]. exact HL. }
  intros n. eapply Hsz. apply le_n.
Qed.

(* sequences of top-level emissions *)
Theorem run_all_restores ns : forall s, same s (snd (run_all ns s)).
Proof.
  induction ns as [|n ns IH]; intros s; cbn; [apply same_refl|].
  pose proof (restore_all n s) as H1. destruct (run n s) as [r s1]. pose proof (IH s1) as H2.
  destruct (run_all ns s1) as [rs s2]. cbn in *. eapply same_trans; eauto.
Qed.
Theorem run_all_depth ns : forall s, inv s -> good_log s -> good_log (snd (run_all ns s)).
Proof.
  induction ns as [|n ns IH]; intros s Hi Hg; cbn; auto.
  pose proof (depth_all n s Hi Hg) as H1. pose proof (restore_all n s) as (Ha & Hr & Hd).
  destruct (run n s) as [r s1]. pose proof (IH s1) as H2. destruct (run_all ns s1) as [rs s2]. cbn in *.
  apply H2; auto. unfold inv. rewrite Ha, Hd. exact Hi.
Qed.

(* no opt-in anywhere  =>  nesting depth never exceeds one *)
Fixpoint no_optin (n : node) : bool :=
  match n with
  | Node t cs =>
      match t with TgRegion => false | TgTracer a _ _ _ => negb a | TgHandler _ r _ _ => negb r | _ => true end
      && (fix go (l : list node) : bool := match l with [] => true | x :: l' => no_optin x && go l' end) cs
  end.
