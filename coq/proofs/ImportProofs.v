(* C12 / C13 *)
From Coq Require Import List NArith Bool Arith Lia.
Import ListNotations.
From PyccoloV Require Import model.Import.
Local Open Scope N_scope.

(* ------------------------------------------------------------------ C12 *)
Lemma filter_filter_or {A} (p q : A -> bool) l : filter p (filter (fun t => p t || q t) l) = filter p l.
Proof.
  induction l as [|x l IH]; [reflexivity|]. cbn [filter].
  destruct (p x) eqn:Ep; cbn [orb].
  - cbn [filter]. rewrite Ep. now f_equal.
  - destruct (q x); [cbn [filter]; rewrite Ep|]; exact IH.
Qed.

Lemma filter_all_true' {A} (f : A -> bool) l : (forall x, In x l -> f x = true) -> filter f l = l.
Proof. induction l as [|x l IH]; cbn; auto. intros H. rewrite (H x (or_introl eq_refl)). f_equal. apply IH. intros y Hy. apply H. now right. Qed.
(* an import on the installing thread through an ordinary source loader: rewritten for EXACTLY the tracers of the stack
   that accept the file, in stack order; the stock compile when none accepts *)
Theorem compile_exact stack f :
  compile_of stack f true true =
    match filter (fun t => t_accepts t f) stack with [] => Stock | ts => Rewritten (map t_id ts) end.
Proof.
  unfold compile_of, wraps, loader_tracers. cbn [andb].
  pose proof (filter_filter_or (fun t => t_accepts t f) (fun t => t_import_events t f) stack) as E.
  cbv beta in E. change (filter (fun t => t_accepts t f || t_import_events t f) stack) with (finder_tracers stack f) in E.
  destruct (finder_tracers stack f) as [|t ts] eqn:Ef; cbn [negb].
  - cbn [filter] in E. now rewrite <- E.
  - now rewrite E.
Qed.
Theorem compile_stock_iff stack f :
  compile_of stack f true true = Stock <-> forall t, In t stack -> t_accepts t f = false.
Proof.
  rewrite compile_exact. split.
  - intros H t Hin. destruct (t_accepts t f) eqn:E; [|reflexivity].
    assert (Hf : In t (filter (fun t => t_accepts t f) stack)) by (apply filter_In; auto).
    destruct (filter (fun t => t_accepts t f) stack); [destruct Hf|discriminate].
  - intros H. assert (E : filter (fun t => t_accepts t f) stack = []).
    { induction stack as [|x l IH]; [reflexivity|]. cbn [filter]. rewrite (H x (or_introl eq_refl)). apply IH. intros t Ht. apply H. now right. }
    now rewrite E.
Qed.
(* a loader that loads later: rewritten for exactly the accepting tracers of the stack it was found under that are still on
   the stack it loads under *)
Lemma filter_comm {A} (p q : A -> bool) l : filter p (filter q l) = filter q (filter p l).
Proof. induction l as [|x l IH]; cbn; auto. destruct (p x) eqn:Ep, (q x) eqn:Eq; cbn; rewrite ?Ep, ?Eq, IH; reflexivity. Qed.
Theorem compile_later_exact found load f :
  compile_later found load f true true =
    match filter (fun t => existsb (N.eqb (t_id t)) (map t_id load)) (filter (fun t => t_accepts t f) found) with
    | [] => Stock | ts => Rewritten (map t_id ts) end.
Proof.
  unfold compile_later, wraps, loader_tracers, live. cbn [andb].
  pose proof (filter_filter_or (fun t => t_accepts t f) (fun t => t_import_events t f) found) as E.
  cbv beta in E. change (filter (fun t => t_accepts t f || t_import_events t f) found) with (finder_tracers found f) in E.
  rewrite (filter_comm (fun t => t_accepts t f)), E.
  destruct (finder_tracers found f) as [|t ts] eqn:Ef; cbn [negb]; [|reflexivity].
  cbn [filter] in E. rewrite <- E. reflexivity.
Qed.
(* after the context (nothing on the stack any more) it is a plain source loader *)
Theorem compile_later_after found f src same : compile_later found [] f src same = Stock.
Proof.
  unfold compile_later, live. destruct (wraps found f src same); [|reflexivity]. cbn [map existsb].
  assert (E : forall l : list tracer, filter (fun _ => false) l = []) by (induction l; auto).
  rewrite E. reflexivity.
Qed.
(* loading at once is the ordinary import *)
Theorem compile_later_now stack f src same : compile_later stack stack f src same = compile_of stack f src same.
Proof.
  unfold compile_later, compile_of, live. destruct (wraps stack f src same); [|reflexivity].
  assert (E : filter (fun t => existsb (N.eqb (t_id t)) (map t_id stack)) (finder_tracers stack f) = finder_tracers stack f).
  { apply filter_all_true'. intros t Ht. apply existsb_exists. exists (t_id t). split; [|apply N.eqb_refl].
    apply in_map. unfold finder_tracers in Ht. apply filter_In in Ht. tauto. }
  now rewrite E.
Qed.
Theorem compile_other_loader stack f same_thread : compile_of stack f false same_thread = Stock.
Proof. unfold compile_of, wraps. now rewrite andb_false_r. Qed.
Theorem compile_other_thread stack f src : compile_of stack f src false = Stock.
Proof. reflexivity. Qed.
Theorem disabled_never_accepting stack f t : In t stack -> t_accepts t f = true ->
  (forall t', In t' stack -> t_id t' = t_id t -> t' = t) -> ~ In (t_id t) (disabled_during_exec stack f).
Proof.
  intros Hin Ha Huniq H. unfold disabled_during_exec in H. apply in_map_iff in H as (t' & Hid & Hf).
  apply filter_In in Hf as [Hf Hc]. unfold finder_tracers in Hf. apply filter_In in Hf as [Hf _].
  rewrite (Huniq t' Hf Hid) in Hc. now rewrite Ha in Hc.
Qed.

(* ------------------------------------------------------------------ C13 *)
Lemma upd_same {A} (m : name -> option A) k v : upd m k v k = v.
Proof. unfold upd. destruct (name_eq_dec k k); [reflexivity|congruence]. Qed.
Lemma upd_other {A} (m : name -> option A) k v k' : k <> k' -> upd m k v k' = m k'.
Proof. intros H. unfold upd. destruct (name_eq_dec k k'); [congruence|reflexivity]. Qed.

(* the signature determines the instrumentation: configurations of the history with the same cache name are the same *)
Definition faithful (ws : list who) : Prop :=
  forall w1 w2, In w1 ws -> In w2 ws -> name_of w1 = name_of w2 -> w1 = w2.

Definition Inv (ws : list who) (s : fs) : Prop :=
  (forall nm c, pyc s nm = Some c -> name_of (c_who c) = nm /\ In (c_who c) ws) /\
  (forall nm i, pkl s nm = Some i -> exists c, pyc s nm = Some c /\ c_inst c = i /\ book (c_who c) = true).

Lemma inv0 ws : Inv ws fs0.
Proof. split; cbn; intros; discriminate. Qed.

Lemma step_fresh ws s p : faithful ws -> In (p_who p) ws -> Inv ws s ->
  Inv ws (fst (step s p)) /\ snd (step s p) = fresh_obs p.
Proof.
  intros Hf Hin [I1 I2]. unfold step, fresh_obs.
  set (v := if p_edit p then ver s + 1 else ver s).
  set (nm := name_of (p_who p)).
  assert (Hs1 : Inv ws {| ver := v; next_inst := next_inst s + 1; pyc := pyc s; pkl := pkl s |}) by (split; cbn; auto).
  (* the compile-and-write branch *)
  assert (Hcw : forall r, r = (if p_write p
      then ({| ver := v; next_inst := next_inst s + 1;
               pyc := upd (pyc s) nm (Some {| c_who := p_who p; c_ver := v; c_inst := next_inst s |});
               pkl := if book (p_who p) && negb (p_raises p) then upd (pkl s) nm (Some (next_inst s)) else upd (pkl s) nm None |}, (p_who p, true))
      else ({| ver := v; next_inst := next_inst s + 1; pyc := pyc s; pkl := pkl s |}, (p_who p, true))) ->
      Inv ws (fst r) /\ snd r = (p_who p, true)).
  { intros r ->. destruct (p_write p); cbn [fst snd]; [|auto]. split; [|reflexivity]. split; cbn [pyc pkl].
    - intros nm' c Hc. destruct (name_eq_dec nm nm') as [<-|Hne].
      + rewrite upd_same in Hc. inversion Hc; subst c. cbn. auto.
      + rewrite upd_other in Hc by assumption. auto.
    - intros nm' i Hi. destruct (book (p_who p) && negb (p_raises p)) eqn:Eb.
      + apply andb_prop in Eb as [Eb _]. destruct (name_eq_dec nm nm') as [<-|Hne].
        * rewrite upd_same in Hi. inversion Hi; subst i. rewrite upd_same. eexists; repeat split; cbn; auto.
        * rewrite upd_other in Hi by assumption. rewrite upd_other by assumption. auto.
      + destruct (name_eq_dec nm nm') as [<-|Hne].
        * rewrite upd_same in Hi. discriminate.
        * rewrite upd_other in Hi by assumption. rewrite upd_other by assumption. auto. }
  destruct (p_caching p); cbn [negb]; [|auto].
  destruct (pyc s nm) as [c|] eqn:Ec; [|now apply Hcw].
  destruct (N.eqb (c_ver c) v); [|now apply Hcw].
  destruct (I1 _ _ Ec) as [Hn Hw]. pose proof (Hf _ _ Hw Hin Hn) as Ewho.
  destruct (book (p_who p)).
  - destruct (pkl s nm) as [i|] eqn:Ei; cbn [fst snd]; [|auto].
    destruct (I2 _ _ Ei) as (c' & Hc' & Hi' & _). rewrite Ec in Hc'. inversion Hc'; subst c'.
    rewrite Hi', N.eqb_refl, Ewho. auto.
  - cbn [fst snd]. rewrite Ewho. auto.
Qed.

(* every process of every history observes what it would observe on an empty cache: it runs the code of its own
   configuration, compiled from the current source, with the node table of that very compilation *)
Theorem run_fresh ws : faithful ws -> forall ps s, Forall (fun p => In (p_who p) ws) ps -> Inv ws s ->
  run s ps = map fresh_obs ps.
Proof.
  intros Hf. induction ps as [|p ps IH]; intros s Hall Hi; [reflexivity|].
  inversion Hall as [|? ? Hp Hps]; subst. cbn [run map].
  destruct (step_fresh ws s p Hf Hp Hi) as [Hi' Ho]. destruct (step s p) as [s' o]. cbn [fst snd] in *.
  rewrite Ho. f_equal. now apply IH.
Qed.
Corollary history_fresh ps : faithful (map p_who ps) -> run fs0 ps = map fresh_obs ps.
Proof.
  intros Hf. apply (run_fresh (map p_who ps) Hf); [|apply inv0].
  apply Forall_forall. intros p Hp. now apply in_map.
Qed.

(* plain imports and traced imports never share a cache entry: the plain name belongs to stock compiles only *)
Lemma plain_name_only_stock w : name_of w = [] -> w = [].
Proof. destruct w; [reflexivity|discriminate]. Qed.

(* the hypothesis is needed: two configurations with one signature but different instrumentation (recorded finding) *)
Definition ex_p1 : proc := {| p_who := [(1, 1, (0, false))]; p_caching := true; p_write := true; p_edit := false; p_raises := false |}.
Definition ex_p2 : proc := {| p_who := [(1, 1, (5, false))]; p_caching := true; p_write := true; p_edit := false; p_raises := false |}.
Theorem fresh_refuted : exists ps, run fs0 ps <> map fresh_obs ps.
Proof. exists [ex_p1; ex_p2]. vm_compute. discriminate. Qed.
