(* Docstring positions survive the rewriting: what `check_docs` (model/Erase.v) accepts. *)
From Coq Require Import List ZArith NArith Bool.
Import ListNotations.
From PyccoloV Require Import gen.PyAst gen.Ids model.Tree model.Erase proofs.EraseSound.

(* a subtree relation: `sub t u` - t occurs in u *)
Inductive subtree (t : tree) : tree -> Prop :=
| sub_refl : subtree t t
| sub_child : forall k sc fs f x, In f fs -> In x f -> subtree t x -> subtree t (T k sc fs).

Lemma check_docs_T k sc fs :
  check_docs (T k sc fs) = forallb (forallb check_docs) fs && match scope_body k fs with Some body => doc_head_ok body | None => true end.
Proof.
  reflexivity.
Qed.

Lemma check_docs_subtree t u : subtree t u -> check_docs u = true -> check_docs t = true.
Proof.
  induction 1 as [|k sc fs f x Hf Hx _ IH]; intros H; [exact H|].
  apply IH. rewrite check_docs_T in H. apply andb_prop in H as [H _].
  rewrite forallb_forall in H. specialize (H f Hf). rewrite forallb_forall in H. exact (H x Hx).
Qed.

(* a docstring statement erases to itself *)
Lemma erase_docstring d : is_docstring_strict d = true -> erase d = Some [d].
Proof.
  destruct d as [k sc fs|]; [|discriminate]. cbn [is_docstring_strict].
  destruct sc as [|? ?]; [|discriminate]. destruct fs as [|[|[kc [|[] sc'] [|? ?]|] [|? ?]] [|? ?]]; try discriminate.
  intros H. apply andb_prop in H as [Hk Hc]. apply N.eqb_eq in Hk, Hc. subst k kc. reflexivity.
Qed.

(* the statement of the check at one body *)
Theorem doc_head_kept body d' rest :
  doc_head_ok body = true -> erase_stmts body = Some (d' :: rest) -> is_docstring_strict d' = true ->
  exists body', body = d' :: body'.
Proof.
  unfold doc_head_ok. intros H E Hd. rewrite E, Hd in H. destruct body as [|d body']; [discriminate|].
  apply tree_eqb_eq in H. subst d. eauto.
Qed.

(* and conversely a docstring written at the head of a body is the head of the erased body: the two programs have their docstrings
   in the same places *)
Theorem doc_head_erased d body l :
  is_docstring_strict d = true -> erase_stmts (d :: body) = Some l -> exists rest, l = d :: rest.
Proof.
  intros Hd. cbn [erase_stmts]. rewrite (erase_docstring d Hd).
  fold (erase_stmts body). destruct (erase_stmts body) as [b|]; [|discriminate]. intros H. inversion H. cbn. eauto.
Qed.

(* every function / class / module body anywhere in an accepted output *)
Theorem check_docs_everywhere out k sc fs body d' rest :
  check_docs out = true -> subtree (T k sc fs) out -> scope_body k fs = Some body ->
  erase_stmts body = Some (d' :: rest) -> is_docstring_strict d' = true ->
  exists body', body = d' :: body'.
Proof.
  intros H Hs Hb E Hd. apply (check_docs_subtree _ _ Hs) in H. rewrite check_docs_T, Hb in H.
  apply andb_prop in H as [_ H]. exact (doc_head_kept body d' rest H E Hd).
Qed.
