From Coq Require Import List ZArith NArith Bool Lia.
Import ListNotations.
From PyccoloV Require Import model.Sandbox.

Definition keys (m : assoc) : list N := map fst m.
Lemma keys_adel m k x : In x (keys (adel m k)) <-> In x (keys m) /\ x <> k.
Proof.
  unfold keys, adel. induction m as [|[j v] m IH]; cbn; [tauto|].
  destruct (N.eqb j k) eqn:E; cbn.
  - apply N.eqb_eq in E; subst. rewrite IH. split; [tauto|]. intros [[H|H] Hn]; [congruence|tauto].
  - apply N.eqb_neq in E. rewrite IH. split; [intros [H|H]; [subst; tauto|tauto]|tauto].
Qed.
Lemma keys_aset m k v x : In x (keys (aset m k v)) <-> (In x (keys m) /\ x <> k) \/ x = k.
Proof. unfold aset. unfold keys. rewrite map_app. rewrite in_app_iff. fold (keys (adel m k)). rewrite keys_adel. cbn. intuition. Qed.
Lemma adel_notin m k : ~ In k (keys m) -> adel m k = m.
Proof.
  unfold keys, adel. induction m as [|[j v] m IH]; cbn; auto. intros H.
  destruct (N.eqb j k) eqn:E; cbn; [apply N.eqb_eq in E; subst; tauto|]. f_equal. apply IH. tauto.
Qed.
Lemma adel_comm m a b : adel (adel m a) b = adel (adel m b) a.
Proof. unfold adel. induction m as [|[j v] m IH]; cbn; auto. destruct (N.eqb j a) eqn:Ea, (N.eqb j b) eqn:Eb; cbn; rewrite ?Ea, ?Eb; cbn; congruence. Qed.
Lemma adel_app m1 m2 k : adel (m1 ++ m2) k = adel m1 k ++ adel m2 k.
Proof. unfold adel. apply filter_app. Qed.

(* names a program mentions *)
Definition op_name (o : op) : N := match o with Bind k _ | Del k | GBind k _ => k end.
Definition user_prog (p : prog) : Prop := forall o, In o (ops p) -> (10 <= op_name o)%N.
Definition user_map (m : assoc) : Prop := forall k, In k (keys m) -> (10 <= k)%N.

Lemma run_ops_keys l : forall loc g, (forall o, In o l -> (10 <= op_name o)%N) -> user_map loc -> user_map g ->
  user_map (fst (run_ops l (loc, g))) /\ user_map (snd (run_ops l (loc, g))).
Proof.
  induction l as [|o l IH]; intros loc g Hp Hl Hg; cbn; auto.
  assert (Ho : (10 <= op_name o)%N) by (apply Hp; now left).
  destruct o as [k v|k|k v]; cbn in *; apply IH; auto; try (intros; apply Hp; now right).
  - intros x Hx. apply keys_aset in Hx as [[Hx _]|Hx]; subst; auto.
  - intros x Hx. apply keys_adel in Hx as [Hx _]; auto.
  - intros x Hx. apply keys_aset in Hx as [[Hx _]|Hx]; subst; auto.
Qed.

Lemma filter_usable_user m : user_map m -> filter (fun kv => usable (fst kv)) m = m.
Proof.
  intros H. induction m as [|[k v] m IH]; cbn; auto.
  assert (Hk : (10 <= k)%N) by (apply H; now left).
  assert (Hu : usable k = true).
  { unfold usable, at_prefixed, n_dunder. apply andb_true_intro. split; apply negb_true_iff.
    - apply andb_false_intro2. apply N.leb_gt. lia.
    - apply N.eqb_neq. lia. }
  rewrite Hu. f_equal. apply IH. intros x Hx. apply H. now right.
Qed.

Lemma restore_L L : user_map L -> adel (adel (aset (aset L n_env 0) n_fun 0) n_fun) n_env = L.
Proof.
  intros H. unfold aset. rewrite !adel_app. cbn.
  assert (H2 : ~ In n_env (keys L)) by (intros Hc; apply H in Hc; unfold n_env in Hc; lia).
  assert (H3 : ~ In n_fun (keys L)) by (intros Hc; apply H in Hc; unfold n_fun in Hc; lia).
  rewrite (adel_notin L n_env H2). rewrite (adel_notin L n_fun H3). rewrite (adel_notin L n_fun H3).
  rewrite (adel_notin L n_env H2). now rewrite !app_nil_r.
Qed.

(* C15_result: exactly the function-body reference, and the caller's mapping is left as it was *)
Theorem exec_refines L G p : user_map L -> user_map G -> user_prog p -> raises_after p = None ->
  exec_model L G p = (Some (fst (spec_result L G p)), L, snd (spec_result L G p)).
Proof.
  intros HL HG Hp Hr. unfold exec_model, spec_result. rewrite Hr. rewrite (filter_usable_user L HL).
  unfold assoc in *.
  destruct (run_ops (ops p) (L, G)) as [loc g] eqn:E. cbn [fst snd].
  pose proof (run_ops_keys (ops p) L G Hp HL HG) as [Hloc _]. unfold assoc in Hloc. rewrite E in Hloc. cbn in Hloc.
  rewrite (restore_L L HL). f_equal. f_equal. f_equal.
  unfold aset. rewrite !adel_app. cbn.
  assert (H0 : ~ In n_dunder (keys loc)) by (intros Hc; apply Hloc in Hc; unfold n_dunder in Hc; lia).
  assert (H1 : ~ In n_builtins (keys loc)) by (intros Hc; apply Hloc in Hc; unfold n_builtins in Hc; lia).
  rewrite (adel_notin loc n_dunder H0). rewrite (adel_notin loc n_dunder H0). rewrite (adel_notin loc n_builtins H1).
  now rewrite app_nil_r.
Qed.

(* when the program raises: the caller's mapping is untouched, globals hold what was bound before the raise *)
Theorem exec_raises L G p i : user_map L -> user_map G -> user_prog p -> raises_after p = Some i ->
  exec_model L G p = (None, L, snd (run_ops (firstn i (ops p)) (L, G))).
Proof.
  intros HL HG Hp Hr. unfold exec_model. rewrite Hr. rewrite (filter_usable_user L HL).
  unfold assoc in *.
  destruct (run_ops (firstn i (ops p)) (L, G)) as [loc g]. cbn. now rewrite (restore_L L HL).
Qed.

(* C15_clean: no library-internal name in the result, the caller's mapping or globals, whether it finishes or raises *)
Definition clean (m : assoc) : Prop := forall k, In k (keys m) -> internal k = false.
Lemma user_clean m : user_map m -> clean m.
Proof. intros H k Hk. apply H in Hk. unfold internal, n_env, n_fun. apply orb_false_intro; apply N.eqb_neq; lia. Qed.
Theorem exec_clean L G p : user_map L -> user_map G -> user_prog p ->
  let '(r, L', G') := exec_model L G p in
  clean L' /\ clean G' /\ match r with Some res => clean res | None => True end.
Proof.
  intros HL HG Hp. destruct (raises_after p) as [i|] eqn:Er.
  - rewrite (exec_raises L G p i HL HG Hp Er). split; [now apply user_clean|]. split; auto.
    assert (Hin : forall (l : list op) i o, In o (firstn i l) -> In o l).
    { induction l as [|x l IHl]; intros [|j] o Ho; cbn in *; auto; try contradiction. destruct Ho as [->|Ho]; eauto. }
    assert (Hq : forall o, In o (firstn i (ops p)) -> (10 <= op_name o)%N) by (intros o Ho; apply Hp; eapply Hin; eauto).
    apply user_clean. apply (run_ops_keys _ L G Hq HL HG).
  - rewrite (exec_refines L G p HL HG Hp Er). unfold spec_result.
    destruct (run_ops_keys (ops p) L G Hp HL HG) as [H1 H2]. repeat split; apply user_clean; auto.
Qed.

(* a program that binds the names `builtins` or `__` loses them from the result (known finding) *)
Theorem reserved_names_refuted :
  exists p, raises_after p = None /\
    aget (fst (spec_result [] [] p)) n_builtins = Some 5%Z /\
    (match fst (fst (exec_model [] [] p)) with Some res => aget res n_builtins | None => None end) = None.
Proof. exists {| ops := [Bind n_builtins 5%Z]; raises_after := None |}. vm_compute. repeat split; reflexivity. Qed.
