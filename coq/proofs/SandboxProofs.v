From Coq Require Import List ZArith NArith Bool Lia.
Import ListNotations.
From PyccoloV Require Import model.Sandbox.

Definition keys (m : assoc) : list N := map fst m.
Lemma keys_adel m k x : In x (keys (adel m k)) <-> In x (keys m) /\ x <> k.
Proof.
  unfold keys, adel. induction m as [|[j v] m IH]; cbn; [tauto|].
  destruct (N.eqb j k) eqn:E; cbn.
  - apply N.eqb_eq in E; subst. rewrite IH. split; [tauto|]. intros [[H|H] Hn]; [congruence|tauto].
  - apply N.eqb_neq in E. rewrite IH. split; [intros [H|H]; [subst; tauto|tauto]|tauto].
Qed.
Lemma keys_aset m k v x : In x (keys (aset m k v)) <-> (In x (keys m) /\ x <> k) \/ x = k.
Proof. unfold aset. unfold keys. rewrite map_app. rewrite in_app_iff. fold (keys (adel m k)). rewrite keys_adel. cbn. intuition. Qed.
Lemma adel_notin m k : ~ In k (keys m) -> adel m k = m.
Proof.
  unfold keys, adel. induction m as [|[j v] m IH]; cbn; auto. intros H.
  destruct (N.eqb j k) eqn:E; cbn; [apply N.eqb_eq in E; subst; tauto|]. f_equal. apply IH. tauto.
Qed.
Lemma adel_comm m a b : adel (adel m a) b = adel (adel m b) a.
Proof. unfold adel. induction m as [|[j v] m IH]; cbn; auto. destruct (N.eqb j a) eqn:Ea, (N.eqb j b) eqn:Eb; cbn; rewrite ?Ea, ?Eb; cbn; congruence. Qed.
Lemma adel_app m1 m2 k : adel (m1 ++ m2) k = adel m1 k ++ adel m2 k.
Proof. unfold adel. apply filter_app. Qed.

(* lookups *)
Lemma aget_app m1 m2 x : aget (m1 ++ m2) x = match aget m1 x with Some v => Some v | None => aget m2 x end.
Proof. induction m1 as [|[j v] m IH]; cbn; auto. destruct (N.eqb j x); auto. Qed.
Lemma aget_adel m k x : aget (adel m k) x = if N.eqb x k then None else aget m x.
Proof.
  unfold adel. induction m as [|[j v] m IH]; cbn [filter aget fst]; [now destruct (N.eqb x k)|].
  destruct (N.eqb j k) eqn:Ejk; cbn [negb aget]; rewrite IH; destruct (N.eqb x k) eqn:Exk; destruct (N.eqb j x) eqn:Ejx; try reflexivity;
    rewrite ?N.eqb_eq, ?N.eqb_neq in *; subst; congruence.
Qed.
Lemma aget_aset m k v x : aget (aset m k v) x = if N.eqb x k then Some v else aget m x.
Proof.
  unfold aset. rewrite aget_app, aget_adel. cbn. destruct (N.eqb x k) eqn:E.
  - rewrite N.eqb_sym, E. reflexivity.
  - rewrite N.eqb_sym, E. now destruct (aget m x).
Qed.
Lemma aget_filter (f : N -> bool) m x : aget (filter (fun kv => f (fst kv)) m) x = if f x then aget m x else None.
Proof.
  induction m as [|[j v] m IH]; cbn; [now destruct (f x)|].
  destruct (f j) eqn:Ej; cbn.
  - destruct (N.eqb j x) eqn:E; [apply N.eqb_eq in E; subst; now rewrite Ej|exact IH].
  - destruct (N.eqb j x) eqn:E; [apply N.eqb_eq in E; subst; now rewrite IH, Ej|exact IH].
Qed.
Lemma aget_setdefaults pt : forall res x, aget (setdefaults res pt) x = match aget res x with Some v => Some v | None => aget pt x end.
Proof.
  unfold setdefaults. induction pt as [|[k v] pt IH]; intros res x; cbn [fold_left fst snd aget]; [now destruct (aget res x)|].
  rewrite IH. destruct (aget res k) eqn:Ek.
  - destruct (aget res x) eqn:Ex; auto. destruct (N.eqb k x) eqn:E; auto. apply N.eqb_eq in E; subst. congruence.
  - rewrite aget_aset. destruct (N.eqb x k) eqn:E.
    + apply N.eqb_eq in E; subst. now rewrite Ek, N.eqb_refl.
    + rewrite N.eqb_sym, E. reflexivity.
Qed.
Lemma aget_none_notin m k : ~ In k (keys m) -> aget m k = None.
Proof. unfold keys. induction m as [|[j v] m IH]; cbn; auto. intros H. destruct (N.eqb j k) eqn:E; [apply N.eqb_eq in E; subst; tauto|]. apply IH. tauto. Qed.
Lemma aget_some_in m k v : aget m k = Some v -> In k (keys m).
Proof. unfold keys. induction m as [|[j w] m IH]; cbn; [discriminate|]. destruct (N.eqb j k) eqn:E; [apply N.eqb_eq in E; auto|auto]. Qed.
Lemma keys_setdefaults pt : forall res x, In x (keys (setdefaults res pt)) -> In x (keys res) \/ In x (keys pt).
Proof.
  unfold setdefaults. induction pt as [|[k v] pt IH]; intros res x H; cbn [fold_left fst snd] in H; [now left|].
  apply IH in H as [H|H]; [|right; now right].
  destruct (aget res k); [now left|]. apply keys_aset in H as [[H _]|H]; [now left|subst; right; now left].
Qed.

(* names a program mentions *)
Definition op_name (o : op) : N := match o with Bind k _ | Del k | GBind k _ => k end.
Definition user_prog (p : prog) : Prop := forall o, In o (ops p) -> (10 <= op_name o)%N.
Definition user_map (m : assoc) : Prop := forall k, In k (keys m) -> (10 <= k)%N.

Lemma run_ops_keys l : forall loc g, (forall o, In o l -> (10 <= op_name o)%N) -> user_map loc -> user_map g ->
  user_map (fst (run_ops l (loc, g))) /\ user_map (snd (run_ops l (loc, g))).
Proof.
  induction l as [|o l IH]; intros loc g Hp Hl Hg; cbn; auto.
  assert (Ho : (10 <= op_name o)%N) by (apply Hp; now left).
  destruct o as [k v|k|k v]; cbn in *; apply IH; auto; try (intros; apply Hp; now right).
  - intros x Hx. apply keys_aset in Hx as [[Hx _]|Hx]; subst; auto.
  - intros x Hx. apply keys_adel in Hx as [Hx _]; auto.
  - intros x Hx. apply keys_aset in Hx as [[Hx _]|Hx]; subst; auto.
Qed.

Lemma usable_user k : (10 <= k)%N -> usable k = true.
Proof.
  intros Hk. unfold usable, at_prefixed, n_dunder. apply andb_true_intro. split; apply negb_true_iff.
  - apply andb_false_intro2. apply N.leb_gt. lia.
  - apply N.eqb_neq. lia.
Qed.
(* every supplied name can be, and is, a parameter: none is declared global by the program, none is a keyword / non-identifier *)
Definition plain_locals (L : assoc) (p : prog) : Prop := forall k, In k (keys L) -> is_param (gdecl p) k = true.
Lemma filter_all_true {A} (f : A -> bool) l : (forall x, In x l -> f x = true) -> filter f l = l.
Proof. induction l as [|x l IH]; cbn; auto. intros H. rewrite (H x (or_introl eq_refl)). f_equal. apply IH. intros y Hy. apply H. now right. Qed.
Lemma filter_all_false {A} (f : A -> bool) l : (forall x, In x l -> f x = false) -> filter f l = [].
Proof. induction l as [|x l IH]; cbn; auto. intros H. rewrite (H x (or_introl eq_refl)). apply IH. intros y Hy. apply H. now right. Qed.
Lemma plain_params L p : plain_locals L p -> filter (fun kv => is_param (gdecl p) (fst kv)) L = L.
Proof. intros H. apply filter_all_true. intros [k v] Hin. apply H. unfold keys. now apply (in_map fst) in Hin. Qed.
Lemma plain_pt L p : plain_locals L p -> filter (fun kv => passes_through (gdecl p) (fst kv)) L = [].
Proof.
  intros H. apply filter_all_false. intros [k v] Hin. unfold passes_through. cbn [fst].
  rewrite (H k); [reflexivity|]. unfold keys. now apply (in_map fst) in Hin.
Qed.

Lemma restore_L L : user_map L -> adel (adel (aset (aset L n_env 0) n_fun 0) n_fun) n_env = L.
Proof.
  intros H. unfold aset. rewrite !adel_app. cbn.
  assert (H2 : ~ In n_env (keys L)) by (intros Hc; apply H in Hc; unfold n_env in Hc; lia).
  assert (H3 : ~ In n_fun (keys L)) by (intros Hc; apply H in Hc; unfold n_fun in Hc; lia).
  rewrite (adel_notin L n_env H2). rewrite (adel_notin L n_fun H3). rewrite (adel_notin L n_fun H3).
  rewrite (adel_notin L n_env H2). now rewrite !app_nil_r.
Qed.

(* C15_result: exactly the function-body reference, and the caller's mapping is left as it was *)
Theorem exec_refines L G p : user_map L -> user_map G -> user_prog p -> plain_locals L p -> raises_after p = None ->
  exec_model L G p = (Some (fst (spec_result L G p)), L, snd (spec_result L G p)).
Proof.
  intros HL HG Hp Hpl Hr. unfold exec_model, spec_result. rewrite Hr. rewrite (plain_params L p Hpl), (plain_pt L p Hpl).
  unfold setdefaults. cbn [fold_left].
  unfold assoc in *.
  destruct (run_ops (ops p) (L, G)) as [loc g] eqn:E. cbn [fst snd].
  pose proof (run_ops_keys (ops p) L G Hp HL HG) as [Hloc _]. unfold assoc in Hloc. rewrite E in Hloc. cbn in Hloc.
  rewrite (restore_L L HL). f_equal. f_equal. f_equal.
  unfold aset. rewrite !adel_app. cbn.
  assert (H0 : ~ In n_dunder (keys loc)) by (intros Hc; apply Hloc in Hc; unfold n_dunder in Hc; lia).
  assert (H1 : ~ In n_builtins (keys loc)) by (intros Hc; apply Hloc in Hc; unfold n_builtins in Hc; lia).
  rewrite (adel_notin loc n_dunder H0). rewrite (adel_notin loc n_dunder H0). rewrite (adel_notin loc n_builtins H1).
  now rewrite app_nil_r.
Qed.

(* the globals a program leaves do not depend on its locals *)
Lemma run_ops_snd_indep l : forall loc1 loc2 g, snd (run_ops l (loc1, g)) = snd (run_ops l (loc2, g)).
Proof. induction l as [|o l IH]; intros loc1 loc2 g; cbn; auto. destruct o; cbn; apply IH. Qed.
Lemma user_map_filter (f : N * Z -> bool) m : user_map m -> user_map (filter f m).
Proof. intros H k Hk. apply H. unfold keys in *. apply in_map_iff in Hk as ([a b] & <- & Hin). apply filter_In in Hin as [Hin _]. now apply (in_map fst) in Hin. Qed.

(* when the program raises: the caller's mapping is untouched, globals hold what was bound before the raise *)
Theorem exec_raises L G p i : user_map L -> user_map G -> user_prog p -> raises_after p = Some i ->
  exec_model L G p = (None, L, snd (run_ops (firstn i (ops p)) (L, G))).
Proof.
  intros HL HG Hp Hr. unfold exec_model. rewrite Hr.
  pose proof (run_ops_snd_indep (firstn i (ops p)) (filter (fun kv => is_param (gdecl p) (fst kv)) L) L G) as Hs.
  unfold assoc in *.
  destruct (run_ops (firstn i (ops p)) (filter (fun kv => is_param (gdecl p) (fst kv)) L, G)) as [loc0 g0].
  destruct (run_ops (firstn i (ops p)) (L, G)) as [loc g]. cbn in *. subst g0. now rewrite (restore_L L HL).
Qed.

(* ---- supplied names that are NOT parameters: declared global by the program, or not a possible parameter name *)
Definition wf_prog (p : prog) : Prop := forall o, In o (ops p) ->
  match o with
  | Bind k _ | Del k => cannot_be_param k = false /\ ~ In k (gdecl p)      (* a local of the program: an identifier it does not declare global *)
  | GBind k _ => In k (gdecl p)
  end.
Lemma existsb_eqb_false k gd : ~ In k gd -> existsb (N.eqb k) gd = false.
Proof. induction gd as [|x gd IH]; cbn; auto. intros H. destruct (N.eqb_spec k x) as [->|_]; [tauto|]. apply IH. tauto. Qed.

Lemma run_ops_lookup gd l : forall loc1 loc2 g,
  (forall o, In o l -> (10 <= op_name o)%N) ->
  (forall o, In o l -> match o with Bind k _ | Del k => cannot_be_param k = false /\ ~ In k gd | GBind k _ => In k gd end) ->
  (forall x, is_param gd x = true -> aget loc1 x = aget loc2 x) ->
  (forall x, is_param gd x = true -> aget (fst (run_ops l (loc1, g))) x = aget (fst (run_ops l (loc2, g))) x)
  /\ (forall x, is_param gd x = false -> aget (fst (run_ops l (loc1, g))) x = aget loc1 x /\ aget (fst (run_ops l (loc2, g))) x = aget loc2 x).
Proof.
  induction l as [|o l IH]; intros loc1 loc2 g Hu Hw He; [cbn; split; auto|].
  assert (Ho : (10 <= op_name o)%N) by (apply Hu; now left).
  pose proof (Hw o (or_introl eq_refl)) as Hwo.
  assert (Hu' : forall o', In o' l -> (10 <= op_name o')%N) by (intros; apply Hu; now right).
  assert (Hw' : forall o', In o' l -> match o' with Bind k _ | Del k => cannot_be_param k = false /\ ~ In k gd | GBind k _ => In k gd end) by (intros; apply Hw; now right).
  destruct o as [k v|k|k v]; cbn [run_ops fold_left apply_op].
  - destruct Hwo as [Hc Hg]. assert (Hk : is_param gd k = true).
    { unfold is_param. cbn in Ho. now rewrite (usable_user k Ho), Hc, (existsb_eqb_false k gd Hg). }
    destruct (IH (aset loc1 k v) (aset loc2 k v) g Hu' Hw') as [H1 H2].
    { intros x Hx. rewrite !aget_aset. destruct (N.eqb x k); auto. }
    split; [exact H1|]. intros x Hx. destruct (H2 x Hx) as [A B]. fold (run_ops l (aset loc1 k v, g)). fold (run_ops l (aset loc2 k v, g)).
    rewrite A, B, !aget_aset. destruct (N.eqb_spec x k) as [->|_]; [congruence|auto].
  - destruct Hwo as [Hc Hg]. assert (Hk : is_param gd k = true).
    { unfold is_param. cbn in Ho. now rewrite (usable_user k Ho), Hc, (existsb_eqb_false k gd Hg). }
    destruct (IH (adel loc1 k) (adel loc2 k) g Hu' Hw') as [H1 H2].
    { intros x Hx. rewrite !aget_adel. destruct (N.eqb x k); auto. }
    split; [exact H1|]. intros x Hx. destruct (H2 x Hx) as [A B]. fold (run_ops l (adel loc1 k, g)). fold (run_ops l (adel loc2 k, g)).
    rewrite A, B, !aget_adel. destruct (N.eqb_spec x k) as [->|_]; [congruence|auto].
  - apply (IH loc1 loc2 (aset g k v) Hu' Hw' He).
Qed.

(* the result holds, name by name, what the function-body reference holds - supplied names the program declares global or
   that cannot be parameters included (they are handed back unchanged) *)
Theorem exec_passthrough L G p : user_map L -> user_map G -> user_prog p -> wf_prog p -> raises_after p = None ->
  exists res, exec_model L G p = (Some res, L, snd (spec_result L G p)) /\ forall k, aget res k = aget (fst (spec_result L G p)) k.
Proof.
  intros HL HG Hp Hw Hr. unfold exec_model, spec_result. rewrite Hr.
  set (params := filter (fun kv => is_param (gdecl p) (fst kv)) L).
  set (pt := filter (fun kv => passes_through (gdecl p) (fst kv)) L).
  pose proof (run_ops_snd_indep (ops p) params L G) as Hs.
  assert (He : forall x, is_param (gdecl p) x = true -> aget params x = aget L x).
  { intros x Hx. unfold params. now rewrite (aget_filter (is_param (gdecl p))), Hx. }
  destruct (run_ops_lookup (gdecl p) (ops p) params L G Hp Hw He) as [H1 H2].
  pose proof (run_ops_keys (ops p) L G Hp HL HG) as [HlocL _].
  unfold assoc in *.
  destruct (run_ops (ops p) (params, G)) as [loc g] eqn:E1. destruct (run_ops (ops p) (L, G)) as [locL gL] eqn:E2.
  cbn [fst snd] in *. subst g. rewrite (restore_L L HL).
  eexists. split; [reflexivity|]. intros k.
  rewrite aget_setdefaults, !aget_adel, aget_aset.
  assert (HptL : forall x, aget pt x = if passes_through (gdecl p) x then aget L x else None).
  { intros x. unfold pt. apply (aget_filter (passes_through (gdecl p))). }
  assert (Hsmall : forall x, (x < 10)%N -> aget locL x = None /\ aget L x = None).
  { intros x Hx. split; apply aget_none_notin; intros Hc; [apply HlocL in Hc|apply HL in Hc]; lia. }
  destruct (N.eqb_spec k n_builtins) as [->|Hnb].
  { destruct (Hsmall n_builtins) as [A B]; [unfold n_builtins; lia|]. rewrite A, HptL, B. now destruct (passes_through (gdecl p) n_builtins). }
  destruct (N.eqb_spec k n_dunder) as [->|Hnd].
  { destruct (Hsmall n_dunder) as [A B]; [unfold n_dunder; lia|]. rewrite A, HptL, B. now destruct (passes_through (gdecl p) n_dunder). }
  destruct (is_param (gdecl p) k) eqn:Ek.
  - rewrite (H1 k Ek). destruct (aget locL k); [reflexivity|]. rewrite HptL. unfold passes_through. now rewrite Ek.
  - destruct (H2 k Ek) as [A B]. rewrite A, B. unfold params. rewrite (aget_filter (is_param (gdecl p))), Ek.
    rewrite HptL. unfold passes_through. rewrite Ek. cbn [negb andb].
    destruct (usable k) eqn:Eu; [reflexivity|]. symmetry. apply aget_none_notin. intros Hc. apply HL in Hc.
    rewrite (usable_user k Hc) in Eu. discriminate.
Qed.

(* C15_clean: no library-internal name in the result, the caller's mapping or globals, whether it finishes or raises *)
Definition clean (m : assoc) : Prop := forall k, In k (keys m) -> internal k = false.
Lemma user_clean m : user_map m -> clean m.
Proof. intros H k Hk. apply H in Hk. unfold internal, n_env, n_fun. apply orb_false_intro; apply N.eqb_neq; lia. Qed.
Theorem exec_clean L G p : user_map L -> user_map G -> user_prog p ->
  let '(r, L', G') := exec_model L G p in
  clean L' /\ clean G' /\ match r with Some res => clean res | None => True end.
Proof.
  intros HL HG Hp. destruct (raises_after p) as [i|] eqn:Er.
  - rewrite (exec_raises L G p i HL HG Hp Er). split; [now apply user_clean|]. split; auto.
    assert (Hin : forall (l : list op) i o, In o (firstn i l) -> In o l).
    { induction l as [|x l IHl]; intros [|j] o Ho; cbn in *; auto; try contradiction. destruct Ho as [->|Ho]; eauto. }
    assert (Hq : forall o, In o (firstn i (ops p)) -> (10 <= op_name o)%N) by (intros o Ho; apply Hp; eapply Hin; eauto).
    apply user_clean. apply (run_ops_keys _ L G Hq HL HG).
  - unfold exec_model. rewrite Er.
    set (params := filter (fun kv => is_param (gdecl p) (fst kv)) L).
    set (pt := filter (fun kv => passes_through (gdecl p) (fst kv)) L).
    assert (Hpar : user_map params) by (apply user_map_filter; exact HL).
    assert (Hpt : user_map pt) by (apply user_map_filter; exact HL).
    destruct (run_ops_keys (ops p) params G Hp Hpar HG) as [H1 H2].
    unfold assoc in *. destruct (run_ops (ops p) (params, G)) as [loc g]. cbn [fst snd] in *.
    rewrite (restore_L L HL). repeat split; try (apply user_clean; assumption).
    apply user_clean. intros k Hk. apply keys_setdefaults in Hk as [Hk|Hk]; [|now apply Hpt].
    apply keys_adel in Hk as [Hk _]. apply keys_adel in Hk as [Hk Hnd]. apply keys_aset in Hk as [[Hk _]|Hk]; [now apply H1|congruence].
Qed.

(* ---- locals is globals *)
Lemma run_ops_snd_lookup l : forall loc1 loc2 g1 g2 (P : N -> Prop),
  (forall k, P k -> aget g1 k = aget g2 k) -> forall k, P k -> aget (snd (run_ops l (loc1, g1))) k = aget (snd (run_ops l (loc2, g2))) k.
Proof.
  induction l as [|o l IH]; intros loc1 loc2 g1 g2 P H k Hk; [cbn; auto|].
  destruct o as [x v|x|x v]; cbn [run_ops fold_left apply_op].
  - exact (IH _ _ g1 g2 P H k Hk).
  - exact (IH _ _ g1 g2 P H k Hk).
  - apply (IH _ _ (aset g1 x v) (aset g2 x v) P); [|exact Hk]. intros j Hj. rewrite !aget_aset. destruct (N.eqb j x); auto.
Qed.
Lemma run_ops_fst_indep l : forall loc g1 g2, fst (run_ops l (loc, g1)) = fst (run_ops l (loc, g2)).
Proof. induction l as [|o l IH]; intros loc g1 g2; cbn; auto. destruct o; cbn; apply IH. Qed.
Lemma aget_flat_pt (g : assoc) names x :
  aget (flat_map (fun k => match aget g k with Some v => [(k, v)] | None => [] end) names) x =
    if existsb (N.eqb x) names then aget g x else None.
Proof.
  induction names as [|k names IH]; [reflexivity|]. cbn [flat_map existsb]. rewrite aget_app, IH.
  destruct (N.eqb_spec x k) as [->|Hne]; cbn [orb].
  - destruct (aget g k) as [v|] eqn:E; cbn [aget]; [now rewrite N.eqb_refl|]. now destruct (existsb (N.eqb k) names).
  - destruct (aget g k) as [v|] eqn:E; cbn [aget]; [|reflexivity].
    destruct (N.eqb_spec k x) as [->|_]; [congruence|reflexivity].
Qed.
Lemma existsb_keys_filter (f : N -> bool) (M : assoc) x :
  existsb (N.eqb x) (map fst (filter (fun kv => f (fst kv)) M)) = f x && existsb (N.eqb x) (keys M).
Proof.
  unfold keys. induction M as [|[k v] M IH]; cbn [filter map existsb fst]; [now rewrite andb_false_r|].
  destruct (f k) eqn:Ek; cbn [map existsb fst]; rewrite IH.
  - destruct (N.eqb_spec x k) as [->|_]; cbn [orb]; [now rewrite Ek|reflexivity].
  - destruct (N.eqb_spec x k) as [->|_]; cbn [orb]; [rewrite Ek; reflexivity|reflexivity].
Qed.

(* locals is globals: the mapping afterwards holds, name by name, what the reference's globals hold; the result holds the
   reference's locals for the names that are parameters, and for the supplied names that are not (declared global, or no possible
   parameter name) their FINAL value in the mapping *)
Theorem exec_same_refines M p : user_map M -> user_prog p -> wf_prog p -> raises_after p = None ->
  exists res M', exec_same M p = (Some res, M') /\
    (forall k, aget M' k = aget (snd (spec_same M p)) k) /\
    (forall k, aget res k =
       if is_param (gdecl p) k then aget (fst (spec_same M p)) k
       else if usable k && existsb (N.eqb k) (keys M) then aget (snd (spec_same M p)) k else None).
Proof.
  intros HM Hp Hw Hr. unfold exec_same, spec_same. rewrite Hr.
  set (params := filter (fun kv => is_param (gdecl p) (fst kv)) M).
  set (M1 := aset (aset M n_env 0) n_fun 0).
  assert (Hpar : user_map params) by (apply user_map_filter; exact HM).
  pose proof (run_ops_fst_indep (ops p) params M1 M) as Hfst.
  pose proof (run_ops_keys (ops p) params M Hp Hpar HM) as [HlocK HgK].
  (* globals: equal on every name but the two scaffold names *)
  assert (Hg : forall k, k <> n_env -> k <> n_fun -> aget (snd (run_ops (ops p) (params, M1))) k = aget (snd (run_ops (ops p) (params, M))) k).
  { intros k H1 H2. apply (run_ops_snd_lookup (ops p) params params M1 M (fun k => k <> n_env /\ k <> n_fun)); [|tauto].
    intros j [J1 J2]. unfold M1. rewrite !aget_aset.
    destruct (N.eqb_spec j n_fun) as [->|_]; [congruence|]. destruct (N.eqb_spec j n_env) as [->|_]; [congruence|reflexivity]. }
  (* the program's locals never hold a name that is not a parameter *)
  assert (HlocNP : forall x, is_param (gdecl p) x = false -> aget (fst (run_ops (ops p) (params, M))) x = None).
  { intros x Hx.
    assert (He : forall y, is_param (gdecl p) y = true -> aget params y = aget params y) by reflexivity.
    destruct (run_ops_lookup (gdecl p) (ops p) params params M Hp Hw He) as [_ H2].
    destruct (H2 x Hx) as [A _]. transitivity (aget params x); [exact A|]. unfold params.
    now rewrite (aget_filter (is_param (gdecl p))), Hx. }
  unfold assoc in *.
  destruct (run_ops (ops p) (params, M1)) as [loc g] eqn:E1. destruct (run_ops (ops p) (params, M)) as [locS gS] eqn:E2.
  cbn [fst snd] in *. subst loc.
  assert (Hsmall : forall x, (x < 10)%N -> aget locS x = None /\ aget gS x = None).
  { intros x Hx. split; apply aget_none_notin; intros Hc; [apply HlocK in Hc|apply HgK in Hc]; lia. }
  eexists. eexists. split; [reflexivity|]. split.
  - intros k. rewrite !aget_adel.
    destruct (N.eqb_spec k n_env) as [->|H1]. { destruct (Hsmall n_env) as [_ B]; [unfold n_env; lia|]. now rewrite B. }
    destruct (N.eqb_spec k n_fun) as [->|H2]. { destruct (Hsmall n_fun) as [_ B]; [unfold n_fun; lia|]. now rewrite B. }
    exact (Hg k H1 H2).
  - intros k. rewrite aget_setdefaults, !aget_adel, aget_aset, aget_flat_pt, (existsb_keys_filter (passes_through (gdecl p)) M k).
    destruct (N.eqb_spec k n_builtins) as [->|Hnb].
    { destruct (Hsmall n_builtins) as [A B]; [unfold n_builtins; lia|]. cbn [andb].
      assert (Hk : existsb (N.eqb n_builtins) (keys M) = false).
      { destruct (existsb (N.eqb n_builtins) (keys M)) eqn:Ex; [|reflexivity]. apply existsb_exists in Ex as (y & Hy & Ey).
        apply N.eqb_eq in Ey; subst y. apply HM in Hy. unfold n_builtins in Hy. lia. }
      rewrite Hk, !andb_false_r. destruct (is_param (gdecl p) n_builtins); [now rewrite A|reflexivity]. }
    destruct (N.eqb_spec k n_dunder) as [->|Hnd].
    { destruct (Hsmall n_dunder) as [A B]; [unfold n_dunder; lia|].
      assert (Hk : existsb (N.eqb n_dunder) (keys M) = false).
      { destruct (existsb (N.eqb n_dunder) (keys M)) eqn:Ex; [|reflexivity]. apply existsb_exists in Ex as (y & Hy & Ey).
        apply N.eqb_eq in Ey; subst y. apply HM in Hy. unfold n_dunder in Hy. lia. }
      rewrite Hk, !andb_false_r. destruct (is_param (gdecl p) n_dunder); [now rewrite A|reflexivity]. }
    destruct (is_param (gdecl p) k) eqn:Ek.
    + unfold passes_through. rewrite Ek. cbn [negb andb]. now destruct (aget locS k).
    + rewrite (HlocNP k Ek). unfold passes_through. rewrite Ek. cbn [negb andb].
      destruct (usable k && existsb (N.eqb k) (keys M)) eqn:Eu; [|reflexivity].
      apply andb_prop in Eu as [Eu Ein]. apply existsb_exists in Ein as (y & Hy & Ey). apply N.eqb_eq in Ey; subst y.
      pose proof (HM k Hy) as Hk10.
      apply Hg; unfold n_env, n_fun; lia.
Qed.

Theorem exec_same_raises M p i : user_map M -> user_prog p -> raises_after p = Some i ->
  exists M', exec_same M p = (None, M') /\
    forall k, aget M' k = aget (snd (run_ops (firstn i (ops p)) (filter (fun kv => is_param (gdecl p) (fst kv)) M, M))) k.
Proof.
  intros HM Hp Hr. unfold exec_same. rewrite Hr.
  set (params := filter (fun kv => is_param (gdecl p) (fst kv)) M).
  set (M1 := aset (aset M n_env 0) n_fun 0).
  assert (Hpar : user_map params) by (apply user_map_filter; exact HM).
  assert (Hin : forall (l : list op) i o, In o (firstn i l) -> In o l).
  { induction l as [|x l IHl]; intros [|j] o Ho; cbn in *; auto; try contradiction. destruct Ho as [->|Ho]; eauto. }
  assert (Hq : forall o, In o (firstn i (ops p)) -> (10 <= op_name o)%N) by (intros o Ho; apply Hp; eapply Hin; eauto).
  pose proof (run_ops_keys (firstn i (ops p)) params M Hq Hpar HM) as [_ HgK].
  assert (Hg : forall k, k <> n_env -> k <> n_fun ->
            aget (snd (run_ops (firstn i (ops p)) (params, M1))) k = aget (snd (run_ops (firstn i (ops p)) (params, M))) k).
  { intros k H1 H2. apply (run_ops_snd_lookup (firstn i (ops p)) params params M1 M (fun k => k <> n_env /\ k <> n_fun)); [|tauto].
    intros j [J1 J2]. unfold M1. rewrite !aget_aset.
    destruct (N.eqb_spec j n_fun) as [->|_]; [congruence|]. destruct (N.eqb_spec j n_env) as [->|_]; [congruence|reflexivity]. }
  unfold assoc in *.
  destruct (run_ops (firstn i (ops p)) (params, M1)) as [loc g]. destruct (run_ops (firstn i (ops p)) (params, M)) as [locS gS].
  cbn [fst snd] in *. eexists. split; [reflexivity|]. intros k. rewrite !aget_adel.
  assert (Hs : forall x, (x < 10)%N -> aget gS x = None) by (intros x Hx; apply aget_none_notin; intros Hc; apply HgK in Hc; lia).
  destruct (N.eqb_spec k n_env) as [->|H1]. { now rewrite Hs by (unfold n_env; lia). }
  destruct (N.eqb_spec k n_fun) as [->|H2]. { now rewrite Hs by (unfold n_fun; lia). }
  exact (Hg k H1 H2).
Qed.

(* a program that binds the names `builtins` or `__` loses them from the result (known finding) *)
Theorem reserved_names_refuted :
  exists p, raises_after p = None /\
    aget (fst (spec_result [] [] p)) n_builtins = Some 5%Z /\
    (match fst (fst (exec_model [] [] p)) with Some res => aget res n_builtins | None => None end) = None.
Proof. exists {| ops := [Bind n_builtins 5%Z]; raises_after := None; gdecl := [] |}. vm_compute. repeat split; reflexivity. Qed.
