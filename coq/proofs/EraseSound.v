(* L2a: erasure is sound for EVERY semantics of the generic tree that satisfies the laws below.
   D = denotations (of expressions and statements alike), sem = how a construct combines the meanings of its fields,
   den = the fold of sem.  eqvl relates two statement/expression sequences with the same observable behaviour.
   The laws are Section hypotheses: after the section they are explicit premises of the theorem (no axioms). *)
From Coq Require Import List ZArith NArith Bool.
Import ListNotations.
From PyccoloV Require Import gen.PyAst gen.Ids model.Tree model.Erase model.Sites.

Section tree_ind2.
  Variable P : tree -> Prop.
  Hypothesis HN : P NoneNode.
  Hypothesis HT : forall k sc fs, Forall (Forall P) fs -> P (T k sc fs).
  Fixpoint tree_ind2 (t : tree) : P t :=
    match t with
    | NoneNode => HN
    | T k sc fs => HT k sc fs
        ((fix gof (l : list (list tree)) : Forall (Forall P) l :=
            match l with
            | [] => Forall_nil _
            | f :: l' => Forall_cons f ((fix gol (u : list tree) : Forall P u :=
                                           match u with [] => Forall_nil _ | x :: u' => Forall_cons x (tree_ind2 x) (gol u') end) f) (gof l')
            end) fs)
    end.
End tree_ind2.

(* the two inner loops of erase, named *)
Definition erase_list (l : list tree) : option (list tree) :=
  (fix gol (u : list tree) {struct u} : option (list tree) :=
     match u with
     | [] => Some []
     | x :: u' => match erase x, gol u' with Some a, Some b => Some (a ++ b) | _, _ => None end
     end) l.
Definition erase_fields (fs : list (list tree)) : option (list (list tree)) :=
  (fix gof (l : list (list tree)) {struct l} : option (list (list tree)) :=
     match l with
     | [] => Some []
     | f :: l' => match erase_list f, gof l' with Some a, Some b => Some (a :: b) | _, _ => None end
     end) fs.
Lemma erase_T k sc fs : erase (T k sc fs) = match erase_fields fs with Some fs' => post k sc fs' | None => None end.
Proof. reflexivity. Qed.

Section Abs.
  Variable D : Type.
  Variable dnone : D.
  Variable sem : N -> list scalar -> list (list D) -> D.
  Fixpoint den (t : tree) : D :=
    match t with
    | NoneNode => dnone
    | T k sc fs => sem k sc ((fix gof (l : list (list tree)) : list (list D) := match l with [] => [] | f :: l' =>
                      (fix gol (u : list tree) : list D := match u with [] => [] | x :: u' => den x :: gol u' end) f :: gof l' end) fs)
    end.
  Lemma den_T k sc fs : den (T k sc fs) = sem k sc (map (map den) fs).
  Proof.
    reflexivity.
  Qed.

  Variable eqvl : list D -> list D -> Prop.
  Hypothesis eqvl_refl : forall l, eqvl l l.
  Hypothesis eqvl_trans : forall a b c, eqvl a b -> eqvl b c -> eqvl a c.
  Hypothesis eqvl_app : forall a a' b b', eqvl a a' -> eqvl b b' -> eqvl (a ++ b) (a' ++ b').
  (* Python constructs cannot observe instrumentation: replacing the fields of any construct by equivalent sequences
     gives an equivalent construct (non-interference) *)
  Hypothesis sem_cong : forall k sc fs fs', Forall2 eqvl fs fs' -> eqvl [sem k sc fs] [sem k sc fs'].
  (* every root rewrite of the erasure is valid in the semantics: one law per instrumentation shape, bundled by the
     kind of the node it rewrites (emit calls and deferred applications; guard IfExp; guard / before_stmt If;
     try-finally and the NameError fallback; bare emit statements; saved-slice subscripts) *)
  Hypothesis law_call : forall sc fs l, post kCall sc fs = Some l -> eqvl [den (T kCall sc fs)] (map den l).
  Hypothesis law_ifexp : forall sc fs l, post kIfExp sc fs = Some l -> eqvl [den (T kIfExp sc fs)] (map den l).
  Hypothesis law_if : forall sc fs l, post kIf sc fs = Some l -> eqvl [den (T kIf sc fs)] (map den l).
  Hypothesis law_try : forall sc fs l, post kTry sc fs = Some l -> eqvl [den (T kTry sc fs)] (map den l).
  Hypothesis law_expr : forall sc fs l, post kExpr sc fs = Some l -> eqvl [den (T kExpr sc fs)] (map den l).
  Hypothesis law_subscript : forall sc fs l, post kSubscript sc fs = Some l -> eqvl [den (T kSubscript sc fs)] (map den l).

  Lemma post_other k sc fs : N.eqb k kCall = false -> N.eqb k kIfExp = false -> N.eqb k kIf = false -> N.eqb k kTry = false ->
    N.eqb k kExpr = false -> N.eqb k kSubscript = false -> post k sc fs = Some [T k sc fs].
  Proof. intros H1 H2 H3 H4 H5 H6. unfold post. now rewrite H1, H2, H3, H4, H5, H6. Qed.

  Lemma post_sound k sc fs l : post k sc fs = Some l -> eqvl [den (T k sc fs)] (map den l).
  Proof.
    intros H.
    destruct (N.eqb k kCall) eqn:E1; [apply N.eqb_eq in E1; subst; now apply law_call|].
    destruct (N.eqb k kIfExp) eqn:E2; [apply N.eqb_eq in E2; subst; now apply law_ifexp|].
    destruct (N.eqb k kIf) eqn:E3; [apply N.eqb_eq in E3; subst; now apply law_if|].
    destruct (N.eqb k kTry) eqn:E4; [apply N.eqb_eq in E4; subst; now apply law_try|].
    destruct (N.eqb k kExpr) eqn:E5; [apply N.eqb_eq in E5; subst; now apply law_expr|].
    destruct (N.eqb k kSubscript) eqn:E6; [apply N.eqb_eq in E6; subst; now apply law_subscript|].
    rewrite (post_other k sc fs E1 E2 E3 E4 E5 E6) in H. inversion H; subst. apply eqvl_refl.
  Qed.

  Lemma erase_list_sound f : Forall (fun t => forall l, erase t = Some l -> eqvl [den t] (map den l)) f ->
    forall l, erase_list f = Some l -> eqvl (map den f) (map den l).
  Proof.
    induction 1 as [|x f Hx _ IH]; intros l H; cbn in H.
    - inversion H; subst. apply eqvl_refl.
    - destruct (erase x) as [a|] eqn:Ex; [|discriminate].
      fold (erase_list f) in H. destruct (erase_list f) as [b|] eqn:Ef; [|discriminate].
      inversion H; subst. rewrite map_app. change (map den (x :: f)) with ([den x] ++ map den f).
      apply eqvl_app; auto.
  Qed.

  Lemma erase_fields_sound fs : Forall (Forall (fun t => forall l, erase t = Some l -> eqvl [den t] (map den l))) fs ->
    forall fs', erase_fields fs = Some fs' -> Forall2 eqvl (map (map den) fs) (map (map den) fs').
  Proof.
    induction 1 as [|f fs Hf _ IH]; intros fs' H; cbn in H.
    - inversion H; subst. constructor.
    - fold (erase_list f) in H. destruct (erase_list f) as [a|] eqn:Ea; [|discriminate].
      fold (erase_fields fs) in H. destruct (erase_fields fs) as [b|] eqn:Eb; [|discriminate].
      inversion H; subst. cbn. constructor; auto. now apply erase_list_sound.
  Qed.

  Theorem erase_sound : forall t l, erase t = Some l -> eqvl [den t] (map den l).
  Proof.
    induction t as [|k sc fs IH] using tree_ind2; intros l H.
    - cbn in H. inversion H; subst. apply eqvl_refl.
    - rewrite erase_T in H. destruct (erase_fields fs) as [fs'|] eqn:Ef; [|discriminate].
      pose proof (erase_fields_sound fs IH fs' Ef) as HF.
      eapply eqvl_trans; [|apply (post_sound k sc fs' l H)].
      rewrite !den_T. apply sem_cong. exact HF.
  Qed.

  (* the certificate: if the check passes, the rewritten program and the (normalised) source are equivalent *)
  (* the three deliberate source changes (slice syntax -> slice() call, bare except -> except BaseException, hoisted
     global/nonlocal declarations) do not change behaviour *)
  Hypothesis law_norm : forall t, eqvl [den (norm t)] [den t].
  Lemma tree_eqb_eq : forall a b, tree_eqb a b = true -> a = b.
  Proof.
    induction a as [|k sc fs IH] using tree_ind2; intros [k' sc' fs'|]; cbn; try discriminate; auto.
    intros H. apply andb_prop in H as [H Hfs]. apply andb_prop in H as [Hk Hsc].
    apply N.eqb_eq in Hk; subst k'.
    assert (Hs : sc = sc').
    { clear -Hsc. revert sc' Hsc. induction sc as [|x sc IHs]; intros [|y sc'] H; cbn in H; try discriminate; auto.
      apply andb_prop in H as [H1 H2]. f_equal; auto.
      destruct x, y; cbn in H1; try discriminate; auto; f_equal;
        try (apply Bool.eqb_prop in H1; auto); try (apply Z.eqb_eq in H1; auto); try (apply N.eqb_eq in H1; auto). }
    subst sc'. f_equal.
    revert fs' Hfs. induction IH as [|f fs Hf _ IHfs]; intros [|f' fs'] H; try discriminate; auto.
    apply andb_prop in H as [H1 H2]. f_equal; auto.
    clear -Hf H1. revert f' H1. induction Hf as [|x f Hx _ IHf]; intros [|y f'] H; try discriminate; auto.
    apply andb_prop in H as [Ha Hb]. f_equal; auto.
  Qed.
  Theorem check_erase_sound src out : check_erase src out = true -> eqvl [den out] [den src].
  Proof.
    unfold check_erase. intros H. destruct (erase out) as [[|t [|? ?]]|] eqn:E; try discriminate.
    apply tree_eqb_eq in H. subst t.
    eapply eqvl_trans; [apply (erase_sound out _ E)|]. cbn. apply law_norm.
  Qed.

  (* C02, static half: at a site that passes the check, the expression whose value is handed to the handler is equivalent
     to the source construct (node number n of the source, or its designated child) the event is defined to report *)
  Theorem site_ok_sound pre t ev n rest kws r node s v :
    emit_parts t = Some (ev, SNid n, rest, kws) -> sel_of ev = Some s -> kw_value id_ret kws = Some r -> tlam_parts r = None ->
    nth_error pre (N.to_nat n) = Some node -> select s node = Some v ->
    site_ok pre t = true -> eqvl [den r] [den v].
  Proof.
    intros He Hs Hr Ht Hn Hv H. unfold site_ok in H. rewrite He, Hs, Hr, Ht in H.
    destruct (erase r) as [[|x [|? ?]]|] eqn:E; try discriminate.
    rewrite Hn, Hv in H. apply tree_eqb_eq in H. subst x.
    eapply eqvl_trans; [apply (erase_sound r _ E)|]. cbn. apply law_norm.
  Qed.
End Abs.
