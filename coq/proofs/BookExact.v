(* C18: the parent-statement table is EXACT (nearest enclosing statement), and the outer-statement classification built on it agrees with the lexical structure. *)
From Coq Require Import List NArith Bool Lia.
Import ListNotations.
From PyccoloV Require Import model.Book proofs.BookProofs.

(* ---- the lexical parent statement: the nearest proper ancestor that is a statement *)
Fixpoint lexp (cur : option N) (n : node) (k : N) {struct n} : option (option N) :=
  match n with
  | Nd st i cs =>
      if N.eqb i k then Some cur
      else let cur' := if st then Some i else cur in
           (fix go (l : list (bool * node)) : option (option N) :=
              match l with [] => None | (_, c) :: l' => match lexp cur' c k with Some r => Some r | None => go l' end end) cs
  end.
Definition go_lexp (cur : option N) (k : N) := fix go (l : list (bool * node)) : option (option N) :=
  match l with [] => None | (_, c) :: l' => match lexp cur c k with Some r => Some r | None => go l' end end.

Lemma lexp_unfold cur st i cs k : lexp cur (Nd st i cs) k = if N.eqb i k then Some cur else go_lexp (if st then Some i else cur) k cs.
Proof. reflexivity. Qed.

Definition ids (n : node) : list N := map nid (nodes n).

(* the last parent-statement write for a key *)
Fixpoint last_ps (ws : list write) (k : N) : option N :=
  match ws with
  | [] => None
  | WPs j p :: ws' => match last_ps ws' k with Some q => Some q | None => if N.eqb j k then Some p else None end
  | _ :: ws' => last_ps ws' k
  end.
Lemma ps_lookup_last ws : forall k acc, ps_lookup ws k acc = match last_ps ws k with Some p => Some p | None => acc end.
Proof.
  induction ws as [|w ws IH]; intros k acc; [reflexivity|].
  destruct w as [j|j v|j v|j v|j v]; cbn [ps_lookup last_ps]; try apply IH.
  rewrite IH. destruct (last_ps ws k); [reflexivity|]. destruct (N.eqb j k); reflexivity.
Qed.
Lemma last_ps_app a b k : last_ps (a ++ b) k = match last_ps b k with Some p => Some p | None => last_ps a k end.
Proof.
  induction a as [|w a IH]; cbn [app last_ps]; [destruct (last_ps b k); reflexivity|].
  destruct w; try exact IH. rewrite IH. destruct (last_ps b k); reflexivity.
Qed.
Lemma last_ps_none ws k : (forall w p, In w ws -> ps_write w = Some (k, p) -> False) -> last_ps ws k = None.
Proof.
  induction ws as [|w ws IH]; intros H; [reflexivity|].
  assert (H' : forall w' p, In w' ws -> ps_write w' = Some (k, p) -> False) by (intros w' p Hi; apply (H w' p); now right).
  destruct w as [j|j v|j v|j v|j v]; cbn [last_ps]; try (apply IH; exact H').
  rewrite (IH H'). destruct (N.eqb_spec j k) as [->|]; [|reflexivity]. exfalso. apply (H (WPs k v) v); [now left|reflexivity].
Qed.

(* keys of parent-statement writes made while visiting c are ids of PROPER descendants of c *)
Lemma ps_write_key_proper : forall c cu w k p, In w (visit cu c) -> ps_write w = Some (k, p) ->
  exists bc K, In bc (nchildren c) /\ In K (nodes (snd bc)) /\ nid K = k.
Proof.
  intros c. induction c as [st i cs IHc] using node_ind2. intros cu w k p Hin Hw. rewrite Forall_forall in IHc.
  cbn [visit] in Hin. fold (go_visit (if st then Some i else cu)) in Hin.
  apply in_app_or in Hin as [Hin|Hin].
  { destruct (if st then Some i else cu); [|destruct Hin]. destruct Hin as [<-|[]]. discriminate. }
  apply in_app_or in Hin as [Hin|Hin].
  { destruct Hin as [<-|[]]. discriminate. }
  apply in_app_or in Hin as [Hin|Hin].
  - apply in_flat_map in Hin as ([inli c] & Hc & Hin). destruct Hin as [<-|Hin]; [discriminate|].
    assert (Hk : forall w', In w' (if inli then (if st then [WPs (nid c) i] else if nstmt c then match cu with Some p0 => [WPs (nid c) p0] | None => [] end else [])
                                   else match (if st then Some i else cu) with Some s => [WCsSet (nid c) s] | None => [] end) ->
                       ps_write w' = Some (k, p) -> nid c = k).
    { intros w' Hw' Hp. destruct inli.
      - destruct st; [destruct Hw' as [<-|[]]; cbn in Hp; congruence|].
        destruct (nstmt c); [|destruct Hw']. destruct cu; [|destruct Hw']. destruct Hw' as [<-|[]]. cbn in Hp. congruence.
      - destruct (if st then Some i else cu); [|destruct Hw']. destruct Hw' as [<-|[]]. discriminate. }
    exists (inli, c), c. cbn [nchildren snd]. repeat split; [exact Hc|apply nodes_self|exact (Hk w Hin Hw)].
  - apply in_go_visit in Hin as ([inli c] & Hc & Hin). cbn [snd] in Hin.
    destruct (IHc (inli, c) Hc _ w k p Hin Hw) as (bc & K & Hbc & HK & Hk).
    exists (inli, c), K. cbn [nchildren snd]. repeat split; [exact Hc| |exact Hk].
    destruct c as [st' i' cs']. cbn [nchildren] in Hbc. cbn. right. fold go_nodes. apply in_go_nodes. exists bc. split; assumption.
Qed.

Lemma lexp_none : forall n cur k, ~ In k (ids n) -> lexp cur n k = None.
Proof.
  intros n. induction n as [st i cs IH] using node_ind2. intros cur k Hk. rewrite Forall_forall in IH.
  cbn [lexp]. unfold ids in Hk. cbn [nodes map nid] in Hk. fold go_nodes in Hk.
  destruct (N.eqb_spec i k) as [->|Hne]; [exfalso; apply Hk; left; reflexivity|].
  fold (go_lexp (if st then Some i else cur) k).
  assert (Hc : forall bc, In bc cs -> ~ In k (ids (snd bc))).
  { intros bc Hbc Hin. apply Hk. right. unfold ids in Hin. apply in_map_iff in Hin as (K & HK1 & HK2). apply in_map_iff. exists K. split; [exact HK1|].
    cbn [nid]. apply in_go_nodes. exists bc. split; assumption. }
  clear Hk. set (cur' := if st then Some i else cur).
  assert (G : forall l, (forall bc, In bc l -> In bc cs) -> go_lexp cur' k l = None).
  { induction l as [|[b c] l IHl]; intros Hsub; [reflexivity|]. cbn [go_lexp]. fold (go_lexp cur' k).
    pose proof (IH (b, c) (Hsub _ (or_introl eq_refl)) cur' k (Hc _ (Hsub _ (or_introl eq_refl)))) as E. cbn [snd] in E. rewrite E. apply IHl. intros bc Hbc. apply Hsub. right. exact Hbc. }
  apply G. auto.
Qed.

Lemma visit_no_key : forall c cu k, ~ In k (ids c) -> last_ps (visit cu c) k = None.
Proof.
  intros c cu k Hk. apply last_ps_none. intros w p Hw Hp.
  destruct (ps_write_key_proper c cu w k p Hw Hp) as (bc & K & Hbc & HK & Hid). apply Hk. unfold ids. apply in_map_iff. exists K. split; [exact Hid|].
  destruct c as [st i cs]. cbn [nchildren] in Hbc. cbn. right. fold go_nodes. apply in_go_nodes. exists bc. split; assumption.
Qed.

(* the writes made for the direct children of a node *)
Definition direct (st : bool) (i : N) (cur cur' : option N) (bc : bool * node) : list write :=
  let '(inlist, c) := bc in
  WCa (nid c) i ::
  (if inlist then
     if st then [WPs (nid c) i]
     else if nstmt c then match cur with Some p => [WPs (nid c) p] | None => [] end else []
   else match cur' with Some s => [WCsSet (nid c) s] | None => [] end).
Lemma visit_unfold st i cs cur :
  visit cur (Nd st i cs) =
  (match (if st then Some i else cur) with Some c => [WCsDefault i c] | None => [] end) ++ [WNode i]
  ++ flat_map (direct st i cur (if st then Some i else cur)) cs ++ go_visit (if st then Some i else cur) cs.
Proof. reflexivity. Qed.

Lemma direct_key st i cur cur' bc k : nid (snd bc) <> k -> last_ps (direct st i cur cur' bc) k = None.
Proof.
  destruct bc as [b c]. cbn [snd direct]. intros Hne. apply last_ps_none. intros w p Hw Hp.
  destruct Hw as [<-|Hw]; [discriminate|]. destruct b.
  - destruct st; [destruct Hw as [<-|[]]; cbn in Hp; congruence|]. destruct (nstmt c); [|destruct Hw]. destruct cur; [|destruct Hw].
    destruct Hw as [<-|[]]. cbn in Hp. congruence.
  - destruct cur'; [|destruct Hw]. destruct Hw as [<-|[]]. discriminate.
Qed.

(* children lists: a key that occurs in no child's sub-tree / in exactly one *)
Lemma kids_none st i cur cur' cs k : (forall bc, In bc cs -> ~ In k (ids (snd bc))) ->
  last_ps (flat_map (direct st i cur cur') cs) k = None /\ last_ps (go_visit cur' cs) k = None /\ go_lexp cur' k cs = None.
Proof.
  induction cs as [|[b c] cs IH]; intros H; [repeat split|].
  destruct (IH (fun bc Hbc => H bc (or_intror Hbc))) as (I1 & I2 & I3).
  pose proof (H (b, c) (or_introl eq_refl)) as Hc. cbn [snd] in Hc.
  assert (Hne : nid c <> k). { intros E. apply Hc. unfold ids. apply in_map_iff. exists c. split; [exact E|apply nodes_self]. }
  repeat split.
  - cbn [flat_map]. rewrite last_ps_app, I1. apply (direct_key st i cur cur' (b, c) k Hne).
  - cbn [go_visit]. fold (go_visit cur'). rewrite last_ps_app, I2. apply visit_no_key. exact Hc.
  - cbn [go_lexp]. fold (go_lexp cur' k). rewrite (lexp_none c cur' k Hc). exact I3.
Qed.

Lemma kids_one st i cur cur' pre b c post k :
  (forall bc, In bc pre -> ~ In k (ids (snd bc))) -> (forall bc, In bc post -> ~ In k (ids (snd bc))) ->
  last_ps (flat_map (direct st i cur cur') (pre ++ (b, c) :: post)) k = last_ps (direct st i cur cur' (b, c)) k /\
  last_ps (go_visit cur' (pre ++ (b, c) :: post)) k = last_ps (visit cur' c) k /\
  go_lexp cur' k (pre ++ (b, c) :: post) = lexp cur' c k.
Proof.
  intros Hpre Hpost. destruct (kids_none st i cur cur' post k Hpost) as (P1 & P2 & P3).
  induction pre as [|[b0 c0] pre IH].
  - cbn [app]. repeat split.
    + cbn [flat_map]. rewrite last_ps_app, P1. reflexivity.
    + cbn [go_visit]. fold (go_visit cur'). rewrite last_ps_app, P2. reflexivity.
    + cbn [go_lexp]. fold (go_lexp cur' k). rewrite P3. destruct (lexp cur' c k); reflexivity.
  - destruct (IH (fun bc Hbc => Hpre bc (or_intror Hbc))) as (I1 & I2 & I3).
    pose proof (Hpre (b0, c0) (or_introl eq_refl)) as Hc0. cbn [snd] in Hc0.
    assert (Hne : nid c0 <> k). { intros E. apply Hc0. unfold ids. apply in_map_iff. exists c0. split; [exact E|apply nodes_self]. }
    cbn [app]. repeat split.
    + cbn [flat_map]. rewrite last_ps_app, I1. destruct (last_ps (direct st i cur cur' (b, c)) k); [reflexivity|]. apply (direct_key st i cur cur' (b0, c0) k Hne).
    + cbn [go_visit]. fold (go_visit cur'). rewrite last_ps_app, I2. destruct (last_ps (visit cur' c) k); [reflexivity|]. apply visit_no_key. exact Hc0.
    + cbn [go_lexp]. fold (go_lexp cur' k). rewrite (lexp_none c0 cur' k Hc0). exact I3.
Qed.

Lemma go_nodes_app a b : go_nodes (a ++ b) = go_nodes a ++ go_nodes b.
Proof. induction a as [|[x c] a IH]; [reflexivity|]. cbn [app go_nodes]. fold go_nodes. rewrite IH, app_assoc. reflexivity. Qed.

Lemma visit_no_key' c cu k : (forall bc, In bc (nchildren c) -> ~ In k (ids (snd bc))) -> last_ps (visit cu c) k = None.
Proof.
  intros H. apply last_ps_none. intros w p Hw Hp.
  destruct (ps_write_key_proper c cu w k p Hw Hp) as (bc & K & Hbc & HK & Hid). apply (H bc Hbc). unfold ids. apply in_map_iff. exists K. split; assumption.
Qed.

Lemma NoDup_map_eq {A B} (f : A -> B) l : NoDup (map f l) -> forall x y, In x l -> In y l -> f x = f y -> x = y.
Proof.
  induction l as [|a l IH]; intros H x y Hx Hy E; [destruct Hx|]. cbn in H. inversion H as [|? ? Hn Hd]; subst.
  destruct Hx as [<-|Hx], Hy as [<-|Hy]; auto.
  - exfalso. apply Hn. rewrite E. apply in_map. exact Hy.
  - exfalso. apply Hn. rewrite <- E. apply in_map. exact Hx.
Qed.

Lemma nodup_app {A} (a b : list A) : NoDup (a ++ b) -> NoDup a /\ NoDup b /\ forall x, In x a -> In x b -> False.
Proof.
  induction a as [|x a IH]; cbn; intros H; [repeat split; [constructor|exact H|intros ? []]|].
  inversion H as [|? ? Hn Hd]; subst. destruct (IH Hd) as (I1 & I2 & I3). repeat split.
  - constructor; [intros Hx; apply Hn; apply in_or_app; now left|exact I1].
  - exact I2.
  - intros y [<-|Hy] Hb; [apply Hn; apply in_or_app; now right|exact (I3 y Hy Hb)].
Qed.

Definition joinp (o : option (option N)) : option N := match o with Some r => r | None => None end.

(* the parent-statement table is EXACT: for every statement of the tree other than its root, the entry is the nearest enclosing
   statement, and there is no entry when no statement encloses it *)
Theorem ps_exact : forall t, wf t -> NoDup (ids t) -> forall cur K, In K (nodes t) -> nstmt K = true -> nid K <> nid t ->
  last_ps (visit cur t) (nid K) = joinp (lexp cur t (nid K)).
Proof.
  intros t. induction t as [st i cs IH] using node_ind2. intros Hwf Hnd cur K HK HsK Hroot. rewrite Forall_forall in IH.
  remember (nid K) as k eqn:Ek. cbn [nid] in Hroot.
  cbn [nodes] in HK. fold go_nodes in HK. destruct HK as [E|HK]; [subst K; exfalso; apply Hroot; subst k; reflexivity|].
  apply in_go_nodes in HK as ([b c] & Hbc & HKc). cbn [snd] in HKc.
  destruct (in_split _ _ Hbc) as (pre & post & Ecs). subst cs.
  (* ids: k occurs only in c's sub-tree *)
  unfold ids in Hnd. cbn [nodes map nid] in Hnd. fold go_nodes in Hnd. apply NoDup_cons_iff in Hnd as [Hni Hnd'].
  rewrite go_nodes_app in Hnd'. cbn [go_nodes] in Hnd'. fold go_nodes in Hnd'. rewrite !map_app in Hnd'.
  assert (Hkc : In k (ids c)) by (unfold ids; rewrite Ek; apply in_map; exact HKc).
  destruct (nodup_app _ _ Hnd') as (_ & Hnd2 & Hd1). destruct (nodup_app _ _ Hnd2) as (Hndc & _ & Hd2).
  assert (Hpre : forall bc, In bc pre -> ~ In k (ids (snd bc))).
  { intros bc Hin Hk. apply (Hd1 k).
    - unfold ids in Hk. apply in_map_iff in Hk as (Q & HQ1 & HQ2). apply in_map_iff. exists Q. split; [exact HQ1|apply in_go_nodes; exists bc; split; assumption].
    - apply in_or_app. left. exact Hkc. }
  assert (Hpost : forall bc, In bc post -> ~ In k (ids (snd bc))).
  { intros bc Hin Hk. apply (Hd2 k); [exact Hkc|].
    unfold ids in Hk. apply in_map_iff in Hk as (Q & HQ1 & HQ2). apply in_map_iff. exists Q. split; [exact HQ1|apply in_go_nodes; exists bc; split; assumption]. }
  assert (Hik : i <> k).
  { intros E. apply Hni. rewrite E. rewrite go_nodes_app. cbn [go_nodes]. fold go_nodes. rewrite !map_app. apply in_or_app. right. apply in_or_app. left. exact Hkc. }
  set (cur' := if st then Some i else cur).
  destruct (kids_one st i cur cur' pre b c post k Hpre Hpost) as (K1 & K2 & K3).
  rewrite visit_unfold. fold cur'. rewrite !last_ps_app, K1, K2.
  rewrite lexp_unfold. destruct (N.eqb_spec i k) as [E|_]; [contradiction|]. fold cur'. rewrite K3.
  assert (Hhead : last_ps (match cur' with Some c0 => [WCsDefault i c0] | None => [] end) k = None) by (destruct cur'; reflexivity).
  destruct (wf_child st i (pre ++ (b, c) :: post) (b, c) Hwf Hbc) as (Hfield & Hwfc). cbn [fst snd] in Hfield.
  destruct (N.eqb_spec (nid c) k) as [Eck|Nck].
  - (* K is the child itself *)
    assert (EK : K = c) by (apply (NoDup_map_eq nid (nodes c) Hndc); [exact HKc|apply nodes_self|rewrite <- Ek; symmetry; exact Eck]). subst K.
    assert (Hb : b = true) by (destruct b; [reflexivity|rewrite (Hfield eq_refl) in HsK; discriminate]). subst b.
    assert (Hno : last_ps (visit cur' c) k = None).
    { apply visit_no_key'. intros bc Hin Hk. destruct c as [st' i' cs']. cbn [nchildren] in Hin. unfold ids in Hndc. cbn [nodes map nid] in Hndc. fold go_nodes in Hndc.
      apply NoDup_cons_iff in Hndc as [Hn' _]. apply Hn'. cbn [nid] in Eck. rewrite Eck. unfold ids in Hk. apply in_map_iff in Hk as (Q & HQ1 & HQ2). apply in_map_iff. exists Q.
      split; [exact HQ1|apply in_go_nodes; exists bc; split; assumption]. }
    rewrite Hno. destruct c as [st' i' cs']. cbn [nid] in Eck, Ek. subst i'. rewrite lexp_unfold, N.eqb_refl. cbn [joinp direct nid nstmt] in *.
    unfold cur'. destruct st.
    + cbn [last_ps]. rewrite N.eqb_refl. reflexivity.
    + rewrite HsK. destruct cur as [p|]; cbn [last_ps]; rewrite ?N.eqb_refl; [reflexivity|exact Hhead].
  - (* K lies properly inside the child *)
    assert (HIH : last_ps (visit cur' c) k = joinp (lexp cur' c k)) by (rewrite Ek; apply (IH (b, c) Hbc Hwfc Hndc cur' K HKc HsK); rewrite <- Ek; intros E; apply Nck; symmetry; exact E).
    rewrite HIH. rewrite (direct_key st i cur cur' (b, c) k Nck).
    destruct (lexp cur' c k) as [[p|]|]; cbn [joinp]; try reflexivity; exact Hhead.
Qed.

(* ---- the table lookup itself, root included *)
Theorem ps_lookup_exact t : wf t -> NoDup (ids t) -> forall K, In K (nodes t) -> nstmt K = true ->
  ps_lookup (visit None t) (nid K) None = joinp (lexp None t (nid K)).
Proof.
  intros Hwf Hnd K HK Hs. rewrite ps_lookup_last.
  destruct (N.eqb_spec (nid K) (nid t)) as [E|Hne].
  - (* the root: no entry, no enclosing statement *)
    rewrite E. destruct t as [st i cs]. cbn [nid]. rewrite lexp_unfold, N.eqb_refl. cbn [joinp].
    rewrite visit_no_key'; [reflexivity|]. intros bc Hin Hk. cbn [nchildren] in Hin.
    unfold ids in Hnd. cbn [nodes map nid] in Hnd. fold go_nodes in Hnd. apply NoDup_cons_iff in Hnd as [Hn _]. apply Hn.
    unfold ids in Hk. apply in_map_iff in Hk as (Q & HQ1 & HQ2). apply in_map_iff. exists Q. split; [exact HQ1|apply in_go_nodes; exists bc; split; assumption].
  - rewrite (ps_exact t Hwf Hnd None K HK Hs Hne). destruct (joinp (lexp None t (nid K))); reflexivity.
Qed.

(* what lexp finds is a statement of the tree (or the inherited one) *)
Lemma lexp_is_stmt : forall t cur k p, lexp cur t k = Some (Some p) -> cur = Some p \/ exists P, In P (nodes t) /\ nstmt P = true /\ nid P = p.
Proof.
  intros t. induction t as [st i cs IH] using node_ind2. intros cur k p H. rewrite Forall_forall in IH.
  rewrite lexp_unfold in H. destruct (N.eqb i k); [left; congruence|].
  set (cur' := if st then Some i else cur) in *.
  assert (G : forall l, (forall bc, In bc l -> In bc cs) -> go_lexp cur' k l = Some (Some p) ->
              cur' = Some p \/ exists P, In P (go_nodes cs) /\ nstmt P = true /\ nid P = p).
  { induction l as [|[b c] l IHl]; intros Hsub Hl; [discriminate|]. cbn [go_lexp] in Hl. fold (go_lexp cur' k) in Hl.
    destruct (lexp cur' c k) as [r|] eqn:Ec.
    - inversion Hl; subst r. destruct (IH (b, c) (Hsub _ (or_introl eq_refl)) cur' k p Ec) as [Hc|(P & HP & Hs & Hi)]; [left; exact Hc|].
      right. exists P. repeat split; try assumption. apply in_go_nodes. exists (b, c). split; [apply Hsub; now left|exact HP].
    - apply IHl; [intros bc Hbc; apply Hsub; now right|exact Hl]. }
  destruct (G cs (fun bc H0 => H0) H) as [Hc|(P & HP & Hs & Hi)].
  - unfold cur' in Hc. destruct st; [|left; exact Hc]. right. exists (Nd true i cs). repeat split; [apply nodes_self|cbn [nid]; inversion Hc; reflexivity].
  - right. exists P. repeat split; try assumption. cbn [nodes]. right. exact HP.
Qed.

(* ---- the outer-statement classification: walk up the parent statements while their types are allowed *)
Section Outer.
Variable ty : N -> N.                   (* node id -> node type *)
Variable allowed : N -> bool.           (* the ancestor types of the query *)
Fixpoint walk (step : N -> option N) (fuel : nat) (p : option N) : option N :=
  match fuel with
  | O => p
  | S f => match p with Some q => if allowed (ty q) then walk step f (step q) else p | None => None end
  end.
Definition only_allowed_tbl (t : node) (k : N) (fuel : nat) : bool :=
  match walk (fun q => ps_lookup (visit None t) q None) fuel (ps_lookup (visit None t) k None) with None => true | Some _ => false end.
Definition only_allowed_lex (t : node) (k : N) (fuel : nat) : bool :=
  match walk (fun q => joinp (lexp None t q)) fuel (joinp (lexp None t k)) with None => true | Some _ => false end.

Theorem outer_exact t : wf t -> NoDup (ids t) -> forall K, In K (nodes t) -> nstmt K = true -> forall fuel,
  only_allowed_tbl t (nid K) fuel = only_allowed_lex t (nid K) fuel.
Proof.
  intros Hwf Hnd K HK Hs fuel. unfold only_allowed_tbl, only_allowed_lex.
  rewrite (ps_lookup_exact t Hwf Hnd K HK Hs).
  assert (G : forall f p, (forall q, p = Some q -> exists P, In P (nodes t) /\ nstmt P = true /\ nid P = q) ->
              walk (fun q => ps_lookup (visit None t) q None) f p = walk (fun q => joinp (lexp None t q)) f p).
  { induction f as [|f IHf]; intros p Hp; [reflexivity|]. cbn [walk]. destruct p as [q|]; [|reflexivity].
    destruct (allowed (ty q)); [|reflexivity]. destruct (Hp q eq_refl) as (P & HP & HsP & Hid). subst q.
    rewrite (ps_lookup_exact t Hwf Hnd P HP HsP). apply IHf. intros q Hq.
    destruct (lexp None t (nid P)) as [[r|]|] eqn:El; cbn [joinp] in Hq; try discriminate. inversion Hq; subst r.
    destruct (lexp_is_stmt t None (nid P) q El) as [Hc|Hx]; [discriminate|exact Hx]. }
  rewrite G; [reflexivity|]. intros q Hq.
  destruct (lexp None t (nid K)) as [[r|]|] eqn:El; cbn [joinp] in Hq; try discriminate. inversion Hq; subst r.
  destruct (lexp_is_stmt t None (nid K) q El) as [Hc|Hx]; [discriminate|exact Hx].
Qed.

(* the query as the library asks it, for ANY node (tracer.stmt_only_has_ancestor_types): start from the node's containing statement when the
   table has one, from the node itself otherwise *)
Definition only_allowed_node (t : node) (k : N) (fuel : nat) : bool :=
  only_allowed_tbl t (match cs_lookup (visit None t) k None with Some s => s | None => k end) fuel.

Theorem outer_node_exact t : wf t -> NoDup (ids t) -> forall k s, cs_lookup (visit None t) k None = Some s -> forall fuel,
  contains t s k /\ only_allowed_node t k fuel = only_allowed_lex t s fuel.
Proof.
  intros Hwf Hnd k s Hc fuel. pose proof (containing_stmt_contains t k s Hwf Hc) as Hcon. split; [exact Hcon|].
  destruct Hcon as (S & HS & Hst & Hid & _). unfold only_allowed_node. rewrite Hc. subst s. apply (outer_exact t Hwf Hnd S HS Hst).
Qed.
End Outer.
