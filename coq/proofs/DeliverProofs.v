(* Delivery of one occurrence to a stack of OBSERVING tracers (handlers that return nothing): who is called, with what,
   in what order.  Shared by C02 (exactly once, true value), C05 (solo = stacked, outermost first) and C11 (conditional
   handlers).  Everything is derived from the runtime fold of model/Rt.v through C04's refinement theorem. *)
From Coq Require Import List NArith Bool Arith Lia Sorted.
Import ListNotations.
From PyccoloV Require Import gen.Events gen.EmitRet model.Val model.Rt proofs.RtProofs.

Definition observing_h (h : hspec) : Prop := forall v, h_fun h v = HRet RNone.
Definition observing (t : tracer) : Prop := Forall observing_h (t_handlers t) /\ t_propagate t = false.

(* a handler runs for an occurrence iff its local guard is not set and its condition accepts the node *)
Definition h_enabled (h : hspec) : bool := negb (h_guard_skip h) && h_pred h.

Fixpoint calls_of (ti hi : nat) (hs : list hspec) (v : rv) : list callrec :=
  match hs with
  | [] => []
  | h :: hs' => (if h_enabled h then [(ti, hi, v)] else []) ++ calls_of ti (S hi) hs' v
  end.
Fixpoint stack_calls (ti : nat) (ts : list tracer) (v : rv) : list callrec :=
  match ts with
  | [] => []
  | t :: ts' => (if t_active t then calls_of ti 0 (t_handlers t) v else []) ++ stack_calls (S ti) ts' v
  end.

Lemma spec_tracer_obs ti : forall hs hi v log, Forall observing_h hs ->
  spec_tracer ti hi hs v log = (v, false, log ++ calls_of ti hi hs v).
Proof.
  induction hs as [|h hs IH]; intros hi v log Ho; cbn [spec_tracer calls_of].
  - now rewrite app_nil_r.
  - inversion Ho as [|? ? Hh Hhs]; subst. unfold h_enabled.
    destruct (h_guard_skip h); cbn [orb negb andb].
    + now rewrite IH.
    + destruct (h_pred h); cbn [negb].
      * rewrite (Hh v). cbn [step_spec]. rewrite IH by assumption. now rewrite <- app_assoc.
      * now rewrite IH.
Qed.

Lemma spec_all_obs : forall ts ti v log, Forall observing ts ->
  spec_all ti ts v log = (v, log ++ stack_calls ti ts v).
Proof.
  induction ts as [|t ts IH]; intros ti v log Ho; cbn [spec_all stack_calls].
  - now rewrite app_nil_r.
  - inversion Ho as [|? ? [Hh _] Hts]; subst.
    destruct (t_active t).
    + rewrite spec_tracer_obs by assumption. rewrite IH by assumption. now rewrite <- app_assoc.
    + now rewrite IH.
Qed.

Lemma observing_plain ts : Forall observing ts -> tracers_plain ts.
Proof.
  intros Ho t Hin. rewrite Forall_forall in Ho. destruct (Ho t Hin) as [Hh Hp]. split; [|exact Hp].
  intros h v Hinh. rewrite Forall_forall in Hh. now rewrite (Hh h Hinh v).
Qed.

(* the whole emission: the program gets its value back untouched (up to the deferred-event wrapper), the switches are
   restored, and the calls made are exactly stack_calls *)
Theorem emit_observing ev ts v : ast_event ev = true -> Forall observing ts -> plain v = true ->
  exists ths, emit ev true fl0 ts v = (TVal (make_ret ev v), fl0, ths, stack_calls 0 ts v).
Proof.
  intros He Ho Hv. destruct (fold_refines ev ts v He (observing_plain ts Ho) Hv) as (ths & E).
  rewrite spec_all_obs in E by assumption. cbn [fst snd app] in E. eauto.
Qed.

(* ---- who is called *)
Definition c_ti (c : callrec) : nat := fst (fst c).
Definition c_hi (c : callrec) : nat := snd (fst c).
Definition c_val (c : callrec) : rv := snd c.

Lemma calls_of_bounds ti : forall hs hi v,
  Forall (fun c => c_ti c = ti /\ hi <= c_hi c /\ c_val c = v) (calls_of ti hi hs v).
Proof.
  induction hs as [|h hs IH]; intros hi v; cbn [calls_of]; [constructor|].
  apply Forall_app; split.
  - destruct (h_enabled h); constructor; [|constructor]. cbn. auto.
  - eapply Forall_impl; [|apply IH]. cbn. intros c (A & B & C). repeat split; auto. lia.
Qed.

(* handler k of the list is called iff it is enabled ... *)
Lemma calls_of_in ti : forall hs hi k h v, nth_error hs k = Some h ->
  (In (ti, hi + k, v) (calls_of ti hi hs v) <-> h_enabled h = true).
Proof.
  induction hs as [|h0 hs IH]; intros hi k h v Hn; [destruct k; discriminate|].
  cbn [calls_of]. rewrite in_app_iff. destruct k as [|k]; cbn in Hn.
  - inversion Hn; subst h0. rewrite Nat.add_0_r. split.
    + intros [Hin|Hin].
      * destruct (h_enabled h); [reflexivity|destruct Hin].
      * pose proof (calls_of_bounds ti hs (S hi) v) as Hb. rewrite Forall_forall in Hb.
        destruct (Hb _ Hin) as (_ & Hle & _). cbn in Hle. lia.
    + intros He. left. rewrite He. now left.
  - rewrite <- (IH (S hi) k h v Hn). replace (S hi + k) with (hi + S k) by lia. split.
    + intros [Hin|Hin]; [|exact Hin]. destruct (h_enabled h0); [|destruct Hin].
      destruct Hin as [Hin|[]]. inversion Hin. lia.
    + intros Hin. now right.
Qed.

(* ... and the calls are strictly ordered by handler index: each enabled handler is called exactly once, in definition order *)
Definition lex (a b : callrec) : Prop := c_ti a < c_ti b \/ (c_ti a = c_ti b /\ c_hi a < c_hi b).
Lemma calls_of_sorted ti : forall hs hi v, StronglySorted lex (calls_of ti hi hs v).
Proof.
  induction hs as [|h hs IH]; intros hi v; cbn [calls_of]; [constructor|].
  destruct (h_enabled h); cbn [app]; [|apply IH].
  constructor; [apply IH|].
  eapply Forall_impl; [|apply (calls_of_bounds ti hs (S hi) v)]. cbn. intros c (A & B & _).
  right. unfold c_ti, c_hi in *. cbn. split; auto.
Qed.

Lemma stack_bounds : forall ts ti v, Forall (fun c => ti <= c_ti c /\ c_val c = v) (stack_calls ti ts v).
Proof.
  induction ts as [|t ts IH]; intros ti v; cbn [stack_calls]; [constructor|].
  apply Forall_app; split.
  - destruct (t_active t); [|constructor].
    eapply Forall_impl; [|apply (calls_of_bounds ti (t_handlers t) 0 v)]. cbn. intros c (A & _ & C). split; auto. lia.
  - eapply Forall_impl; [|apply IH]. cbn. intros c (A & C). split; auto. lia.
Qed.

Lemma sorted_app (l1 l2 : list callrec) : StronglySorted lex l1 -> StronglySorted lex l2 ->
  (forall a b, In a l1 -> In b l2 -> lex a b) -> StronglySorted lex (l1 ++ l2).
Proof.
  induction 1 as [|a l1 Hs IH Hf]; intros H2 Hc; cbn; [exact H2|].
  constructor.
  - apply IH; auto. intros x y Hx Hy. apply Hc; [now right|exact Hy].
  - apply Forall_app; split; [exact Hf|]. apply Forall_forall. intros y Hy. apply Hc; [now left|exact Hy].
Qed.

(* tracers are served in activation order, and within a tracer handlers in definition order; no call is repeated *)
Theorem stack_sorted : forall ts ti v, StronglySorted lex (stack_calls ti ts v).
Proof.
  induction ts as [|t ts IH]; intros ti v; cbn [stack_calls]; [constructor|].
  apply sorted_app.
  - destruct (t_active t); [apply calls_of_sorted|constructor].
  - apply IH.
  - intros a b Ha Hb. left.
    pose proof (stack_bounds ts (S ti) v) as Hb'. rewrite Forall_forall in Hb'. destruct (Hb' _ Hb) as [Hle _].
    destruct (t_active t); [|destruct Ha].
    pose proof (calls_of_bounds ti (t_handlers t) 0 v) as Ha'. rewrite Forall_forall in Ha'. destruct (Ha' _ Ha) as (E & _ & _).
    lia.
Qed.

Lemma filter_none {A} (f : A -> bool) (l : list A) : Forall (fun x => f x = false) l -> filter f l = [].
Proof. induction 1 as [|x l Hx _ IH]; cbn; [reflexivity|]. now rewrite Hx. Qed.
Lemma filter_all {A} (f : A -> bool) (l : list A) : Forall (fun x => f x = true) l -> filter f l = l.
Proof. induction 1 as [|x l Hx _ IH]; cbn; [reflexivity|]. rewrite Hx. now f_equal. Qed.

(* what tracer number k of the stack receives is exactly what it receives when it is the only tracer *)
Theorem stack_solo : forall ts ti k t v, nth_error ts k = Some t ->
  filter (fun c => c_ti c =? ti + k) (stack_calls ti ts v) = stack_calls (ti + k) [t] v.
Proof.
  induction ts as [|t0 ts IH]; intros ti k t v Hn; [destruct k; discriminate|].
  cbn [stack_calls]. rewrite filter_app. destruct k as [|k]; cbn in Hn.
  - inversion Hn; subst t0. rewrite Nat.add_0_r, app_nil_r.
    rewrite (filter_none _ (stack_calls (S ti) ts v)).
    + rewrite app_nil_r. apply filter_all. destruct (t_active t); [|constructor].
      eapply Forall_impl; [|apply (calls_of_bounds ti (t_handlers t) 0 v)]. cbn. intros c (A & _). now apply Nat.eqb_eq.
    + eapply Forall_impl; [|apply (stack_bounds ts (S ti) v)]. cbn. intros c (A & _). apply Nat.eqb_neq. lia.
  - rewrite filter_none.
    + cbn [app]. replace (ti + S k) with (S ti + k) by lia. now apply IH.
    + destruct (t_active t0); [|constructor].
      eapply Forall_impl; [|apply (calls_of_bounds ti (t_handlers t0) 0 v)]. cbn. intros c (A & _). apply Nat.eqb_neq. lia.
Qed.

(* every call carries the value the program produced *)
Theorem stack_values ts v : Forall (fun c => c_val c = v) (stack_calls 0 ts v).
Proof. eapply Forall_impl; [|apply (stack_bounds ts 0 v)]. cbn. now intros c [_ H]. Qed.

(* a tracer with no handler for the event (not subscribed) receives nothing, as when no site had been generated for it *)
Lemma unsubscribed_silent ti t v : t_handlers t = [] -> stack_calls ti [t] v = [].
Proof. intros H. cbn. rewrite H. now destruct (t_active t). Qed.
