(* C06 / C07: every well-nested history restores the process state, and delivery follows the stack-of-booleans rule. *)
From Coq Require Import List NArith Bool Arith Lia.
Import ListNotations.
From PyccoloV Require Import model.Ctx.

Definition is_empty {A} (l : list A) : bool := match l with [] => true | _ => false end.

(* ---------------------------------------------------------------- small list facts *)
Lemma memb_app t l u : memb t (l ++ [u]) = memb t l || Nat.eqb t u.
Proof. unfold memb. rewrite existsb_app. cbn. now rewrite orb_false_r. Qed.
Lemma memb_nonempty t l : memb t l = true -> is_empty l = false.
Proof. destruct l; cbn; auto; discriminate. Qed.
Lemma removelast_snoc {A} (l : list A) x : removelast (l ++ [x]) = l.
Proof. apply removelast_last. Qed.
Lemma is_empty_app {A} (l : list A) x : is_empty (l ++ [x]) = false.
Proof. destruct l; reflexivity. Qed.
Lemma upd_same f t x : upd f t x t = x.
Proof. unfold upd. now rewrite Nat.eqb_refl. Qed.
Lemma upd_other f t x u : u <> t -> upd f t x u = f u.
Proof. unfold upd. intros H. apply Nat.eqb_neq in H. now rewrite H. Qed.

(* ---------------------------------------------------------------- what a context body must restore *)
Record core_eq (s s' : cst) : Prop := {
  ce_stack : stack s' = stack s;
  ce_n : ntr s' = ntr s;
  ce_en : forall t, enabled (tsts s' t) = enabled (tsts s t);
  ce_hard : forall t, hard (tsts s' t) = hard (tsts s t);
  ce_emit : emit_present s' = emit_present s;
  ce_guards : guards_live s' = guards_live s;
  ce_thunk : thunk_owner s' = thunk_owner s;
  ce_cur : cur_trace s' = cur_trace s;
  ce_patches : settrace_patches s' = settrace_patches s;
  ce_meta : meta_finders s' = meta_finders s;
  ce_existing : forall t, enabled (tsts s t) = true -> existing (tsts s' t) = existing (tsts s t) }.

Lemma core_eq_refl s : core_eq s s.
Proof. constructor; auto. Qed.
Lemma core_eq_trans a b c : core_eq a b -> core_eq b c -> core_eq a c.
Proof.
  intros H1 H2. destruct H1, H2. constructor; try congruence.
  intros t Ht. rewrite ce_existing1; auto. rewrite ce_en0; auto.
Qed.

(* ---------------------------------------------------------------- invariant *)
(* the part of the invariant about fields a context body need not restore (the two flags, TRACE_LAMBDA) *)
Record InvX (s : cst) : Prop := {
  i_flags : forall t, enabled (tsts s t) = true -> fte s = Some true /\ te s = Some true;
  i_fte_true : fte s = Some true -> exists t, enabled (tsts s t) = true;
  i_te_true : te s = Some true -> stack s <> [];
  i_flags_def : stack s <> [] -> fte s <> None /\ te s <> None;
  i_lam : stack s = [] -> lam_owner s = None }.

Record Inv (s : cst) : Prop := {
  i_en_stack : forall t, enabled (tsts s t) = true -> memb t (stack s) = true;
  i_fire_en : forall t, memb t (stack s) = true -> hard (tsts s t) = false -> enabled (tsts s t) = true;
  i_hard : forall t, memb t (stack s) = false -> hard (tsts s t) = false;
  i_emit : emit_present s = negb (is_empty (stack s));
  i_guards : guards_live s = negb (is_empty (stack s));
  i_thunk : (thunk_owner s = None <-> stack s = []);
  i_x : InvX s }.

Lemma inv_core_eq s s' : core_eq s s' -> Inv s -> InvX s' -> Inv s'.
Proof.
  intros C I F. destruct C, I. constructor; auto.
  - intros t. rewrite ce_en0, ce_stack0. auto.
  - intros t. rewrite ce_en0, ce_hard0, ce_stack0. auto.
  - intros t. rewrite ce_hard0, ce_stack0. auto.
  - now rewrite ce_emit0, ce_stack0.
  - now rewrite ce_guards0, ce_stack0.
  - now rewrite ce_thunk0, ce_stack0.
Qed.

Lemma enter_inv cfg t d s : Inv s -> Inv (fst (enter cfg t d s)).
Proof.
  intros I. destruct I. unfold enter. cbn [fst].
  set (x := get_t s t). set (we := negb d && negb (enabled x)).
  constructor; cbn [stack tsts emit_present guards_live thunk_owner fte te].
  - intros u Hu. destruct (Nat.eq_dec u t) as [->|Hne].
    + destruct (memb t (stack s)) eqn:Em; cbn [negb]; auto. rewrite memb_app, Nat.eqb_refl. now rewrite orb_true_r.
    + rewrite upd_other in Hu by assumption. specialize (i_en_stack0 u Hu).
      destruct (negb (memb t (stack s))); auto. rewrite memb_app, i_en_stack0. reflexivity.
  - intros u Hm Hh. destruct (Nat.eq_dec u t) as [->|Hne].
    + rewrite upd_same in *. unfold we in *. fold x in Hh |- *.
      destruct d; cbn in *.
      * destruct (cfg t) as [[] ?]; cbn in Hh; discriminate.
      * destruct (enabled x) eqn:Ex; cbn; auto. destruct (has_sys (cfg t)); reflexivity.
    + rewrite upd_other in * by assumption. apply i_fire_en0; auto.
      destruct (negb (memb t (stack s))); auto. rewrite memb_app in Hm. apply Nat.eqb_neq in Hne. rewrite Hne in Hm.
      now rewrite orb_false_r in Hm.
  - intros u Hm. destruct (Nat.eq_dec u t) as [->|Hne].
    + exfalso. destruct (memb t (stack s)) eqn:Em; cbn [negb] in Hm; [congruence|].
      rewrite memb_app, Nat.eqb_refl, orb_true_r in Hm. discriminate.
    + rewrite upd_other by assumption. apply i_hard0.
      destruct (negb (memb t (stack s))); auto. rewrite memb_app in Hm. now apply orb_false_iff in Hm as [Hm _].
  - destruct (memb t (stack s)) eqn:Em; cbn [negb]; [now rewrite (memb_nonempty _ _ Em)|now rewrite is_empty_app].
  - destruct (memb t (stack s)) eqn:Em; cbn [negb].
    + rewrite (memb_nonempty _ _ Em). cbn [negb]. rewrite i_emit0, (memb_nonempty _ _ Em). cbn [negb]. rewrite i_guards0, (memb_nonempty _ _ Em). reflexivity.
    + rewrite is_empty_app. cbn [negb]. rewrite i_emit0, i_guards0. destruct (is_empty (stack s)); reflexivity.
  - split; [discriminate|]. intros He. exfalso. destruct (memb t (stack s)) eqn:Em; cbn [negb] in He.
    + rewrite He in Em. discriminate.
    + destruct (stack s); discriminate.
  - destruct i_x0. constructor; cbn [stack tsts fte te lam_owner].
    + intros u Hu. destruct we eqn:Ew; [split; reflexivity|].
      assert (Hen : enabled (tsts s u) = true).
      { destruct (Nat.eq_dec u t) as [->|Hne]; [rewrite upd_same in Hu; exact Hu|rewrite upd_other in Hu by assumption; exact Hu]. }
      destruct (i_flags0 u Hen) as [-> ->]. split; reflexivity.
    + intros Hf. destruct we eqn:Ew.
      * exists t. rewrite upd_same. destruct (has_sys (cfg t)); reflexivity.
      * assert (Hf' : fte s = Some true) by (destruct (fte s) as [[]|]; cbn in Hf; congruence).
        destruct (i_fte_true0 Hf') as [u Hu]. exists u. destruct (Nat.eq_dec u t) as [->|Hne].
        -- rewrite upd_same. exact Hu.
        -- rewrite upd_other by assumption. exact Hu.
    + intros _ He. destruct (memb t (stack s)) eqn:Em; cbn [negb] in He; [rewrite He in Em; discriminate|destruct (stack s); discriminate].
    + intros _. destruct we; split; try discriminate; [destruct (fte s)|destruct (te s)]; discriminate.
    + intros He. exfalso. destruct (memb t (stack s)) eqn:Em; cbn [negb] in He; [rewrite He in Em; discriminate|destruct (stack s); discriminate].
Qed.

Lemma existsb_other (f : nat -> bool) t u l : u <> t -> memb u l = true -> f u = true ->
  existsb (fun v => negb (Nat.eqb v t) && f v) l = true.
Proof.
  intros Hne Hm Hf. apply existsb_exists. unfold memb in Hm. apply existsb_exists in Hm as (v & Hv & E).
  apply Nat.eqb_eq in E; subst v. exists u. split; auto. apply Nat.eqb_neq in Hne. now rewrite Hne, Hf.
Qed.

Lemma exit_restores cfg t d s s2 : Inv s -> core_eq (fst (enter cfg t d s)) s2 -> Inv s2 ->
  core_eq s (exit_ctx cfg (snd (enter cfg t d s)) s2) /\ Inv (exit_ctx cfg (snd (enter cfg t d s)) s2).
Proof.
  intros I C I2.
  assert (Hcore : core_eq s (exit_ctx cfg (snd (enter cfg t d s)) s2)).
  { destruct I, C. unfold enter in *. cbn [fst snd] in *.
    cbn [stack tsts ntr emit_present guards_live thunk_owner cur_trace settrace_patches meta_finders] in *.
    set (x := get_t s t) in *. set (we := negb d && negb (enabled x)) in *.
    unfold exit_ctx. cbn [c_t c_push c_enable c_hard c_thunk c_meta c_settrace].
    assert (Hstk : (if negb (memb t (stack s)) then removelast (stack s2) else stack s2) = stack s).
    { rewrite ce_stack0. destruct (memb t (stack s)); cbn; auto. apply removelast_snoc. }
    constructor; cbn [stack tsts ntr emit_present guards_live thunk_owner cur_trace settrace_patches meta_finders].
    - exact Hstk.
    - exact ce_n0.
    - intros u. destruct (Nat.eq_dec u t) as [->|Hne].
      + rewrite upd_same. cbn. unfold get_t. rewrite ce_en0, upd_same. fold x.
        unfold we. destruct d; cbn; [destruct (cfg t) as [[] ?]; reflexivity|].
        destruct (enabled x) eqn:Ex; cbn; auto.
      + rewrite upd_other by assumption. rewrite ce_en0. now rewrite upd_other by assumption.
    - intros u. destruct (Nat.eq_dec u t) as [->|Hne].
      + rewrite upd_same. reflexivity.
      + rewrite upd_other by assumption. rewrite ce_hard0. now rewrite upd_other by assumption.
    - rewrite Hstk, ce_emit0, i_emit0. destruct (stack s); reflexivity.
    - rewrite Hstk, ce_guards0, i_guards0, i_emit0. destruct (stack s); reflexivity.
    - rewrite Hstk, ce_thunk0. destruct (stack s) eqn:Es; cbn.
      + symmetry. apply i_thunk0. reflexivity.
      + destruct (thunk_owner s) eqn:Et; auto. exfalso. destruct i_thunk0 as [H _]. specialize (H eq_refl). discriminate.
    - rewrite ce_cur0. unfold get_t. destruct we eqn:Ew; cbn.
      + destruct (has_sys (cfg t)) eqn:Eh; cbn; auto.
        rewrite ce_existing0 by (rewrite upd_same; reflexivity). rewrite upd_same. reflexivity.
      + reflexivity.
    - rewrite ce_patches0. destruct (has_sys (cfg t) && we); reflexivity.
    - rewrite ce_meta0. destruct (patch_meta (cfg t) && _); reflexivity.
    - intros u Hu. destruct (Nat.eq_dec u t) as [->|Hne].
      + rewrite upd_same. cbn. unfold get_t.
        assert (Ew : we = false) by (unfold we, x, get_t; rewrite Hu; now rewrite andb_false_r).
        rewrite ce_existing0; rewrite upd_same, Ew; unfold x, get_t; cbn; auto.
      + rewrite upd_other by assumption. rewrite ce_existing0; rewrite upd_other by assumption; auto. }
  split; [exact Hcore|].
  apply (inv_core_eq s _ Hcore I).
  pose proof (ce_stack _ _ Hcore) as Hst.
  assert (Hen2 : forall u, enabled (tsts s u) = true -> enabled (tsts s2 u) = true).
  { intros u Heu. rewrite (ce_en _ _ C). unfold enter. cbn [fst tsts]. destruct (Nat.eq_dec u t) as [->|Hne].
    - rewrite upd_same. fold (get_t s t). unfold get_t. rewrite Heu. rewrite andb_false_r. reflexivity.
    - now rewrite upd_other by assumption. }
  assert (Hst2 : stack s2 <> []).
  { rewrite (ce_stack _ _ C). unfold enter. cbn [fst stack]. destruct (memb t (stack s)) eqn:Em; cbn [negb].
    - intros He. rewrite He in Em. discriminate.
    - destruct (stack s); discriminate. }
  destruct (i_flags_def _ (i_x _ I2) Hst2) as [Hfd Htd].
  constructor.
  - intros u Hu.
    pose proof (ce_en _ _ Hcore u) as Heu. rewrite Hu in Heu. symmetry in Heu.
    pose proof (i_en_stack _ I u Heu) as Hms.
    destruct (i_flags _ (i_x _ I2) u (Hen2 u Heu)) as [Hf Ht].
    unfold exit_ctx in *. cbn [stack fte te] in *. rewrite Hst.
    destruct (stack s) as [|a0 st] eqn:Es; [cbn in Hms; discriminate|].
    cbn [andb]. rewrite andb_false_r.
    split; [|exact Ht].
    unfold enter. cbn [snd c_enable c_t c_push]. destruct (negb d && negb (enabled (get_t s t))) eqn:Ew; [|exact Hf].
    f_equal. unfold any_enabled_other.
    assert (Hne : u <> t).
    { intros ->. unfold get_t in Ew. rewrite Heu in Ew. now rewrite andb_false_r in Ew. }
    apply existsb_other with (u := u); auto.
  - intros Hf. unfold exit_ctx in Hf |- *. cbn [fte tsts] in *.
    unfold enter in Hf |- *. cbn [snd c_enable c_t c_push c_hard] in *.
    destruct (negb d && negb (enabled (get_t s t))) eqn:Ew.
    + assert (Hx : any_enabled_other s2 t (if negb (memb t (stack s)) then removelast (stack s2) else stack s2) = true) by congruence.
      clear Hf. unfold any_enabled_other in Hx. apply existsb_exists in Hx as (u & _ & Hu).
      apply andb_prop in Hu as [Hne Hu]. apply negb_true_iff in Hne. apply Nat.eqb_neq in Hne.
      exists u. rewrite upd_other by assumption. exact Hu.
    + destruct (i_fte_true _ (i_x _ I2) Hf) as [u Hu]. exists u. destruct (Nat.eq_dec u t) as [->|Hne].
      * rewrite upd_same. cbn. exact Hu.
      * rewrite upd_other by assumption. exact Hu.
  - intros Ht3 He. unfold exit_ctx in Ht3, He. cbn [te stack] in *. rewrite He in Ht3. discriminate.
  - intros Hne. unfold exit_ctx in Hne |- *. cbn [stack fte te] in *.
    split.
    + destruct (c_enable (snd (enter cfg t d s))); [discriminate|exact Hfd].
    + destruct (if c_push (snd (enter cfg t d s)) then removelast (stack s2) else stack s2) eqn:Ek; [contradiction|].
      rewrite andb_false_r. exact Htd.
  - intros He. unfold exit_ctx in He |- *. cbn [stack lam_owner] in *. rewrite He. reflexivity.
Qed.

(* ---------------------------------------------------------------- relation to the stack-of-booleans reference *)
Definition Rel (s : cst) (sp : spec) : Prop :=
  length sp = ntr s /\
  forall t, t < ntr s ->
    (memb t (stack s) = true <-> nth t sp [] <> []) /\
    (memb t (stack s) = true -> hard (tsts s t) = negb (hd true (nth t sp []))).

Lemma rel_core_eq s s' sp : core_eq s s' -> Rel s sp -> Rel s' sp.
Proof.
  intros C [Hl H]. destruct C. split; [congruence|]. intros t Ht. rewrite ce_n0 in Ht.
  rewrite ce_stack0, ce_hard0. auto.
Qed.

Lemma length_set_nth {A} (l : list A) i x : length (set_nth l i x) = length l.
Proof. revert i; induction l as [|y l IH]; intros [|i]; cbn; auto. Qed.
Lemma nth_set_nth_same {A} (l : list A) i x d : i < length l -> nth i (set_nth l i x) d = x.
Proof. revert i; induction l as [|y l IH]; intros [|i] H; cbn in *; auto; try lia; try (apply IH; lia). Qed.
Lemma nth_set_nth_other {A} (l : list A) i j x d : i <> j -> nth j (set_nth l i x) d = nth j l d.
Proof. revert i j; induction l as [|y l IH]; intros [|i] [|j] H; cbn; auto; try congruence; try (apply IH; lia). Qed.

Lemma enter_rel cfg t d s sp : Inv s -> Rel s sp -> t < ntr s ->
  Rel (fst (enter cfg t d s)) (spec_push sp t (negb d)).
Proof.
  intros I [Hl H] Ht. unfold enter, spec_push. cbn [fst]. split; cbn [ntr stack tsts].
  - now rewrite length_set_nth.
  - intros u Hu. destruct (Nat.eq_dec u t) as [->|Hne].
    + rewrite nth_set_nth_same by lia. rewrite upd_same. split.
      * split; [discriminate|]. intros _. destruct (memb t (stack s)) eqn:Em; cbn [negb]; auto.
        now rewrite memb_app, Nat.eqb_refl, orb_true_r.
      * intros _. cbn. rewrite negb_involutive.
        destruct (negb d && negb (enabled (get_t s t))); [destruct (has_sys (cfg t))|]; reflexivity.
    + rewrite nth_set_nth_other by auto. rewrite upd_other by assumption.
      assert (Hm : memb u (if negb (memb t (stack s)) then stack s ++ [t] else stack s) = memb u (stack s)).
      { destruct (negb (memb t (stack s))); auto. rewrite memb_app. apply Nat.eqb_neq in Hne. now rewrite Hne, orb_false_r. }
      rewrite Hm. apply H. exact Hu.
Qed.

Lemma fires_spec s sp t : Inv s -> Rel s sp -> t < ntr s -> fires s t = spec_fires sp t.
Proof.
  intros I [Hl H] Ht. unfold fires, spec_fires. destruct (H t Ht) as [[H1 H2] H3].
  destruct (memb t (stack s)) eqn:Em; cbn.
  - unfold get_t. rewrite (H3 eq_refl). rewrite negb_involutive. destruct (nth t sp []) eqn:En; cbn; auto.
    exfalso. apply (H1 eq_refl). reflexivity.
  - destruct (nth t sp []) eqn:En; auto. exfalso. assert (Hx : false = true) by (apply H2; discriminate). discriminate.
Qed.

Lemma map_fires_spec s sp : Inv s -> Rel s sp ->
  map (fun t => fires s t) (seq 0 (ntr s)) = map (spec_fires sp) (seq 0 (length sp)).
Proof.
  intros I R. destruct R as [Hl H] eqn:ER. rewrite Hl. apply map_ext_in. intros t Ht. apply in_seq in Ht.
  apply fires_spec; auto. lia.
Qed.

Lemma no_fire_all_false s sp : Inv s -> Rel s sp -> (forall t, t < ntr s -> fires s t = false) ->
  repeat false (ntr s) = map (spec_fires sp) (seq 0 (length sp)).
Proof.
  intros I R Hn. rewrite <- (map_fires_spec s sp I R).
  assert (G : forall k n, (forall t, k <= t < k + n -> fires s t = false) -> repeat false n = map (fun t => fires s t) (seq k n)).
  { intros k n. revert k. induction n as [|n IH]; intros k Hk; cbn; auto. rewrite Hk by lia. f_equal. apply IH. intros t Ht. apply Hk. lia. }
  apply G. intros t Ht. apply Hn. lia.
Qed.

(* a tracer that fires implies the site reaches its emit call *)
Lemma fire_implies_reach s t : Inv s -> fires s t = true ->
  emit_present s = true /\ fte s = Some true /\ te s = Some true.
Proof.
  intros I Hf. unfold fires in Hf. apply andb_prop in Hf as [Hm Hh]. apply negb_true_iff in Hh.
  pose proof (i_fire_en _ I t Hm Hh) as He. destruct (i_flags _ (i_x _ I) t He) as [-> ->].
  rewrite (i_emit _ I), (memb_nonempty _ _ Hm). auto.
Qed.

Lemma site_delivery s sp k : Inv s -> Rel s sp -> k <> KSys ->
  delivered_of (ntr s) (run_site s k) = map (spec_fires sp) (seq 0 (length sp)).
Proof.
  intros I R Hk.
  assert (Hnone : (forall t, t < ntr s -> fires s t = false) \/ (exists t, fires s t = true)).
  { assert (G : forall n, (forall t, t < n -> fires s t = false) \/ (exists t, fires s t = true)).
    { induction n as [|n [IH|IH]]; [left; intros; lia| |right; exact IH].
      destruct (fires s n) eqn:E; [right; eauto|left]. intros t Ht. destruct (Nat.eq_dec t n) as [->|]; auto. apply IH. lia. }
    apply G. }
  destruct Hnone as [Hn|[t Ht]].
  - rewrite <- (no_fire_all_false s sp I R Hn).
    assert (Hw : map (fun t => fires s t) (seq 0 (ntr s)) = repeat false (ntr s)).
    { rewrite (no_fire_all_false s sp I R Hn). apply map_fires_spec; auto. }
    unfold run_site. rewrite Hw.
    destruct k; try contradiction; cbn; repeat (match goal with |- context [match ?x with _ => _ end] => destruct x end; cbn; auto).
  - destruct (fire_implies_reach s t I Ht) as (He & Hf & Hte).
    unfold run_site. rewrite He, Hf, Hte. destruct k; try contradiction; cbn; apply map_fires_spec; auto.
Qed.

(* ---------------------------------------------------------------- the main induction *)
Fixpoint wf_item (n : nat) (i : item) : Prop :=
  match i with
  | ICtx t _ body | IExec t body => t < n /\ (fix go (l : list item) : Prop := match l with [] => True | x :: l' => wf_item n x /\ go l' end) body
  | ITry body => (fix go (l : list item) : Prop := match l with [] => True | x :: l' => wf_item n x /\ go l' end) body
  | ISite k => k <> KSys
  | IRaise => True
  end.
Fixpoint wf_items (n : nat) (l : list item) : Prop := match l with [] => True | x :: l' => wf_item n x /\ wf_items n l' end.

Definition is_ksys (k : kind) : bool := match k with KSys => true | _ => false end.
Definition view_log (n : nat) (lg : list (kind * site_result)) : list (kind * list bool) :=
  map (fun e => (fst e, delivered_of n (snd e))) (filter (fun e => negb (is_ksys (fst e))) lg).

Definition good_item (cfg : nat -> tcfg) (i : item) : Prop := forall s sp, Inv s -> Rel s sp -> wf_item (ntr s) i ->
  let '(r, s', lg) := run_item cfg i s in
  let '(r2, lg2) := spec_item i sp in
  r = r2 /\ view_log (ntr s) lg = lg2 /\ core_eq s s' /\ Inv s'.
Definition good_items (cfg : nat -> tcfg) (l : list item) : Prop := forall s sp, Inv s -> Rel s sp -> wf_items (ntr s) l ->
  let '(r, s', lg) := run_items cfg l s in
  let '(r2, lg2) := spec_items l sp in
  r = r2 /\ view_log (ntr s) lg = lg2 /\ core_eq s s' /\ Inv s'.

Ltac split4 := split; [|split; [|split]].

Lemma good_items_of cfg l : Forall (good_item cfg) l -> good_items cfg l.
Proof.
  induction 1 as [|i l Hi _ IH]; intros s sp I R W.
  - cbn. split4; auto using core_eq_refl.
  - cbn in W. destruct W as [W1 W2]. unfold run_items, spec_items in *. cbn.
    specialize (Hi s sp I R W1). destruct (run_item cfg i s) as [[r s1] lg]. destruct (spec_item i sp) as [r2 lg2].
    destruct Hi as (-> & Hl & C & I1). destruct r2; [split4; auto|].
    assert (Hn : ntr s1 = ntr s) by apply (ce_n _ _ C).
    specialize (IH s1 sp I1 (rel_core_eq _ _ _ C R)). rewrite Hn in IH. specialize (IH W2).
    unfold run_items, spec_items in IH.
    destruct (items_of (run_item cfg) l s1) as [[r' s2] lg']. destruct (spec_items_of spec_item l sp) as [r2' lg2'].
    destruct IH as (-> & Hl' & C' & I2). split4; auto.
    + unfold view_log in *. rewrite filter_app, map_app. congruence.
    + eapply core_eq_trans; eauto.
Qed.

Lemma wf_items_go n body :
  (fix go (l : list item) : Prop := match l with [] => True | x :: l' => wf_item n x /\ go l' end) body = wf_items n body.
Proof. induction body as [|x l IH]; cbn; auto. now rewrite IH. Qed.

Lemma ctx_case cfg t d body s sp : good_items cfg body -> Inv s -> Rel s sp -> t < ntr s -> wf_items (ntr s) body ->
  forall b, b = negb d ->
  let '(s1, c) := enter cfg t d s in
  let '(r, s2, lg) := run_items cfg body s1 in
  let '(r2, lg2) := spec_items body (spec_push sp t b) in
  r = r2 /\ view_log (ntr s) lg = lg2 /\ core_eq s (exit_ctx cfg c s2) /\ Inv (exit_ctx cfg c s2).
Proof.
  intros G I R Ht W b ->.
  pose proof (enter_inv cfg t d s I) as I1. pose proof (enter_rel cfg t d s sp I R Ht) as R1.
  pose proof (exit_restores cfg t d s) as Hex.
  destruct (enter cfg t d s) as [s1 c] eqn:E. cbn [fst snd] in *.
  assert (Hn : ntr s1 = ntr s) by (unfold enter in E; inversion E; reflexivity).
  specialize (G s1 _ I1 R1). rewrite Hn in G. specialize (G W).
  destruct (run_items cfg body s1) as [[r s2] lg]. destruct (spec_items body _) as [r2 lg2].
  destruct G as (-> & Hl & C & I2). destruct (Hex s2 I C I2) as [C3 I3]. split4; auto.
Qed.

Theorem all_items_good cfg : forall l, good_items cfg l.
Proof.
  assert (Hsz : forall k i, (fix size (i : item) : nat :=
                   match i with
                   | ICtx _ _ b | IExec _ b | ITry b => S ((fix sl (l : list item) := match l with [] => 0 | x :: l' => size x + sl l' end) b)
                   | _ => 1 end) i <= k -> good_item cfg i).
  { induction k as [|k IH]; intros i Hk; [destruct i; cbn in Hk; lia|].
    set (size := (fix size (i : item) : nat :=
                   match i with
                   | ICtx _ _ b | IExec _ b | ITry b => S ((fix sl (l : list item) := match l with [] => 0 | x :: l' => size x + sl l' end) b)
                   | _ => 1 end)) in *.
    set (sl := (fix sl (l : list item) := match l with [] => 0 | x :: l' => size x + sl l' end)) in *.
    assert (Hx : forall (l : list item) x, In x l -> size x <= sl l).
    { induction l as [|y ys IHy]; intros x Hi; [destruct Hi|]. destruct Hi as [->|Hi]; cbn; [lia|]. specialize (IHy x Hi). lia. }
    assert (Hbody : forall b, sl b <= k -> good_items cfg b).
    { intros b Hb. apply good_items_of. apply Forall_forall. intros x Hin. apply IH. pose proof (Hx _ _ Hin). lia. }
    destruct i as [t d body|t body|kd| |body]; intros s sp I R W.
    - cbn in Hk. fold sl in Hk. cbn in W. rewrite wf_items_go in W. destruct W as [Wt Wb].
      pose proof (ctx_case cfg t d body s sp (Hbody body ltac:(lia)) I R Wt Wb (negb d) eq_refl) as H.
      cbn [run_item spec_item]. fold (run_items cfg). fold spec_items.
      destruct (enter cfg t d s) as [s1 c]. destruct (run_items cfg body s1) as [[r s2] lg].
      destruct (spec_items body _) as [r2 lg2]. exact H.
    - cbn in Hk. fold sl in Hk. cbn in W. rewrite wf_items_go in W. destruct W as [Wt Wb].
      assert (Hb : (match nth t sp [] with [] => true | b :: _ => b end) = negb (hard (get_t s t))).
      { destruct R as [Hl HR]. destruct (HR t Wt) as [[H1 H2] H3]. unfold get_t.
        destruct (memb t (stack s)) eqn:Em.
        - rewrite (H3 eq_refl). rewrite negb_involutive. destruct (nth t sp []) eqn:En; cbn; auto.
        - rewrite (i_hard _ I t Em). destruct (nth t sp []) eqn:En; auto. exfalso.
          assert (Hf : false = true) by (apply H2; discriminate). discriminate. }
      pose proof (ctx_case cfg t (hard (get_t s t)) body s sp (Hbody body ltac:(lia)) I R Wt Wb _ Hb) as H.
      cbn [run_item spec_item]. fold (run_items cfg). fold spec_items.
      destruct (enter cfg t (hard (get_t s t)) s) as [s1 c]. destruct (run_items cfg body s1) as [[r s2] lg].
      destruct (spec_items body _) as [r2 lg2]. exact H.
    - cbn in W. cbn [run_item spec_item]. split4; auto using core_eq_refl.
      assert (Hv : view_log (ntr s) [(kd, run_site s kd); (KSys, SDelivered (sys_who s)); (KSys, SFinders (meta_finders s))] = [(kd, delivered_of (ntr s) (run_site s kd))])
        by (unfold view_log; destruct kd; try contradiction; reflexivity).
      rewrite Hv, (site_delivery s sp kd I R W). reflexivity.
    - cbn. split4; auto using core_eq_refl.
    - cbn in Hk. fold sl in Hk. cbn in W. rewrite wf_items_go in W.
      pose proof (Hbody body ltac:(lia) s sp I R W) as H.
      cbn [run_item spec_item]. fold (run_items cfg). fold spec_items.
      destruct (run_items cfg body s) as [[r s2] lg]. destruct (spec_items body sp) as [r2 lg2].
      destruct H as (_ & Hl & C & I2). split4; auto. }
  intros l. apply good_items_of. apply Forall_forall. intros x _. eapply Hsz. apply le_n.
Qed.

(* ---------------------------------------------------------------- initial state *)
Lemma init_inv n pre : Inv (init_cst n pre).
Proof.
  constructor; cbn; auto; try discriminate; [split; auto|].
  constructor; cbn; auto; try discriminate; try (intros H; contradiction).
Qed.
Lemma init_rel n pre : Rel (init_cst n pre) (init_spec n).
Proof.
  split; cbn; [apply repeat_length|]. intros t Ht. unfold init_spec.
  assert (Hn : nth t (repeat (@nil bool) n) [] = []).
  { clear. revert t. induction n; intros [|t]; cbn; auto. }
  rewrite Hn. split; [split; [discriminate|congruence]|discriminate].
Qed.

Lemma quiescent_rel s : Inv s -> stack s = [] -> Rel s (init_spec (ntr s)).
Proof.
  intros I He. split; [apply repeat_length|]. intros t Ht. unfold init_spec.
  assert (Hn : nth t (repeat (@nil bool) (ntr s)) [] = []).
  { generalize (ntr s). clear. intros n. revert t. induction n; intros [|t]; cbn; auto. }
  rewrite Hn, He. cbn. split; [split; [discriminate|congruence]|discriminate].
Qed.

(* C06, from any state satisfying the invariant *)
Theorem delivery_general cfg items s sp : Inv s -> Rel s sp -> wf_items (ntr s) items ->
  let '(r, s', lg) := run_items cfg items s in
  let '(r2, lg2) := spec_items items sp in
  r = r2 /\ view_log (ntr s) lg = lg2.
Proof.
  intros I R W. pose proof (all_items_good cfg items s sp I R W) as H.
  destruct (run_items cfg items s) as [[r s'] lg]. destruct (spec_items items sp) as [r2 lg2].
  destruct H as (H1 & H2 & _). auto.
Qed.

(* C07: any history from a state with no active context puts every process-global field back *)
Theorem restore_general cfg items s : Inv s -> stack s = [] -> wf_items (ntr s) items ->
  let s' := snd (fst (run_items cfg items s)) in
  core_eq s s' /\ Inv s' /\ stack s' = [] /\ emit_present s' = false /\ guards_live s' = false /\
  thunk_owner s' = None /\ lam_owner s' = None.
Proof.
  intros I He W. pose proof (all_items_good cfg items s _ I (quiescent_rel s I He) W) as H.
  destruct (run_items cfg items s) as [[r s'] lg]. destruct (spec_items items _) as [r2 lg2]. cbn.
  destruct H as (_ & _ & C & I'). pose proof (ce_stack _ _ C) as Hs. rewrite He in Hs.
  split; auto. split; auto. split; auto.
  rewrite (i_emit _ I'), (i_guards _ I'), Hs. cbn. repeat split; auto.
  - apply (i_thunk _ I'). exact Hs.
  - apply (i_lam _ (i_x _ I')). exact Hs.
Qed.

(* the two flags, once defined, stay defined; every context defines them *)
Definition defd (s : cst) : Prop := fte s <> None /\ te s <> None.
Lemma enter_defd cfg t d s : defd (fst (enter cfg t d s)).
Proof.
  unfold defd, enter. cbn. destruct (negb d && negb (enabled (get_t s t))); split; try discriminate;
    [destruct (fte s)|destruct (te s)]; discriminate.
Qed.
Lemma exit_defd cfg c s : defd s -> defd (exit_ctx cfg c s).
Proof.
  unfold defd, exit_ctx. cbn. intros [H1 H2]. split.
  - destruct (c_enable c); [discriminate|exact H1].
  - destruct (if c_push c then removelast (stack s) else stack s); [discriminate|]. now rewrite andb_false_r.
Qed.

Fixpoint isize (i : item) : nat :=
  match i with
  | ICtx _ _ b | IExec _ b | ITry b => S ((fix sl (l : list item) := match l with [] => 0 | x :: l' => isize x + sl l' end) b)
  | _ => 1
  end.
Definition lsize (l : list item) : nat := (fix sl (l : list item) := match l with [] => 0 | x :: l' => isize x + sl l' end) l.
Lemma lsize_in l x : In x l -> isize x <= lsize l.
Proof. induction l as [|y ys IH]; intros H; [destruct H|]. destruct H as [->|H]; cbn; [lia|]. specialize (IH H). unfold lsize in IH. lia. Qed.

Lemma defd_items cfg : forall l s, defd s -> defd (snd (fst (run_items cfg l s))).
Proof.
  assert (Hsz : forall k i, isize i <= k -> forall s, defd s -> defd (snd (fst (run_item cfg i s)))).
  { induction k as [|k IH]; intros i Hk; [destruct i; cbn in Hk; lia|].
    assert (Hl : forall b, lsize b <= k -> forall s, defd s -> defd (snd (fst (run_items cfg b s)))).
    { induction b as [|x b IHb]; intros Hb s Hs; cbn; auto.
      unfold run_items. cbn. pose proof (IH x ltac:(cbn in Hb; unfold lsize in Hb; lia) s Hs) as Hx.
      destruct (run_item cfg x s) as [[r s1] lg]. cbn in Hx. destruct r; cbn; auto.
      pose proof (IHb ltac:(cbn in Hb; unfold lsize in *; lia) s1 Hx) as Hb'. unfold run_items in Hb'.
      destruct (items_of (run_item cfg) b s1) as [[r2 s2] lg2]. exact Hb'. }
    destruct i as [t d body|t body|kd| |body]; intros s Hs; cbn [run_item]; fold (run_items cfg).
    - destruct (enter cfg t d s) as [s1 c] eqn:E.
      pose proof (Hl body ltac:(cbn in Hk; unfold lsize; lia) s1) as Hb.
      assert (Hd1 : defd s1) by (pose proof (enter_defd cfg t d s) as Hq; rewrite E in Hq; exact Hq).
      specialize (Hb Hd1). destruct (run_items cfg body s1) as [[r s2] lg]. cbn in *. now apply exit_defd.
    - destruct (enter cfg t (hard (get_t s t)) s) as [s1 c] eqn:E.
      pose proof (Hl body ltac:(cbn in Hk; unfold lsize; lia) s1) as Hb.
      assert (Hd1 : defd s1) by (pose proof (enter_defd cfg t (hard (get_t s t)) s) as Hq; rewrite E in Hq; exact Hq).
      specialize (Hb Hd1). destruct (run_items cfg body s1) as [[r s2] lg]. cbn in *. now apply exit_defd.
    - exact Hs.
    - exact Hs.
    - pose proof (Hl body ltac:(cbn in Hk; unfold lsize; lia) s Hs) as Hb.
      destruct (run_items cfg body s) as [[r s2] lg]. exact Hb. }
  induction l as [|x l IHl]; intros s Hs; cbn; auto.
  unfold run_items. cbn. pose proof (Hsz _ x (le_n _) s Hs) as Hx.
  destruct (run_item cfg x s) as [[r s1] lg]. cbn in Hx. destruct r; cbn; auto.
  pose proof (IHl s1 Hx) as Hb. unfold run_items in Hb. destruct (items_of (run_item cfg) l s1) as [[r2 s2] lg2]. exact Hb.
Qed.

Lemma ctx_defines cfg t d body s : defd (snd (fst (run_item cfg (ICtx t d body) s))).
Proof.
  cbn [run_item]. fold (run_items cfg). destruct (enter cfg t d s) as [s1 c] eqn:E.
  assert (Hd1 : defd s1) by (pose proof (enter_defd cfg t d s) as Hq; rewrite E in Hq; exact Hq).
  pose proof (defd_items cfg body s1 Hd1) as Hb. destruct (run_items cfg body s1) as [[r s2] lg]. cbn in *. now apply exit_defd.
Qed.

(* code compiled while tracing, run when no context is active any more: every guarded site takes its pristine branch *)
Theorem after_sites_plain s k : Inv s -> stack s = [] -> defd s -> k <> KTop -> run_site s k = SPlain.
Proof.
  intros I He [Hf Ht] Hk.
  assert (Hne : forall t, enabled (tsts s t) = false).
  { intros t. destruct (enabled (tsts s t)) eqn:E; auto. pose proof (i_en_stack _ I t E) as Hm. rewrite He in Hm. discriminate. }
  assert (Hf' : fte s = Some false).
  { destruct (fte s) as [[]|] eqn:E; auto; [|contradiction]. destruct (i_fte_true _ (i_x _ I) E) as [t Ht']. rewrite Hne in Ht'. discriminate. }
  assert (Ht' : te s = Some false).
  { destruct (te s) as [[]|] eqn:E; auto; [|contradiction]. exfalso. apply (i_te_true _ (i_x _ I) E). exact He. }
  unfold run_site. rewrite Hf', Ht'. destruct k; auto. contradiction.
Qed.
