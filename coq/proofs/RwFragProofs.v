(* L1 for the fragment: erasing the output of the rewriter MODEL gives back the source, for every fragment program, every
   subscription set.  With the K-syn correspondence (model output = real rewriter output, tree equality) this is the
   unbounded counterpart of the per-program erasure certificates of C01. *)
From Coq Require Import List ZArith NArith Bool Lia.
Import ListNotations.
From PyccoloV Require Import gen.PyAst gen.Ids gen.Events model.Tree model.Erase model.RwFrag proofs.EraseSound.
Local Open Scope N_scope.

(* ---- erase on the constructors the model uses *)
Lemma erase_fields_cons f fs : erase_fields (f :: fs) =
  match erase_list f, erase_fields fs with Some a, Some b => Some (a :: b) | _, _ => None end.
Proof. reflexivity. Qed.
Lemma erase_list_cons x l : erase_list (x :: l) =
  match erase x, erase_list l with Some a, Some b => Some (a ++ b) | _, _ => None end.
Proof. reflexivity. Qed.
Lemma erase_list_nil : erase_list [] = Some [].
Proof. reflexivity. Qed.
Lemma erase_fields_nil : erase_fields [] = Some [].
Proof. reflexivity. Qed.

Lemma erase_nm_load x : erase (nm_load x) = Some [nm_load x].
Proof. reflexivity. Qed.
Lemma erase_cst_ev e : erase (cst_ev e) = Some [cst_ev e].
Proof. reflexivity. Qed.
Lemma erase_cst_nid n : erase (cst_nid n) = Some [cst_nid n].
Proof. reflexivity. Qed.
Lemma erase_guards_none : erase guards_none = Some [guards_none].
Proof. reflexivity. Qed.
Lemma erase_kw x r r' : erase r = Some [r'] -> erase (kw x r) = Some [kw x r'].
Proof.
  intros H. unfold kw. rewrite erase_T, erase_fields_cons, erase_list_cons, H, erase_list_nil, erase_fields_nil. cbn [app].
  unfold post. reflexivity.
Qed.

Definition special_ev (e : event) : bool := is_subscript_before_event (ev_code e) || is_body_bracket_event (ev_code e).

Lemma erase_emit_ret e n r r' : erase r = Some [r'] -> tlam_parts r' = None -> special_ev e = false ->
  erase (emit_ret e n r) = Some [r'].
Proof.
  intros H Ht Hs. unfold emit_ret, emit_call.
  rewrite erase_T. rewrite !erase_fields_cons, !erase_list_cons, erase_nm_load, erase_cst_ev, erase_cst_nid,
    (erase_kw id_ret r r' H), erase_guards_none, !erase_list_nil, erase_fields_nil. cbn [app].
  unfold post. cbn [N.eqb kCall Pos.eqb].
  change (N.eqb kCall kCall) with true. cbv iota.
  unfold emit_parts, nm_load, cst_ev, cst_nid. cbn [name_is].
  change (N.eqb kCall kCall && (N.eqb kName kName && N.eqb id_emit id_emit) && N.eqb kConstant kConstant && N.eqb kConstant kConstant) with true.
  cbv iota. unfold kw_value, kw. cbn [find]. 
  change (N.eqb kkeyword kkeyword && N.eqb id_ret id_ret) with true. cbv iota.
  rewrite Ht. unfold special_ev in Hs. rewrite Hs. reflexivity.
Qed.

(* the emit call that carries a thunk stays in place (decided at the application node) *)
Lemma erase_lambda args body body' : erase args = Some [args] -> erase body = Some [body'] ->
  erase (T kLambda [] [[args]; [body]]) = Some [T kLambda [] [[args]; [body']]].
Proof.
  intros Ha Hb. rewrite erase_T, !erase_fields_cons, !erase_list_cons, Ha, Hb, !erase_list_nil, erase_fields_nil. cbn [app]. reflexivity.
Qed.
Lemma erase_tlam args body body' : erase args = Some [args] -> erase body = Some [body'] ->
  erase (tlam args body) = Some [tlam args body'].
Proof.
  intros Ha Hb. unfold tlam. rewrite erase_T, !erase_fields_cons, !erase_list_cons, erase_nm_load, (erase_lambda _ _ _ Ha Hb),
    !erase_list_nil, erase_fields_nil. cbn [app]. reflexivity.
Qed.
Lemma erase_no_args : erase no_args = Some [no_args].
Proof. reflexivity. Qed.
Lemma erase_args2 x y : erase (args2 x y) = Some [args2 x y].
Proof. reflexivity. Qed.

Lemma erase_emit_thunk e n args body body' : erase args = Some [args] -> erase body = Some [body'] ->
  erase (emit_call e n [kw id_ret (tlam args body); guards_none]) = Some [emit_call e n [kw id_ret (tlam args body'); guards_none]].
Proof.
  intros Ha Hb. unfold emit_call.
  rewrite erase_T, !erase_fields_cons, !erase_list_cons, erase_nm_load, erase_cst_ev, erase_cst_nid,
    (erase_kw id_ret _ _ (erase_tlam _ _ _ Ha Hb)), erase_guards_none, !erase_list_nil, erase_fields_nil. cbn [app].
  reflexivity.
Qed.

(* EMIT(evt, id, ret=TLAM(lambda: body))()  ->  body *)
Lemma erase_deferred0 e n body body' : erase body = Some [body'] ->
  erase (emit_deferred e n (tlam no_args body) []) = Some [body'].
Proof.
  intros Hb. unfold emit_deferred.
  rewrite erase_T, !erase_fields_cons, !erase_list_cons, (erase_emit_thunk e n no_args body body' erase_no_args Hb),
    !erase_list_nil, erase_fields_nil. cbn [app].
  reflexivity.
Qed.

(* EMIT(before_binop, id, ret=TLAM(lambda x, y: x op y))(l, r)  ->  l op r *)
Lemma erase_leaf k : N.eqb k kCall = false -> N.eqb k kIfExp = false -> N.eqb k kIf = false -> N.eqb k kTry = false ->
  N.eqb k kExpr = false -> N.eqb k kSubscript = false -> erase (T k [] []) = Some [T k [] []].
Proof. intros. rewrite erase_T. cbn [erase_fields]. now apply post_other. Qed.

Lemma emit_parts_not_emit sc f args kws : name_is id_emit f = false -> emit_parts (T kCall sc [[f]; args; kws]) = None.
Proof.
  intros H. unfold emit_parts. destruct sc; [|reflexivity].
  destruct args as [|[k1 [|[] s1] f1|] [|[k2 [|n2 s2] f2|] rest]]; try reflexivity.
  all: rewrite H; now rewrite ?andb_false_r.
Qed.
Lemma emit_call_not_name e n kws : name_is id_emit (emit_call e n kws) = false.
Proof. reflexivity. Qed.

Lemma erase_binop_thunk e n op l l' r r' :
  erase op = Some [op] -> erase l = Some [l'] -> erase r = Some [r'] ->
  erase (emit_deferred e n (tlam (args2 id_x id_y) (T kBinOp [] [[nm_load id_x]; [op]; [nm_load id_y]])) [l; r])
  = Some [T kBinOp [] [[l']; [op]; [r']]].
Proof.
  intros Ho Hl Hr. unfold emit_deferred.
  assert (Hbody : erase (T kBinOp [] [[nm_load id_x]; [op]; [nm_load id_y]]) = Some [T kBinOp [] [[nm_load id_x]; [op]; [nm_load id_y]]]).
  { rewrite erase_T, !erase_fields_cons, !erase_list_cons, !erase_nm_load, Ho, !erase_list_nil, erase_fields_nil. cbn [app]. reflexivity. }
  rewrite erase_T, !erase_fields_cons, !erase_list_cons, (erase_emit_thunk e n _ _ _ (erase_args2 id_x id_y) Hbody), Hl, Hr,
    !erase_list_nil, erase_fields_nil. cbn [app].
  unfold post. change (N.eqb kCall kCall) with true. cbv iota.
  rewrite (emit_parts_not_emit [] _ _ _ (emit_call_not_name e n _)).
  reflexivity.
Qed.

Lemma erase_list_app a b : erase_list (a ++ b) =
  match erase_list a, erase_list b with Some x, Some y => Some (x ++ y) | _, _ => None end.
Proof.
  induction a as [|x a IH]; cbn [app].
  - rewrite erase_list_nil. now destruct (erase_list b).
  - rewrite !erase_list_cons, IH. destruct (erase x); [|reflexivity].
    destruct (erase_list a); [|reflexivity]. destruct (erase_list b); [|reflexivity]. now rewrite app_assoc.
Qed.
Lemma erase_list_singles xs ys : Forall2 (fun x y => erase x = Some [y]) xs ys -> erase_list xs = Some ys.
Proof.
  induction 1 as [|x y xs ys H _ IH]; [reflexivity|]. now rewrite erase_list_cons, H, IH.
Qed.

(* EMIT(before_compare, id, ret=TLAM(lambda X, Y: X op0 Y op1 c1 ...))(l, c0)  ->  l op0 c0 op1 c1 ... *)
Lemma erase_compare_thunk e n ops l l' c0 c0' crest crest' :
  erase_list ops = Some ops -> erase_list crest = Some crest' -> erase l = Some [l'] -> erase c0 = Some [c0'] ->
  erase (emit_deferred e n (tlam (args2 id_cmp_x id_cmp_y) (T kCompare [] [[nm_load id_cmp_x]; ops; nm_load id_cmp_y :: crest])) [l; c0])
  = Some [T kCompare [] [[l']; ops; c0' :: crest']].
Proof.
  intros Ho Hc Hl H0. unfold emit_deferred.
  assert (Hbody : erase (T kCompare [] [[nm_load id_cmp_x]; ops; nm_load id_cmp_y :: crest])
                  = Some [T kCompare [] [[nm_load id_cmp_x]; ops; nm_load id_cmp_y :: crest']]).
  { rewrite erase_T, !erase_fields_cons, !erase_list_cons, !erase_nm_load, Ho, Hc, !erase_list_nil, erase_fields_nil. cbn [app]. reflexivity. }
  rewrite erase_T, !erase_fields_cons, !erase_list_cons, (erase_emit_thunk e n _ _ _ (erase_args2 id_cmp_x id_cmp_y) Hbody), Hl, H0,
    !erase_list_nil, erase_fields_nil. cbn [app].
  unfold post. change (N.eqb kCall kCall) with true. cbv iota.
  rewrite (emit_parts_not_emit [] _ _ _ (emit_call_not_name e n _)).
  reflexivity.
Qed.

(* ---- statement-level shapes *)
Lemma erase_emit_call_noret e n : erase (emit_call e n []) = Some [emit_call e n []].
Proof. reflexivity. Qed.
Lemma erase_stmt_emit_noret e n : erase (stmt_emit e n []) = Some [].
Proof. reflexivity. Qed.
Lemma erase_thunk_call : erase thunk_call = Some [thunk_call].
Proof. reflexivity. Qed.

Definition plain (t : tree) : Prop := tlam_parts t = None /\ emit_parts t = None.

Lemma erase_stmt_emit_ret e n v v' : erase v = Some [v'] -> plain v' -> special_ev e = false ->
  erase (stmt_emit e n [kw id_ret v]) = Some [expr_stmt v'].
Proof.
  intros Hv [Ht He] Hs. unfold stmt_emit, expr_stmt.
  assert (Hc : erase (emit_call e n [kw id_ret v]) = Some [v']).
  { unfold emit_call. rewrite erase_T, !erase_fields_cons, !erase_list_cons, erase_nm_load, erase_cst_ev, erase_cst_nid,
      (erase_kw id_ret v v' Hv), !erase_list_nil, erase_fields_nil. cbn [app].
    unfold post. change (N.eqb kCall kCall) with true. cbv iota.
    unfold emit_parts, nm_load, cst_ev, cst_nid. cbn [name_is].
    change (N.eqb kCall kCall && (N.eqb kName kName && N.eqb id_emit id_emit) && N.eqb kConstant kConstant && N.eqb kConstant kConstant) with true.
    cbv iota. unfold kw_value, kw. cbn [find].
    change (N.eqb kkeyword kkeyword && N.eqb id_ret id_ret) with true. cbv iota.
    rewrite Ht. unfold special_ev in Hs. now rewrite Hs. }
  rewrite erase_T, erase_fields_cons, erase_list_cons, Hc, erase_list_nil, erase_fields_nil. cbn [app].
  unfold post. change (N.eqb kExpr kCall) with false. change (N.eqb kExpr kIfExp) with false. change (N.eqb kExpr kIf) with false.
  change (N.eqb kExpr kTry) with false. change (N.eqb kExpr kExpr) with true. cbv iota. now rewrite He.
Qed.

Lemma plain_thunk_call : plain thunk_call.
Proof. split; reflexivity. Qed.

(* the after_module_stmt line:  EMIT(after_module_stmt, id, ret=EMIT(_load_saved_expr_stmt_ret, id))  ->  nothing *)
Lemma erase_after_module_stmt n :
  erase (stmt_emit E_after_module_stmt n [kw id_ret (emit_call E_priv_load_saved_expr_stmt_ret n [])]) = Some [].
Proof. reflexivity. Qed.

(* if EMIT(before_stmt, id): EXEC_SAVED_THUNK() [...]  else: S  ->  S *)
Lemma erase_before_stmt_if n b o o' : erase_list b = Some [expr_stmt thunk_call] -> erase_list o = Some o' ->
  erase (T kIf [] [[emit_call E_before_stmt n []]; b; o]) = Some o'.
Proof.
  intros Hb Ho. rewrite erase_T, !erase_fields_cons, !erase_list_cons, erase_emit_call_noret, Hb, Ho, !erase_list_nil, erase_fields_nil. cbn [app].
  reflexivity.
Qed.

(* ---- the inner loops of the model, named (convertible with the anonymous ones) *)
Section Loops.
  Variable c : rcfg.
  Fixpoint gol (u : list tree) (j : N) {struct u} : list tree :=
    match u with [] => [] | x :: u' => rwe c x j :: gol u' (j + nsize x) end.
  Fixpoint gof (l : list (list tree)) (i : N) {struct l} : list (list tree) :=
    match l with [] => [] | f :: l' => gol f i :: gof l' (i + nsizes f) end.
  Fixpoint goc (u : list tree) (j : N) {struct u} : list tree :=
    match u with
    | [] => []
    | x :: u' => wrap_if (sub c E_compare_arg) (emit_ret E_compare_arg j) (rwe c x j) :: goc u' (j + nsize x)
    end.

  Lemma rwe_generic k sc fs n :
    N.eqb k kName = false -> N.eqb k kConstant = false -> N.eqb k kBinOp = false -> N.eqb k kCompare = false ->
    rwe c (T k sc fs) n = T k sc (gof fs (n + 1)).
  Proof. intros H1 H2 H3 H4. cbn [rwe]. rewrite H1, H2, H3, H4. reflexivity. Qed.

  Lemma rwe_name sc fs n :
    rwe c (T kName sc fs) n = if is_load fs && sub c E_load_name then emit_ret E_load_name n (T kName sc fs) else T kName sc fs.
  Proof. reflexivity. Qed.
  Lemma rwe_constant sc fs n :
    rwe c (T kConstant sc fs) n =
      match const_event sc with Some e => if sub c e then emit_ret e n (T kConstant sc fs) else T kConstant sc fs | None => T kConstant sc fs end.
  Proof. reflexivity. Qed.
  Lemma rwe_binop l op r n :
    rwe c (T kBinOp [] [[l]; [op]; [r]]) n =
      let nl := n + 1 in
      let nr := n + 1 + nsize l + nsize op in
      let l' := wrap_if (sub c E_left_binop_arg) (emit_ret E_left_binop_arg nl) (rwe c l nl) in
      let r' := wrap_if (sub c E_right_binop_arg) (emit_ret E_right_binop_arg nr) (rwe c r nr) in
      let node := T kBinOp [] [[l']; [op]; [r']] in
      let ret := if sub c E_before_binop
                 then emit_deferred E_before_binop n (tlam (args2 id_x id_y) (T kBinOp [] [[nm_load id_x]; [op]; [nm_load id_y]])) [l'; r']
                 else node in
      wrap_if (sub c E_after_binop) (emit_ret E_after_binop n) ret.
  Proof. reflexivity. Qed.
  Lemma rwe_compare l ops comps n :
    rwe c (T kCompare [] [[l]; ops; comps]) n =
      let nl := n + 1 in
      let nc := n + 1 + nsize l + nsizes ops in
      let l' := wrap_if (sub c E_left_compare_arg) (emit_ret E_left_compare_arg nl) (rwe c l nl) in
      let comps' := goc comps nc in
      let node := T kCompare [] [[l']; ops; comps'] in
      let ret := if sub c E_before_compare
                 then match comps' with
                      | c0 :: crest =>
                          emit_deferred E_before_compare n
                            (tlam (args2 id_cmp_x id_cmp_y) (T kCompare [] [[nm_load id_cmp_x]; ops; nm_load id_cmp_y :: crest])) [l'; c0]
                      | [] => node
                      end
                 else node in
      wrap_if (sub c E_after_compare) (emit_ret E_after_compare n) ret.
  Proof. reflexivity. Qed.
End Loops.

(* ---- nodes that are not calls carry no instrumentation shape *)
Lemma tlam_parts_not_call k sc fs : N.eqb k kCall = false -> tlam_parts (T k sc fs) = None.
Proof.
  intros H. unfold tlam_parts.
  repeat (match goal with |- context [match ?x with _ => _ end] => is_var x; destruct x end; try reflexivity).
  all: rewrite H; reflexivity.
Qed.
Lemma emit_parts_not_call k sc fs : N.eqb k kCall = false -> emit_parts (T k sc fs) = None.
Proof.
  intros H. unfold emit_parts.
  repeat (match goal with |- context [match ?x with _ => _ end] => is_var x; destruct x end; try reflexivity).
  all: rewrite H; reflexivity.
Qed.
Lemma plain_not_call k sc fs : N.eqb k kCall = false -> plain (T k sc fs).
Proof. intros H. split; [now apply tlam_parts_not_call|now apply emit_parts_not_call]. Qed.

Section Main.
  Variable c : rcfg.

  Definition Good (t : tree) : Prop :=
    (forall n, erase (rwe c t n) = Some [t]) /\ erase t = Some [t] /\ plain t /\ is_guard_test t = false.

  Lemma gol_ok f : Forall Good f -> (forall j, erase_list (gol c f j) = Some f) /\ erase_list f = Some f.
  Proof.
    induction 1 as [|x f [Hx [Hx' _]] _ [IH1 IH2]]; [split; reflexivity|]. split.
    - intros j. cbn [gol]. now rewrite erase_list_cons, Hx, IH1.
    - now rewrite erase_list_cons, Hx', IH2.
  Qed.
  Lemma gof_ok fs : Forall (Forall Good) fs -> (forall i, erase_fields (gof c fs i) = Some fs) /\ erase_fields fs = Some fs.
  Proof.
    induction 1 as [|f fs Hf _ [IH1 IH2]]; [split; reflexivity|]. destruct (gol_ok f Hf) as [G1 G2]. split.
    - intros i. cbn [gof]. now rewrite erase_fields_cons, G1, IH1.
    - now rewrite erase_fields_cons, G2, IH2.
  Qed.
  Lemma goc_ok comps : Forall Good comps -> forall j, Forall2 (fun x y => erase x = Some [y]) (goc c comps j) comps.
  Proof.
    induction 1 as [|x f [Hx [_ [[Ht _] _]]] _ IH]; intros j; cbn [goc]; constructor; [|apply IH].
    unfold wrap_if. destruct (sub c E_compare_arg); [|apply Hx]. apply erase_emit_ret; [apply Hx|exact Ht|reflexivity].
  Qed.

  Lemma in_frag_e_T k sc fs : in_frag_e (T k sc fs) =
    (let kids := forallb (forallb in_frag_e) fs in
      if leaf_kind k then match sc, fs with [], [] => true | _, _ => false end
      else if N.eqb k kName then match sc, fs with [SId x], [[T kc [] []]] => negb (reserved x) && (N.eqb kc kLoad || N.eqb kc kStore) | _, _ => false end
      else if N.eqb k kConstant then match sc, fs with [v; SNone], [] => match const_event sc with Some _ => true | None => false end | _, _ => false end
      else if N.eqb k kBinOp then match sc, fs with [], [[_]; [_]; [_]] => kids | _, _ => false end
      else if N.eqb k kCompare then match sc, fs with [], [[_]; ops; comps] => kids && Nat.eqb (length ops) (length comps) && negb (Nat.eqb (length comps) 0) | _, _ => false end
      else if N.eqb k kUnaryOp then match sc, fs with [], [[_]; [_]] => kids | _, _ => false end
      else if N.eqb k kBoolOp then match sc, fs with [], [[_]; vs] => kids && negb (Nat.eqb (length vs) 0) | _, _ => false end
      else if N.eqb k kIfExp then match sc, fs with [], [[_]; [_]; [_]] => kids | _, _ => false end
      else false).
  Proof. reflexivity. Qed.

  Lemma kids_good fs : Forall (Forall (fun t => in_frag_e t = true -> Good t)) fs -> forallb (forallb in_frag_e) fs = true ->
    Forall (Forall Good) fs.
  Proof.
    induction 1 as [|f fs Hf _ IH]; intros H; [constructor|]. cbn [forallb] in H. apply andb_prop in H as [H1 H2].
    constructor; [|now apply IH]. clear -Hf H1. induction Hf as [|x f Hx _ IHf]; [constructor|].
    cbn [forallb] in H1. apply andb_prop in H1 as [A B]. constructor; auto.
  Qed.

  Lemma leaf_kind_cases k : leaf_kind k = true ->
    N.eqb k kName = false /\ N.eqb k kConstant = false /\ N.eqb k kBinOp = false /\ N.eqb k kCompare = false /\
    N.eqb k kCall = false /\ N.eqb k kIfExp = false /\ N.eqb k kIf = false /\ N.eqb k kTry = false /\ N.eqb k kExpr = false /\
    N.eqb k kSubscript = false /\ N.eqb k kBoolOp = false.
  Proof.
    unfold leaf_kind. cbn [existsb]. intros H.
    repeat (apply orb_prop in H; destruct H as [H|H]); try discriminate; apply N.eqb_eq in H; subst k; repeat split; reflexivity.
  Qed.

  Lemma name_is_false_kind x k sc fs : N.eqb k kName = false -> name_is x (T k sc fs) = false.
  Proof. intros H. unfold name_is. destruct sc as [|[] ?]; try reflexivity. now rewrite H. Qed.

  Lemma guard_test_other k sc fs : N.eqb k kName = false -> N.eqb k kBoolOp = false -> is_guard_test (T k sc fs) = false.
  Proof.
    intros H1 H2. unfold is_guard_test. rewrite !name_is_false_kind by assumption. cbn [orb].
    destruct sc; [|reflexivity]. destruct fs as [|[|[ka ? ?|] [|? ?]] [|[|v ?] [|? ?]]]; try reflexivity. all: now rewrite H2.
  Qed.
End Main.

Lemma wrap_emit_ok (b : bool) e n x x0 : erase x = Some [x0] -> tlam_parts x0 = None -> special_ev e = false ->
  erase (wrap_if b (emit_ret e n) x) = Some [x0].
Proof. intros H Ht Hs. unfold wrap_if. destruct b; [now apply erase_emit_ret|exact H]. Qed.

Lemma guard_test_names t : is_guard_test t = false -> name_is id_te t = false /\ name_is id_fte t = false.
Proof.
  unfold is_guard_test. intros H. apply orb_false_elim in H as [H _]. now apply orb_false_elim in H.
Qed.

Theorem rwe_erase (c : rcfg) : forall t, in_frag_e t = true -> Good c t.
Proof.
  induction t as [|k sc fs IH] using tree_ind2; intros H; [discriminate|].
  rewrite in_frag_e_T in H. cbv zeta in H.
  destruct (leaf_kind k) eqn:Elk.
  { destruct sc; [|discriminate]. destruct fs; [|discriminate].
    destruct (leaf_kind_cases k Elk) as (N1&N2&N3&N4&N5&N6&N7&N8&N9&N10&N11).
    assert (E : erase (T k [] []) = Some [T k [] []]) by (apply erase_leaf; assumption).
    split; [|split; [|split]].
    - intros n. rewrite rwe_generic by assumption. exact E.
    - exact E.
    - now apply plain_not_call.
    - now apply guard_test_other. }
  destruct (N.eqb k kName) eqn:Ek.
  { apply N.eqb_eq in Ek; subst k.
    destruct sc as [|[| | | |x| | |] [|]]; try discriminate.
    destruct fs as [|[|[kc [|] [|]|] [|]] [|]]; try discriminate.
    apply andb_prop in H as [Hr Hc].
    assert (Ectx : erase (T kc [] []) = Some [T kc [] []])
      by (apply orb_prop in Hc as [Hc|Hc]; apply N.eqb_eq in Hc; subst; reflexivity).
    set (t := T kName [SId x] [[T kc [] []]]).
    assert (E : erase t = Some [t])
      by (unfold t; rewrite erase_T, erase_fields_cons, erase_list_cons, Ectx, erase_list_nil, erase_fields_nil; reflexivity).
    assert (Pl : plain t) by (apply plain_not_call; reflexivity).
    split; [|split; [|split]].
    - intros n. unfold t. rewrite rwe_name. fold t. destruct (is_load _ && sub c E_load_name); [|exact E].
      apply erase_emit_ret; [exact E|apply Pl|reflexivity].
    - exact E.
    - exact Pl.
    - unfold reserved in Hr. apply negb_true_iff in Hr. apply N.ltb_ge in Hr.
      unfold is_guard_test, t, name_is.
      assert (A : N.eqb x id_te = false) by (apply N.eqb_neq; unfold id_te; lia).
      assert (B : N.eqb x id_fte = false) by (apply N.eqb_neq; unfold id_fte; lia).
      rewrite A, B. reflexivity. }
  destruct (N.eqb k kConstant) eqn:Ec.
  { apply N.eqb_eq in Ec; subst k.
    destruct sc as [|v [|[| | | | | | |] [|]]]; try discriminate. destruct fs; [|discriminate].
    destruct (const_event [v; SNone]) as [e|] eqn:Ece; [|discriminate].
    set (t := T kConstant [v; SNone] []).
    assert (E : erase t = Some [t]) by reflexivity.
    assert (Pl : plain t) by (apply plain_not_call; reflexivity).
    assert (Hs : special_ev e = false) by (destruct v; cbn in Ece; inversion Ece; subst; reflexivity).
    split; [|split; [|split]].
    - intros n. unfold t. rewrite rwe_constant, Ece. fold t. destruct (sub c e); [|exact E].
      apply erase_emit_ret; [exact E|apply Pl|exact Hs].
    - exact E.
    - exact Pl.
    - apply guard_test_other; reflexivity. }
  destruct (N.eqb k kBinOp) eqn:Eb.
  { apply N.eqb_eq in Eb; subst k.
    destruct sc; [|discriminate]. destruct fs as [|[|l [|]] [|[|op [|]] [|[|r [|]] [|]]]]; try discriminate.
    pose proof (kids_good c _ IH H) as G.
    inversion G as [|? ? Gl G1]; subst. inversion G1 as [|? ? Go G2]; subst. inversion G2 as [|? ? Gr _]; subst.
    inversion Gl as [|? ? [Hl [Hl' [[Tl _] _]]] _]; subst. inversion Go as [|? ? [_ [Ho' _]] _]; subst.
    inversion Gr as [|? ? [Hr [Hr' [[Tr _] _]]] _]; subst.
    set (t := T kBinOp [] [[l]; [op]; [r]]).
    assert (E : erase t = Some [t])
      by (unfold t; rewrite erase_T, !erase_fields_cons, !erase_list_cons, Hl', Ho', Hr', !erase_list_nil, erase_fields_nil; reflexivity).
    assert (Pl : plain t) by (apply plain_not_call; reflexivity).
    split; [|split; [|split]].
    - intros n. unfold t. rewrite rwe_binop. cbv zeta.
      set (L := wrap_if (sub c E_left_binop_arg) _ _). set (R := wrap_if (sub c E_right_binop_arg) _ _).
      assert (EL : erase L = Some [l]) by (apply wrap_emit_ok; [apply Hl|exact Tl|reflexivity]).
      assert (ER : erase R = Some [r]) by (apply wrap_emit_ok; [apply Hr|exact Tr|reflexivity]).
      apply wrap_emit_ok; [|apply Pl|reflexivity].
      destruct (sub c E_before_binop).
      + now apply erase_binop_thunk.
      + rewrite erase_T, !erase_fields_cons, !erase_list_cons, EL, Ho', ER, !erase_list_nil, erase_fields_nil. reflexivity.
    - exact E.
    - exact Pl.
    - apply guard_test_other; reflexivity. }
  destruct (N.eqb k kCompare) eqn:Ecmp.
  { apply N.eqb_eq in Ecmp; subst k.
    destruct sc; [|discriminate]. destruct fs as [|[|l [|]] [|ops [|comps [|]]]]; try discriminate.
    apply andb_prop in H as [H Hne]. apply andb_prop in H as [H _].
    pose proof (kids_good c _ IH H) as G.
    inversion G as [|? ? Gl G1]; subst. inversion G1 as [|? ? Gops G2]; subst. inversion G2 as [|? ? Gcs _]; subst.
    inversion Gl as [|? ? [Hl [Hl' [[Tl _] _]]] _]; subst.
    destruct (gol_ok c ops Gops) as [_ Eops]. destruct (gol_ok c comps Gcs) as [_ Ecs].
    set (t := T kCompare [] [[l]; ops; comps]).
    assert (E : erase t = Some [t])
      by (unfold t; rewrite erase_T, !erase_fields_cons, !erase_list_cons, Hl', Eops, Ecs, !erase_list_nil, erase_fields_nil; reflexivity).
    assert (Pl : plain t) by (apply plain_not_call; reflexivity).
    split; [|split; [|split]].
    - intros n. unfold t. rewrite rwe_compare. cbv zeta.
      set (L := wrap_if (sub c E_left_compare_arg) _ _).
      assert (EL : erase L = Some [l]) by (apply wrap_emit_ok; [apply Hl|exact Tl|reflexivity]).
      pose proof (goc_ok c comps Gcs (n + 1 + nsize l + nsizes ops)) as F2.
      apply wrap_emit_ok; [|apply Pl|reflexivity].
      assert (Enode : erase (T kCompare [] [[L]; ops; goc c comps (n + 1 + nsize l + nsizes ops)]) = Some [t]).
      { rewrite erase_T, !erase_fields_cons, !erase_list_cons, EL, Eops, (erase_list_singles _ _ F2), !erase_list_nil, erase_fields_nil. reflexivity. }
      destruct (sub c E_before_compare); [|exact Enode].
      destruct comps as [|c0 crest]; [discriminate|]. cbn [goc] in F2 |- *.
      inversion F2 as [|? ? ? ? F0 Frest]; subst.
      apply erase_compare_thunk; [exact Eops|now apply erase_list_singles|exact EL|exact F0].
    - exact E.
    - exact Pl.
    - apply guard_test_other; reflexivity. }
  (* the kinds handled by generic_visit *)
  assert (Gen : forall n, rwe c (T k sc fs) n = T k sc (gof c fs (n + 1))) by (intros n; now apply rwe_generic).
  destruct (N.eqb k kUnaryOp) eqn:Eu.
  { apply N.eqb_eq in Eu; subst k.
    destruct sc; [|discriminate]. destruct fs as [|[|a [|]] [|[|b [|]] [|]]]; try discriminate.
    pose proof (kids_good c _ IH H) as G. destruct (gof_ok c _ G) as [G1 G2].
    split; [|split; [|split]].
    - intros n. rewrite Gen, erase_T, G1. reflexivity.
    - rewrite erase_T, G2. reflexivity.
    - apply plain_not_call; reflexivity.
    - apply guard_test_other; reflexivity. }
  destruct (N.eqb k kBoolOp) eqn:Ebo.
  { apply N.eqb_eq in Ebo; subst k.
    destruct sc; [|discriminate]. destruct fs as [|[|opn [|]] [|vs [|]]]; try discriminate.
    apply andb_prop in H as [H Hne].
    pose proof (kids_good c _ IH H) as G. destruct (gof_ok c _ G) as [G1 G2].
    split; [|split; [|split]].
    - intros n. rewrite Gen, erase_T, G1. reflexivity.
    - rewrite erase_T, G2. reflexivity.
    - apply plain_not_call; reflexivity.
    - inversion G as [|? ? _ G']; subst. inversion G' as [|? ? Gvs _]; subst.
      unfold is_guard_test. rewrite !name_is_false_kind by reflexivity. cbn [orb].
      destruct opn as [ka ? ?|]; [|reflexivity]. destruct vs as [|v vs']; [reflexivity|].
      inversion Gvs as [|? ? [_ [_ [_ Gv]]] _]; subst. destruct (guard_test_names v Gv) as [A B]. rewrite A, B.
      now rewrite !andb_false_r. }
  destruct (N.eqb k kIfExp) eqn:Eie; [|discriminate].
  apply N.eqb_eq in Eie; subst k.
  destruct sc; [|discriminate]. destruct fs as [|[|a [|]] [|[|b [|]] [|[|o [|]] [|]]]]; try discriminate.
  pose proof (kids_good c _ IH H) as G. destruct (gof_ok c _ G) as [G1 G2].
  inversion G as [|? ? Ga _]; subst. inversion Ga as [|? ? [_ [_ [_ Gt]]] _]; subst.
  split; [|split; [|split]].
  - intros n. rewrite Gen, erase_T, G1. unfold post.
    change (N.eqb kIfExp kCall) with false. change (N.eqb kIfExp kIfExp) with true. cbv iota. now rewrite Gt.
  - rewrite erase_T, G2. unfold post.
    change (N.eqb kIfExp kCall) with false. change (N.eqb kIfExp kIfExp) with true. cbv iota. now rewrite Gt.
  - apply plain_not_call; reflexivity.
  - apply guard_test_other; reflexivity.
Qed.

(* ---- statements *)
Section Stmts.
  Variable c : rcfg.
  Fixpoint bl (u : list tree) (j : N) {struct u} : list tree :=
    match u with [] => [] | x :: u' => rws c false x j ++ bl u' (j + nsize x) end.

  Definition main_of (k : N) (sc : list scalar) (fs : list (list tree)) (n : N) : tree :=
    let s := T k sc fs in
    if N.eqb k kExpr then
      match fs with
      | [[v]] => T k sc [[wrap_if (sub c E_after_expr_stmt) (emit_ret E_after_expr_stmt n) (rwe c v (n + 1))]]
      | _ => s
      end
    else if N.eqb k kAssign then
      match fs with
      | [targets; [v]] =>
          let nv := n + 1 + nsizes targets in
          let v1 := rwe c v nv in
          let v2 := if sub c E_before_assign_rhs then emit_deferred E_before_assign_rhs nv (tlam no_args v1) [] else v1 in
          T k sc [targets; [wrap_if (sub c E_after_assign_rhs) (emit_ret E_after_assign_rhs nv) v2]]
      | _ => s
      end
    else if N.eqb k kIf then
      match fs with
      | [[test]; b; o] =>
          let nb := n + 1 + nsize test in
          T k sc [[wrap_if (sub c E_after_if_test) (emit_ret E_after_if_test n) (rwe c test (n + 1))]; bl b nb; bl o (nb + nsizes b)]
      | _ => s
      end
    else s.

  Definition main_and_after (is_module : bool) (n : N) (m : tree) (m_is_expr : bool) (m_value : tree) : list tree :=
    if sub c E_after_stmt || (sub c E_after_module_stmt && is_module) then
      if m_is_expr && is_module then [stmt_emit E_after_stmt n [kw id_ret m_value]]
      else [m; stmt_emit E_after_stmt n []]
    else [m].

  Lemma rws_T is_module k sc fs n :
    rws c is_module (T k sc fs) n =
      let main := main_of k sc fs n in
      let own := main_and_after is_module n main (N.eqb k kExpr) (match main with T _ _ [[v]] => v | _ => main end) in
      let expanded :=
        if sub c E_before_stmt
        then [T kIf [] [[emit_call E_before_stmt n []]; main_and_after is_module n (expr_stmt thunk_call) true thunk_call; own]]
        else own in
      if is_module && sub c E_after_module_stmt
      then expanded ++ [stmt_emit E_after_module_stmt n [kw id_ret (emit_call E_priv_load_saved_expr_stmt_ret n [])]]
      else expanded.
  Proof. reflexivity. Qed.

  Lemma erase_expr_stmt v : erase v = Some [v] -> emit_parts v = None -> erase (expr_stmt v) = Some [expr_stmt v].
  Proof.
    intros H He. unfold expr_stmt. rewrite erase_T, erase_fields_cons, erase_list_cons, H, erase_list_nil, erase_fields_nil. cbn [app].
    unfold post. change (N.eqb kExpr kCall) with false. change (N.eqb kExpr kIfExp) with false. change (N.eqb kExpr kIf) with false.
    change (N.eqb kExpr kTry) with false. change (N.eqb kExpr kExpr) with true. cbv iota. now rewrite He.
  Qed.

  (* the replacement branch of a before_stmt expansion erases to the single statement EXEC_SAVED_THUNK() *)
  Lemma thunk_branch_ok is_module n :
    erase_list (main_and_after is_module n (expr_stmt thunk_call) true thunk_call) = Some [expr_stmt thunk_call].
  Proof.
    unfold main_and_after. destruct (sub c E_after_stmt || (sub c E_after_module_stmt && is_module)).
    - destruct is_module; cbn [andb].
      + rewrite erase_list_cons, (erase_stmt_emit_ret E_after_stmt n thunk_call thunk_call erase_thunk_call plain_thunk_call eq_refl), erase_list_nil. reflexivity.
      + reflexivity.
    - reflexivity.
  Qed.

  (* the whole expansion of a statement, given what its own rewritten form erases to *)
  Lemma expansion_ok is_module k sc fs n (s0 : tree) :
    let main := main_of k sc fs n in
    erase main = Some [s0] ->
    (N.eqb k kExpr = true -> exists v v0, main = T k sc [[v]] /\ s0 = expr_stmt v0 /\ erase v = Some [v0] /\ plain v0) ->
    erase_list (rws c is_module (T k sc fs) n) = Some [s0].
  Proof.
    intros main Hm Hexpr. rewrite rws_T. fold main. cbv zeta.
    set (own := main_and_after is_module n main (N.eqb k kExpr) _).
    assert (Hown : erase_list own = Some [s0]).
    { unfold own, main_and_after. destruct (sub c E_after_stmt || (sub c E_after_module_stmt && is_module)).
      - destruct (N.eqb k kExpr) eqn:Ek; cbn [andb].
        + destruct (Hexpr eq_refl) as (v & v0 & Em & Es & Ev & Pv). destruct is_module.
          * rewrite Em. rewrite erase_list_cons, (erase_stmt_emit_ret E_after_stmt n v v0 Ev Pv eq_refl), erase_list_nil. now rewrite Es.
          * rewrite !erase_list_cons, Hm, erase_stmt_emit_noret, erase_list_nil. reflexivity.
        + rewrite !erase_list_cons, Hm, erase_stmt_emit_noret, erase_list_nil. reflexivity.
      - now rewrite erase_list_cons, Hm, erase_list_nil. }
    assert (Hexp : erase_list (if sub c E_before_stmt
                               then [T kIf [] [[emit_call E_before_stmt n []]; main_and_after is_module n (expr_stmt thunk_call) true thunk_call; own]]
                               else own) = Some [s0]).
    { destruct (sub c E_before_stmt); [|exact Hown].
      rewrite erase_list_cons, (erase_before_stmt_if n _ own [s0] (thunk_branch_ok is_module n) Hown), erase_list_nil. reflexivity. }
    destruct (is_module && sub c E_after_module_stmt); [|exact Hexp].
    rewrite erase_list_app, Hexp, erase_list_cons, erase_after_module_stmt, erase_list_nil. reflexivity.
  Qed.

  Lemma bl_ok u : Forall (fun x => forall im n, erase_list (rws c im x n) = Some [x]) u -> forall j, erase_list (bl u j) = Some u.
  Proof.
    induction 1 as [|x u Hx _ IH]; intros j; [reflexivity|]. cbn [bl]. now rewrite erase_list_app, Hx, IH.
  Qed.
End Stmts.

Section StmtMain.
  Variable c : rcfg.

  Lemma in_frag_s_T k sc fs : in_frag_s (T k sc fs) =
    (if N.eqb k kExpr then match sc, fs with [], [[v]] => in_frag_e v | _, _ => false end
     else if N.eqb k kAssign then match sc, fs with [SNone], [targets; [v]] => forallb in_frag_e targets && negb (Nat.eqb (length targets) 0) && in_frag_e v | _, _ => false end
     else if N.eqb k kPass then match sc, fs with [], [] => true | _, _ => false end
     else if N.eqb k kIf then
       match sc, fs with
       | [], [[test]; b; o] => in_frag_e test && negb (Nat.eqb (length b) 0) && forallb in_frag_s b && forallb in_frag_s o
       | _, _ => false
       end
     else false).
  Proof. reflexivity. Qed.

  Lemma forall_good l : forallb in_frag_e l = true -> Forall (Good c) l.
  Proof.
    induction l as [|x l IH]; intros H; [constructor|]. cbn [forallb] in H. apply andb_prop in H as [A B].
    constructor; [now apply rwe_erase|now apply IH].
  Qed.

  Definition Ps (s : tree) : Prop := in_frag_s s = true -> forall im n, erase_list (rws c im s n) = Some [s].

  Lemma stmts_ok u : Forall Ps u -> forallb in_frag_s u = true -> Forall (fun x => forall im n, erase_list (rws c im x n) = Some [x]) u.
  Proof.
    induction 1 as [|x u Hx _ IH]; intros H; [constructor|]. cbn [forallb] in H. apply andb_prop in H as [A B].
    constructor; [now apply Hx|now apply IH].
  Qed.

  Theorem rws_erase : forall s, Ps s.
  Proof.
    induction s as [|k sc fs IH] using tree_ind2; intros H; [discriminate|]. intros im n.
    rewrite in_frag_s_T in H.
    destruct (N.eqb k kExpr) eqn:Ee.
    { apply N.eqb_eq in Ee; subst k. destruct sc; [|discriminate]. destruct fs as [|[|v [|]] [|]]; try discriminate.
      destruct (rwe_erase c v H) as (Hv & Hv' & [Tv Ev] & _).
      set (V := wrap_if (sub c E_after_expr_stmt) (emit_ret E_after_expr_stmt n) (rwe c v (n + 1))).
      assert (EV : erase V = Some [v]) by (apply wrap_emit_ok; [apply Hv|exact Tv|reflexivity]).
      apply expansion_ok.
      - change (main_of c kExpr [] [[v]] n) with (T kExpr [] [[V]]).
        rewrite erase_T, erase_fields_cons, erase_list_cons, EV, erase_list_nil, erase_fields_nil. cbn [app].
        unfold post. change (N.eqb kExpr kCall) with false. change (N.eqb kExpr kIfExp) with false. change (N.eqb kExpr kIf) with false.
        change (N.eqb kExpr kTry) with false. change (N.eqb kExpr kExpr) with true. cbv iota. now rewrite Ev.
      - intros _. exists V, v. repeat split; auto. }
    destruct (N.eqb k kAssign) eqn:Ea.
    { apply N.eqb_eq in Ea; subst k. destruct sc as [|[| | | | | | |] [|]]; try discriminate.
      destruct fs as [|targets [|[|v [|]] [|]]]; try discriminate.
      apply andb_prop in H as [H Hv]. apply andb_prop in H as [Ht _].
      destruct (rwe_erase c v Hv) as (Hv1 & _ & [Tv _] & _).
      destruct (gol_ok c targets (forall_good targets Ht)) as [_ Et].
      apply expansion_ok; [|discriminate].
      change (main_of c kAssign [SNone] [targets; [v]] n) with
        (T kAssign [SNone] [targets; [wrap_if (sub c E_after_assign_rhs) (emit_ret E_after_assign_rhs (n + 1 + nsizes targets))
           (if sub c E_before_assign_rhs then emit_deferred E_before_assign_rhs (n + 1 + nsizes targets) (tlam no_args (rwe c v (n + 1 + nsizes targets))) []
            else rwe c v (n + 1 + nsizes targets))]]).
      set (V := wrap_if _ _ _).
      assert (EV : erase V = Some [v]).
      { apply wrap_emit_ok; [|exact Tv|reflexivity]. destruct (sub c E_before_assign_rhs); [apply erase_deferred0|]; apply Hv1. }
      rewrite erase_T, !erase_fields_cons, !erase_list_cons, Et, EV, !erase_list_nil, erase_fields_nil. reflexivity. }
    destruct (N.eqb k kPass) eqn:Ep.
    { apply N.eqb_eq in Ep; subst k. destruct sc; [|discriminate]. destruct fs; [|discriminate].
      apply expansion_ok; [reflexivity|discriminate]. }
    destruct (N.eqb k kIf) eqn:Ei; [|discriminate].
    apply N.eqb_eq in Ei; subst k. destruct sc; [|discriminate]. destruct fs as [|[|test [|]] [|b [|o [|]]]]; try discriminate.
    apply andb_prop in H as [H Ho]. apply andb_prop in H as [H Hb]. apply andb_prop in H as [Ht _].
    destruct (rwe_erase c test Ht) as (Ht1 & _ & [Tt Et] & Gt).
    inversion IH as [|? ? _ IH1]; subst. inversion IH1 as [|? ? IHb IH2]; subst. inversion IH2 as [|? ? IHo _]; subst.
    pose proof (bl_ok c b (stmts_ok b IHb Hb)) as Bb. pose proof (bl_ok c o (stmts_ok o IHo Ho)) as Bo.
    apply expansion_ok; [|discriminate].
    change (main_of c kIf [] [[test]; b; o] n) with
      (T kIf [] [[wrap_if (sub c E_after_if_test) (emit_ret E_after_if_test n) (rwe c test (n + 1))];
                 bl c b (n + 1 + nsize test); bl c o (n + 1 + nsize test + nsizes b)]).
    set (V := wrap_if _ _ _).
    assert (EV : erase V = Some [test]) by (apply wrap_emit_ok; [apply Ht1|exact Tt|reflexivity]).
    rewrite erase_T, !erase_fields_cons, !erase_list_cons, EV, Bb, Bo, !erase_list_nil, erase_fields_nil. cbn [app].
    unfold post. change (N.eqb kIf kCall) with false. change (N.eqb kIf kIfExp) with false. change (N.eqb kIf kIf) with true. cbv iota.
    rewrite Gt. unfold is_emit_of. now rewrite Et.
  Qed.

  Lemma rw_body_ok body : forallb in_frag_s body = true -> forall j, erase_list (rw_body c true body j) = Some body.
  Proof.
    induction body as [|x u IH]; intros H j; [reflexivity|]. cbn [forallb] in H. apply andb_prop in H as [A B].
    change (rw_body c true (x :: u) j) with (rws c true x j ++ rw_body c true u (j + nsize x)).
    now rewrite erase_list_app, (rws_erase x A), IH.
  Qed.

  Lemma erase_docstring_stmt d : is_docstring_strict d = true -> erase d = Some [d].
  Proof.
    destruct d as [k sc fs|]; [|discriminate]. cbn [is_docstring_strict].
    destruct sc as [|? ?]; [|discriminate]. destruct fs as [|[|[kc [|[] sc'] [|? ?]|] [|? ?]] [|? ?]]; try discriminate.
    intros H. apply andb_prop in H as [Hk Hc]. apply N.eqb_eq in Hk, Hc. subst k kc. reflexivity.
  Qed.
  Lemma mod_doc_rest body : mod_doc body ++ mod_rest body = body.
  Proof. destruct body as [|d rest]; [reflexivity|]. unfold mod_doc, mod_rest. now destruct (is_docstring_strict d). Qed.
  Lemma mod_rest_frag body : forallb in_frag_s body = true -> forallb in_frag_s (mod_rest body) = true.
  Proof.
    destruct body as [|d rest]; [reflexivity|]. unfold mod_rest. destruct (is_docstring_strict d); [|auto].
    cbn [forallb]. intros H. now apply andb_prop in H as [_ H].
  Qed.
  Lemma mod_doc_erase body : erase_list (mod_doc body) = Some (mod_doc body).
  Proof.
    destruct body as [|d rest]; [reflexivity|]. unfold mod_doc. destruct (is_docstring_strict d) eqn:Ed; [|reflexivity].
    now rewrite erase_list_cons, (erase_docstring_stmt d Ed), erase_list_nil.
  Qed.

  (* erasing the model's output for a fragment module gives back the module *)
  Theorem rw_module_erase m : in_frag m = true -> erase (rw_module c m) = Some [m].
  Proof.
    intros H. destruct m as [k sc fs|]; [|discriminate]. unfold in_frag in H.
    destruct sc; [|discriminate]. destruct fs as [|body [|[|] [|]]]; try discriminate.
    apply andb_prop in H as [Hk Hb]. apply N.eqb_eq in Hk; subst k.
    pose proof (mod_doc_rest body) as Hs. pose proof (mod_rest_frag body Hb) as Hr. pose proof (mod_doc_erase body) as Hd.
    unfold rw_module. set (D := mod_doc body) in *. set (R := mod_rest body) in *. set (j := mod_start body). clearbody D R j. subst body.
    rewrite erase_T, !erase_fields_cons, !erase_list_app, Hd, (rw_body_ok _ Hr).
    destruct (sub c E_init_module); destruct (sub c E_exit_module);
      rewrite ?erase_list_cons, ?erase_stmt_emit_noret, ?erase_list_nil, ?erase_fields_nil; cbn [app]; rewrite ?app_nil_r; reflexivity.
  Qed.
End StmtMain.

(* ---- the fragment needs none of the deliberate source changes, so the erasure certificate holds for the model's output *)
Lemma norm_T k sc fs :
  N.eqb k kSlice = false -> N.eqb k kExceptHandler = false -> N.eqb k kFunctionDef = false -> N.eqb k kAsyncFunctionDef = false ->
  N.eqb k kFor = false -> N.eqb k kAsyncFor = false -> N.eqb k kWhile = false ->
  norm (T k sc fs) = T k sc (map (map norm) fs).
Proof.
  intros H1 H2 H3 H4 H5 H6 H7. cbn [norm]. rewrite H1, H2, H3, H4, H5, H6, H7. cbn [orb]. reflexivity.
Qed.

Lemma map_id_forall {A} (f : A -> A) l : Forall (fun x => f x = x) l -> map f l = l.
Proof. induction 1 as [|x l H _ IH]; [reflexivity|]. cbn. now rewrite H, IH. Qed.

Lemma norm_frag : forall t, (in_frag_e t = true \/ in_frag_s t = true) -> norm t = t.
Proof.
  induction t as [|k sc fs IH] using tree_ind2; intros H; [destruct H; discriminate|].
  assert (Hfs : forallb (forallb (fun x => in_frag_e x || in_frag_s x)) fs = true /\
                (N.eqb k kSlice = false /\ N.eqb k kExceptHandler = false /\ N.eqb k kFunctionDef = false /\ N.eqb k kAsyncFunctionDef = false /\
                 N.eqb k kFor = false /\ N.eqb k kAsyncFor = false /\ N.eqb k kWhile = false)).
  { destruct H as [H|H].
    - rewrite in_frag_e_T in H. cbv zeta in H.
      assert (K : forallb (forallb in_frag_e) fs = true -> forallb (forallb (fun x => in_frag_e x || in_frag_s x)) fs = true).
      { clear. induction fs as [|f fs IH]; [reflexivity|]. cbn [forallb]. intros H. apply andb_prop in H as [A B]. rewrite (IH B), andb_true_r.
        clear -A. induction f as [|x f IHf]; [reflexivity|]. cbn [forallb] in *. apply andb_prop in A as [A1 A2]. now rewrite A1, (IHf A2). }
      destruct (leaf_kind k) eqn:Elk.
      { destruct sc; [|discriminate]. destruct fs; [|discriminate]. split; [reflexivity|].
        unfold leaf_kind in Elk. cbn [existsb] in Elk.
        repeat (apply orb_prop in Elk; destruct Elk as [Elk|Elk]); try discriminate; apply N.eqb_eq in Elk; subst k; repeat split; reflexivity. }
      destruct (N.eqb k kName) eqn:E1.
      { apply N.eqb_eq in E1; subst k. destruct sc as [|[| | | |x| | |] [|]]; try discriminate.
        destruct fs as [|[|[kc [|] [|]|] [|]] [|]]; try discriminate. split; [|repeat split; reflexivity].
        apply andb_prop in H as [_ Hc]. cbn. apply orb_prop in Hc as [Hc|Hc]; apply N.eqb_eq in Hc; subst kc; reflexivity. }
      destruct (N.eqb k kConstant) eqn:E2.
      { apply N.eqb_eq in E2; subst k. destruct sc as [|v [|[| | | | | | |] [|]]]; try discriminate. destruct fs; [|discriminate].
        split; [reflexivity|repeat split; reflexivity]. }
      destruct (N.eqb k kBinOp) eqn:E3.
      { apply N.eqb_eq in E3; subst k. destruct sc; [|discriminate]. destruct fs as [|[|l [|]] [|[|op [|]] [|[|r [|]] [|]]]]; try discriminate.
        split; [now apply K|repeat split; reflexivity]. }
      destruct (N.eqb k kCompare) eqn:E4.
      { apply N.eqb_eq in E4; subst k. destruct sc; [|discriminate]. destruct fs as [|[|l [|]] [|ops [|comps [|]]]]; try discriminate.
        apply andb_prop in H as [H _]. apply andb_prop in H as [H _]. split; [now apply K|repeat split; reflexivity]. }
      destruct (N.eqb k kUnaryOp) eqn:E5.
      { apply N.eqb_eq in E5; subst k. destruct sc; [|discriminate]. destruct fs as [|[|a [|]] [|[|b [|]] [|]]]; try discriminate.
        split; [now apply K|repeat split; reflexivity]. }
      destruct (N.eqb k kBoolOp) eqn:E6.
      { apply N.eqb_eq in E6; subst k. destruct sc; [|discriminate]. destruct fs as [|[|opn [|]] [|vs [|]]]; try discriminate.
        apply andb_prop in H as [H _]. split; [now apply K|repeat split; reflexivity]. }
      destruct (N.eqb k kIfExp) eqn:E7; [|discriminate].
      apply N.eqb_eq in E7; subst k. destruct sc; [|discriminate]. destruct fs as [|[|a [|]] [|[|b [|]] [|[|o [|]] [|]]]]; try discriminate.
      split; [now apply K|repeat split; reflexivity].
    - rewrite in_frag_s_T in H.
      assert (Ke : forall l, forallb in_frag_e l = true -> forallb (fun x => in_frag_e x || in_frag_s x) l = true).
      { induction l as [|x l IHl]; [reflexivity|]. cbn [forallb]. intros A. apply andb_prop in A as [A1 A2]. now rewrite A1, (IHl A2). }
      assert (Ks : forall l, forallb in_frag_s l = true -> forallb (fun x => in_frag_e x || in_frag_s x) l = true).
      { induction l as [|x l IHl]; [reflexivity|]. cbn [forallb]. intros A. apply andb_prop in A as [A1 A2]. now rewrite A1, orb_true_r, (IHl A2). }
      destruct (N.eqb k kExpr) eqn:E1.
      { apply N.eqb_eq in E1; subst k. destruct sc; [|discriminate]. destruct fs as [|[|v [|]] [|]]; try discriminate.
        split; [cbn; now rewrite H|repeat split; reflexivity]. }
      destruct (N.eqb k kAssign) eqn:E2.
      { apply N.eqb_eq in E2; subst k. destruct sc as [|[| | | | | | |] [|]]; try discriminate.
        destruct fs as [|targets [|[|v [|]] [|]]]; try discriminate.
        apply andb_prop in H as [H Hv]. apply andb_prop in H as [Ht _].
        split; [cbn [forallb]; now rewrite (Ke _ Ht), Hv|repeat split; reflexivity]. }
      destruct (N.eqb k kPass) eqn:E3.
      { apply N.eqb_eq in E3; subst k. destruct sc; [|discriminate]. destruct fs; [|discriminate]. split; [reflexivity|repeat split; reflexivity]. }
      destruct (N.eqb k kIf) eqn:E4; [|discriminate].
      apply N.eqb_eq in E4; subst k. destruct sc; [|discriminate]. destruct fs as [|[|test [|]] [|b [|o [|]]]]; try discriminate.
      apply andb_prop in H as [H Ho]. apply andb_prop in H as [H Hb]. apply andb_prop in H as [Ht _].
      split; [cbn [forallb]; now rewrite Ht, (Ks _ Hb), (Ks _ Ho)|repeat split; reflexivity]. }
  destruct Hfs as [Hfs (N1&N2&N3&N4&N5&N6&N7)].
  rewrite norm_T by assumption. f_equal.
  clear -IH Hfs. induction IH as [|f fs Hf _ IHfs]; [reflexivity|].
  cbn [forallb] in Hfs. apply andb_prop in Hfs as [A B]. cbn [map]. rewrite (IHfs B). f_equal.
  clear -Hf A. induction Hf as [|x f Hx _ IHf]; [reflexivity|].
  cbn [forallb] in A. apply andb_prop in A as [A1 A2]. cbn [map]. rewrite (IHf A2). f_equal.
  apply Hx. apply orb_prop in A1. exact A1.
Qed.

Lemma scalars_eqb_refl sc : scalars_eqb sc sc = true.
Proof.
  induction sc as [|x sc IH]; [reflexivity|]. cbn. rewrite IH, andb_true_r.
  destruct x; cbn; auto using Bool.eqb_reflx, Z.eqb_refl, N.eqb_refl.
Qed.
Lemma tree_eqb_refl : forall t, tree_eqb t t = true.
Proof.
  induction t as [|k sc fs IH] using tree_ind2; [reflexivity|]. cbn [tree_eqb]. rewrite N.eqb_refl, scalars_eqb_refl. cbn [andb].
  induction IH as [|f fs Hf _ IHfs]; [reflexivity|]. rewrite IHfs, andb_true_r.
  induction Hf as [|x f Hx _ IHf]; [reflexivity|]. now rewrite Hx, IHf.
Qed.

(* the module docstring of a fragment module keeps its position in the model's output (the fragment has no other scopes) *)
Theorem rw_module_doc_head c m : in_frag m = true ->
  exists body' ti, rw_module c m = T kModule [] [body'; ti] /\ doc_head_ok body' = true.
Proof.
  intros H. pose proof (rw_module_erase c m H) as E. destruct m as [k sc fs|]; [|discriminate]. unfold in_frag in H.
  destruct sc; [|discriminate]. destruct fs as [|body [|[|] [|]]]; try discriminate.
  apply andb_prop in H as [Hk Hb]. apply N.eqb_eq in Hk; subst k.
  unfold rw_module in *. eexists _, _. split; [reflexivity|].
  set (B := mod_doc body ++ _) in *.
  assert (Eb : erase_stmts B = Some body).
  { change (erase_stmts B) with (erase_list B). rewrite erase_T, !erase_fields_cons, erase_list_nil, erase_fields_nil in E.
    destruct (erase_list B) as [b|]; [|discriminate]. unfold post in E.
    change (N.eqb kModule kCall) with false in E. change (N.eqb kModule kIfExp) with false in E. change (N.eqb kModule kIf) with false in E.
    change (N.eqb kModule kTry) with false in E. change (N.eqb kModule kExpr) with false in E. change (N.eqb kModule kSubscript) with false in E.
    cbv iota in E. congruence. }
  unfold doc_head_ok. rewrite Eb. destruct body as [|d rest]; [reflexivity|].
  destruct (is_docstring_strict d) eqn:Ed; [|reflexivity].
  subst B. unfold mod_doc. rewrite Ed. cbn [app]. apply tree_eqb_refl.
Qed.

Theorem rw_module_certified c m : in_frag m = true -> check_erase m (rw_module c m) = true.
Proof.
  intros H. unfold check_erase. rewrite (rw_module_erase c m H).
  assert (N : norm m = m).
  { destruct m as [k sc fs|]; [|discriminate]. unfold in_frag in H. destruct sc; [|discriminate].
    destruct fs as [|body [|[|] [|]]]; try discriminate. apply andb_prop in H as [Hk Hb]. apply N.eqb_eq in Hk; subst k.
    rewrite norm_T by reflexivity. cbn [map]. do 3 f_equal.
    apply map_id_forall. apply Forall_forall. intros x Hx. apply norm_frag. right. rewrite forallb_forall in Hb. now apply Hb. }
  rewrite N. apply tree_eqb_refl.
Qed.
