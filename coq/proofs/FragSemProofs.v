(* Proofs about model/FragSem.v: the rewriter on typed terms preserves the semantics of every source program of the fragment and
   emits exactly the reference event stream filtered to the subscription (any primitive operations, any environment). *)
From Coq Require Import List ZArith NArith Bool Lia.
Import ListNotations.
From PyccoloV Require Import gen.PyAst gen.Ids gen.Events model.Tree model.Erase model.RwFrag model.FragSem.
Local Open Scope N_scope.

(* ---- source terms *)
Fixpoint src_e (t : texpr) : bool :=
  match t with
  | XName _ _ | XConst _ _ => true
  | XBin _ l _ r => src_e l && src_e r
  | XCmp _ l ops comps => src_e l && forallb src_e comps && Nat.eqb (length ops) (length comps) && negb (Nat.eqb (length comps) 0)
  | XUn _ _ e => src_e e
  | XBool _ _ es => forallb src_e es
  | XIfE _ t a b => src_e t && src_e a && src_e b
  | _ => false
  end.

Section Ind.
Variable P : texpr -> Prop.
Hypothesis HName : forall n x, P (XName n x).
Hypothesis HConst : forall n c, P (XConst n c).
Hypothesis HBin : forall n l op r, P l -> P r -> P (XBin n l op r).
Hypothesis HCmp : forall n l ops comps, P l -> Forall P comps -> P (XCmp n l ops comps).
Hypothesis HUn : forall n op e, P e -> P (XUn n op e).
Hypothesis HBool : forall n op es, Forall P es -> P (XBool n op es).
Hypothesis HIfE : forall n t a b, P t -> P a -> P b -> P (XIfE n t a b).
Hypothesis HEmit : forall e n v, P v -> P (XEmit e n v).
Hypothesis HDefBin : forall n op l r, P l -> P r -> P (XDefBin n op l r).
Hypothesis HDefCmp : forall n ops l c0 crest, P l -> P c0 -> Forall P crest -> P (XDefCmp n ops l c0 crest).
Hypothesis HDefRhs : forall n v, P v -> P (XDefRhs n v).
Hypothesis HLoad : forall n, P (XLoadSaved n).
Hypothesis HThunk : P XThunkCall.
Fixpoint texpr_ind' (t : texpr) : P t :=
  let fix all (l : list texpr) : Forall P l := match l with [] => Forall_nil P | x :: l' => Forall_cons x (texpr_ind' x) (all l') end in
  match t with
  | XName n x => HName n x
  | XConst n c => HConst n c
  | XBin n l op r => HBin n l op r (texpr_ind' l) (texpr_ind' r)
  | XCmp n l ops comps => HCmp n l ops comps (texpr_ind' l) (all comps)
  | XUn n op e => HUn n op e (texpr_ind' e)
  | XBool n op es => HBool n op es (all es)
  | XIfE n t a b => HIfE n t a b (texpr_ind' t) (texpr_ind' a) (texpr_ind' b)
  | XEmit e n v => HEmit e n v (texpr_ind' v)
  | XDefBin n op l r => HDefBin n op l r (texpr_ind' l) (texpr_ind' r)
  | XDefCmp n ops l c0 crest => HDefCmp n ops l c0 crest (texpr_ind' l) (texpr_ind' c0) (all crest)
  | XDefRhs n v => HDefRhs n v (texpr_ind' v)
  | XLoadSaved n => HLoad n
  | XThunkCall => HThunk
  end.
End Ind.

Arguments filter_log : simpl never.

Section Proofs.
Variable binop : N -> val -> val -> res val.
Variable cmpop : N -> val -> val -> res bool.
Variable unop : N -> val -> res val.
Variable truth : val -> bool.
Variable cval : scalar -> val.
Variable is_and : N -> bool.
Variable c : rcfg.

Notation eval_e := (eval_e binop cmpop unop truth cval is_and).
Notation ref_e := (ref_e binop cmpop unop truth cval is_and).

Lemma fl_app a b : filter_log c (a ++ b) = filter_log c a ++ filter_log c b.
Proof. unfold filter_log. apply filter_app. Qed.
Lemma fl_cons e n v l : filter_log c ((e, n, v) :: l) = (if sub c e then [(e, n, v)] else []) ++ filter_log c l.
Proof. unfold filter_log. cbn. destruct (sub c e); reflexivity. Qed.
Lemma fl_nil : filter_log c [] = [].
Proof. reflexivity. Qed.
Lemma fl_emitted e n q : filter_log c (emitted e n q) = if sub c e then emitted e n q else [].
Proof. destruct q; cbn [emitted]; rewrite ?fl_cons, ?fl_nil, ?app_nil_r; destruct (sub c e); reflexivity. Qed.
Lemma fl_idem l : filter_log c (filter_log c l) = filter_log c l.
Proof. unfold filter_log. induction l as [|x l IH]; cbn; [reflexivity|]. destruct (sub c (fst (fst x))) eqn:E; cbn; rewrite ?E, IH; reflexivity. Qed.

Lemma eval_wrap e n t r : eval_e (wrap c e n t) r = let '(q, l) := eval_e t r in (q, l ++ if sub c e then emitted e n q else []).
Proof. unfold wrap. destruct (sub c e); cbn [FragSem.eval_e]; destruct (eval_e t r) as [q l]; [reflexivity|rewrite app_nil_r; reflexivity]. Qed.

(* the comparison chain and the short-circuit fold as functions of their own *)
Definition chain_e (r : env) := fix chain_e (vprev : val) (ops : list N) (comps : list texpr) {struct comps} : res val * list entry :=
  match ops, comps with
  | o :: ops', x :: comps' =>
      match eval_e x r with
      | (Ok vc, lc) =>
          match cmpop o vprev vc with
          | Ok true => match comps' with [] => (Ok (VBool true), lc) | _ => let '(q, lq) := chain_e vc ops' comps' in (q, lc ++ lq) end
          | Ok false => (Ok (VBool false), lc)
          | Err e => (Err e, lc)
          end
      | (Err e, lc) => (Err e, lc)
      end
  | _, _ => (Ok (VBool true), [])
  end.
Definition chain_r (r : env) := fix chain_r (vprev : val) (ops : list N) (comps : list texpr) {struct comps} : res val * list entry :=
  match ops, comps with
  | o :: ops', x :: comps' =>
      match ref_e x r with
      | (Ok vc, lc) =>
          let lc' := lc ++ [(E_compare_arg, xid x, Some vc)] in
          match cmpop o vprev vc with
          | Ok true => match comps' with [] => (Ok (VBool true), lc') | _ => let '(q, lq) := chain_r vc ops' comps' in (q, lc' ++ lq) end
          | Ok false => (Ok (VBool false), lc')
          | Err e => (Err e, lc')
          end
      | (Err e, lc) => (Err e, lc)
      end
  | _, _ => (Ok (VBool true), [])
  end.

Lemma eval_XCmp n l ops comps r :
  eval_e (XCmp n l ops comps) r =
  match eval_e l r with (Ok vl, ll) => let '(q, lq) := chain_e r vl ops comps in (q, ll ++ lq) | (Err e, ll) => (Err e, ll) end.
Proof. reflexivity. Qed.
Lemma ref_XCmp n l ops comps r :
  ref_e (XCmp n l ops comps) r =
  match ref_e l r with
  | (Ok vl, ll) => let '(q, lq) := chain_r r vl ops comps in
                   (q, (E_before_compare, n, None) :: ll ++ [(E_left_compare_arg, xid l, Some vl)] ++ lq ++ emitted E_after_compare n q)
  | (Err e, ll) => (Err e, (E_before_compare, n, None) :: ll)
  end.
Proof. reflexivity. Qed.

Lemma chain_e_cons r vprev o ops x comps :
  chain_e r vprev (o :: ops) (x :: comps) =
  match eval_e x r with
  | (Ok vc, lc) =>
      match cmpop o vprev vc with
      | Ok true => match comps with [] => (Ok (VBool true), lc) | _ => let '(q, lq) := chain_e r vc ops comps in (q, lc ++ lq) end
      | Ok false => (Ok (VBool false), lc)
      | Err e => (Err e, lc)
      end
  | (Err e, lc) => (Err e, lc)
  end.
Proof. reflexivity. Qed.
Lemma chain_r_cons r vprev o ops x comps :
  chain_r r vprev (o :: ops) (x :: comps) =
  match ref_e x r with
  | (Ok vc, lc) =>
      let lc' := lc ++ [(E_compare_arg, xid x, Some vc)] in
      match cmpop o vprev vc with
      | Ok true => match comps with [] => (Ok (VBool true), lc') | _ => let '(q, lq) := chain_r r vc ops comps in (q, lc' ++ lq) end
      | Ok false => (Ok (VBool false), lc')
      | Err e => (Err e, lc')
      end
  | (Err e, lc) => (Err e, lc)
  end.
Proof. reflexivity. Qed.

(* the deferred comparison evaluates both operands of the first comparison, then continues as the chain does *)
Lemma eval_XDefCmp n o ops l c0 crest r :
  eval_e (XDefCmp n (o :: ops) l c0 crest) r =
  match eval_e l r with
  | (Ok vl, ll) => let '(q, lq) := chain_e r vl (o :: ops) (c0 :: crest) in (q, (E_before_compare, n, None) :: ll ++ lq)
  | (Err e, ll) => (Err e, (E_before_compare, n, None) :: ll)
  end.
Proof.
  cbn [FragSem.eval_e]. fold (chain_e r).
  destruct (eval_e l r) as [[vl|e] ll]; [|reflexivity].
  rewrite chain_e_cons.
  destruct (eval_e c0 r) as [[v0|e] l0]; [|reflexivity].
  destruct (cmpop o vl v0) as [[|]|e]; try reflexivity.
  destruct crest as [|c1 crest]; [reflexivity|].
  destruct (chain_e r v0 ops (c1 :: crest)) as [q lq]. reflexivity.
Qed.

Definition bool_e (r : env) (op : N) := fix go (u : list texpr) {struct u} : res val * list entry :=
  match u with
  | [] => (Ok VNone, [])
  | [x] => eval_e x r
  | x :: u' =>
      match eval_e x r with
      | (Ok v, l) => if (if is_and op then negb (truth v) else truth v) then (Ok v, l) else let '(q, lq) := go u' in (q, l ++ lq)
      | (Err e, l) => (Err e, l)
      end
  end.
Definition bool_r (r : env) (op : N) := fix go (u : list texpr) {struct u} : res val * list entry :=
  match u with
  | [] => (Ok VNone, [])
  | [x] => ref_e x r
  | x :: u' =>
      match ref_e x r with
      | (Ok v, l) => if (if is_and op then negb (truth v) else truth v) then (Ok v, l) else let '(q, lq) := go u' in (q, l ++ lq)
      | (Err e, l) => (Err e, l)
      end
  end.
Lemma eval_XBool n op es r : eval_e (XBool n op es) r = bool_e r op es.
Proof. reflexivity. Qed.
Lemma ref_XBool n op es r : ref_e (XBool n op es) r = bool_r r op es.
Proof. reflexivity. Qed.

Ltac flags := repeat match goal with |- context [sub c ?e] => destruct (sub c e) end.
Ltac norm := cbn [app emitted fst snd]; repeat first [rewrite fl_app | rewrite fl_cons | rewrite fl_nil | rewrite fl_emitted]; rewrite ?app_nil_r; cbn [app emitted fst snd].
Ltac fin := norm; flags; cbn [app emitted fst snd]; rewrite ?app_nil_r, <- ?app_assoc; cbn [app]; reflexivity.

Lemma eval_bin_both (b : bool) n op l r0 r :
  eval_e (if b then XDefBin n op l r0 else XBin n l op r0) r =
  (fst (eval_e (XBin n l op r0) r), (if b then [(E_before_binop, n, None)] else []) ++ snd (eval_e (XBin n l op r0) r)).
Proof.
  destruct b; cbn [FragSem.eval_e]; destruct (eval_e l r) as [[vl|e] ll]; try reflexivity;
  destruct (eval_e r0 r) as [[vr|e] lr]; reflexivity.
Qed.

Lemma eval_cmp_both (b : bool) n ops l c0 crest r : length ops = length (c0 :: crest) ->
  eval_e (if b then XDefCmp n ops l c0 crest else XCmp n l ops (c0 :: crest)) r =
  (fst (eval_e (XCmp n l ops (c0 :: crest)) r), (if b then [(E_before_compare, n, None)] else []) ++ snd (eval_e (XCmp n l ops (c0 :: crest)) r)).
Proof.
  intros Hlen. destruct b; [|destruct (eval_e (XCmp n l ops (c0 :: crest)) r); reflexivity].
  destruct ops as [|o ops]; [discriminate|].
  rewrite eval_XDefCmp, eval_XCmp. destruct (eval_e l r) as [[vl|e] ll]; [|reflexivity].
  destruct (chain_e r vl (o :: ops) (c0 :: crest)) as [q lq]. reflexivity.
Qed.

(* the chain over instrumented comparators *)
Lemma chain_ie r comps : Forall (fun t => src_e t = true -> forall r, eval_e (ie c t) r = (fst (ref_e t r), filter_log c (snd (ref_e t r)))) comps ->
  forallb src_e comps = true -> forall vprev ops,
  chain_e r vprev ops (map (fun x => wrap c E_compare_arg (xid x) (ie c x)) comps) =
  (fst (chain_r r vprev ops comps), filter_log c (snd (chain_r r vprev ops comps))).
Proof.
  induction 1 as [|x comps Hx _ IH]; intros Hs vprev ops.
  - destruct ops; reflexivity.
  - cbn [forallb] in Hs. apply andb_true_iff in Hs as [Hsx Hs]. destruct ops as [|o ops]; [reflexivity|].
    cbn [map]. rewrite chain_e_cons, chain_r_cons, eval_wrap, (Hx Hsx).
    destruct (ref_e x r) as [[vc|e] lc]; cbn [fst snd]; [|fin].
    destruct (cmpop o vprev vc) as [[|]|e]; try fin.
    destruct comps as [|y comps]; [fin|].
    cbn [map] in *. rewrite (IH Hs). destruct (chain_r r vc ops (y :: comps)) as [q lq]. fin.
Qed.

Lemma bool_ie r op es : Forall (fun t => src_e t = true -> forall r, eval_e (ie c t) r = (fst (ref_e t r), filter_log c (snd (ref_e t r)))) es ->
  forallb src_e es = true ->
  bool_e r op (map (ie c) es) = (fst (bool_r r op es), filter_log c (snd (bool_r r op es))).
Proof.
  induction 1 as [|x es Hx _ IH]; intros Hs; [reflexivity|].
  cbn [forallb] in Hs. apply andb_true_iff in Hs as [Hsx Hs].
  destruct es as [|y es].
  - cbn [map bool_e bool_r]. apply (Hx Hsx).
  - specialize (IH Hs). cbn [map] in *.
    change (bool_e r op (ie c x :: ie c y :: map (ie c) es)) with
      (match eval_e (ie c x) r with
       | (Ok v, l) => if (if is_and op then negb (truth v) else truth v) then (Ok v, l) else let '(q, lq) := bool_e r op (ie c y :: map (ie c) es) in (q, l ++ lq)
       | (Err e, l) => (Err e, l)
       end).
    change (bool_r r op (x :: y :: es)) with
      (match ref_e x r with
       | (Ok v, l) => if (if is_and op then negb (truth v) else truth v) then (Ok v, l) else let '(q, lq) := bool_r r op (y :: es) in (q, l ++ lq)
       | (Err e, l) => (Err e, l)
       end).
    rewrite (Hx Hsx). destruct (ref_e x r) as [[v|e] l]; cbn [fst snd]; [|reflexivity].
    destruct (if is_and op then negb (truth v) else truth v); [reflexivity|].
    rewrite IH. destruct (bool_r r op (y :: es)) as [q lq]. fin.
Qed.

Theorem eval_ie : forall t, src_e t = true -> forall r,
  eval_e (ie c t) r = (fst (ref_e t r), filter_log c (snd (ref_e t r))).
Proof.
  induction t using texpr_ind'; intros Hs r; try discriminate Hs.
  - (* Name *)
    cbn [ie]. rewrite eval_wrap. cbn [FragSem.eval_e FragSem.ref_e]. destruct (r x) as [v|]; fin.
  - (* Constant *)
    cbn [ie FragSem.ref_e]. destruct (const_ev c0) as [ev|]; [rewrite eval_wrap|]; cbn [FragSem.eval_e]; fin.
  - (* BinOp *)
    cbn [src_e] in Hs. apply andb_true_iff in Hs as [H1 H2].
    cbn [ie]. rewrite eval_wrap, eval_bin_both. cbn [FragSem.eval_e FragSem.ref_e].
    rewrite !eval_wrap, (IHt1 H1), (IHt2 H2).
    destruct (ref_e t1 r) as [[vl|e] ll]; cbn [fst snd]; [|fin].
    destruct (ref_e t2 r) as [[vr|e] lr]; cbn [fst snd]; [|fin].
    destruct (binop op vl vr); fin.
  - (* Compare *)
    cbn [src_e] in Hs. apply andb_true_iff in Hs as [Hs Hne]. apply andb_true_iff in Hs as [Hs Hlen]. apply andb_true_iff in Hs as [H1 Hc].
    apply Nat.eqb_eq in Hlen.
    destruct comps as [|c0 crest]; [cbn in Hne; discriminate Hne|].
    cbn [ie map]. rewrite eval_wrap.
    set (f := fun x => wrap c E_compare_arg (xid x) (ie c x)).
    assert (Hl' : length ops = length (f c0 :: map f crest)) by (cbn [length]; rewrite map_length; exact Hlen).
    rewrite (eval_cmp_both (sub c E_before_compare) n ops _ (f c0) (map f crest) r Hl').
    change (f c0 :: map f crest) with (map f (c0 :: crest)).
    rewrite eval_XCmp, ref_XCmp, eval_wrap, (IHt H1). subst f.
    destruct (ref_e t r) as [[vl|e] ll]; cbn [fst snd]; [|fin].
    rewrite (chain_ie r (c0 :: crest) H Hc).
    destruct (chain_r r vl ops (c0 :: crest)) as [q lq]. cbn [fst snd]. destruct q; fin.
  - (* UnaryOp *)
    cbn [src_e] in Hs. cbn [ie FragSem.eval_e FragSem.ref_e]. rewrite (IHt Hs). destruct (ref_e t r) as [[v|e] l]; reflexivity.
  - (* BoolOp *)
    cbn [src_e] in Hs. cbn [ie]. rewrite eval_XBool, ref_XBool. apply bool_ie; assumption.
  - (* IfExp *)
    cbn [src_e] in Hs. apply andb_true_iff in Hs as [Hs H3]. apply andb_true_iff in Hs as [H1 H2].
    cbn [ie FragSem.eval_e FragSem.ref_e]. rewrite (IHt1 H1). destruct (ref_e t1 r) as [[vc|e] lc]; cbn [fst snd]; [|reflexivity].
    destruct (truth vc); [rewrite (IHt2 H2); destruct (ref_e t2 r)|rewrite (IHt3 H3); destruct (ref_e t3 r)]; fin.
Qed.
End Proofs.

(* ================================================================ statements *)
Fixpoint src_s (s : tstmt) : bool :=
  match s with
  | SExpr _ v | SAssign _ _ v => src_e v
  | SPass _ => true
  | SIf _ t b o => src_e t && forallb src_s b && forallb src_s o
  | _ => false
  end.

Section IndS.
Variable P : tstmt -> Prop.
Hypothesis HExpr : forall n v, P (SExpr n v).
Hypothesis HAssign : forall n xs v, P (SAssign n xs v).
Hypothesis HPass : forall n, P (SPass n).
Hypothesis HIf : forall n t b o, Forall P b -> Forall P o -> P (SIf n t b o).
Hypothesis HEmit : forall e n v, P (SEmit e n v).
Hypothesis HBefore : forall n tb own, Forall P tb -> Forall P own -> P (SBefore n tb own).
Fixpoint tstmt_ind' (s : tstmt) : P s :=
  let fix all (l : list tstmt) : Forall P l := match l with [] => Forall_nil P | x :: l' => Forall_cons x (tstmt_ind' x) (all l') end in
  match s with
  | SExpr n v => HExpr n v
  | SAssign n xs v => HAssign n xs v
  | SPass n => HPass n
  | SIf n t b o => HIf n t b o (all b) (all o)
  | SEmit e n v => HEmit e n v
  | SBefore n tb own => HBefore n tb own (all tb) (all own)
  end.
End IndS.

Section ProofsS.
Variable binop : N -> val -> val -> res val.
Variable cmpop : N -> val -> val -> res bool.
Variable unop : N -> val -> res val.
Variable truth : val -> bool.
Variable cval : scalar -> val.
Variable is_and : N -> bool.
Variable c : rcfg.

Notation eval_e := (eval_e binop cmpop unop truth cval is_and).
Notation ref_e := (ref_e binop cmpop unop truth cval is_and).
Notation exec_s := (exec_s binop cmpop unop truth cval is_and).
Notation exec_l := (exec_l binop cmpop unop truth cval is_and).
Notation ref_s := (ref_s binop cmpop unop truth cval is_and).
Notation ref_l := (ref_l binop cmpop unop truth cval is_and).
Notation ref_module := (ref_module binop cmpop unop truth cval is_and).
Notation ref_module0 := (ref_module0 binop cmpop unop truth cval is_and).

Definition seq (a : sres) (k : env -> val -> sres) : sres :=
  match s_exc a with
  | Some _ => a
  | None => let b := k (s_env a) (s_saved a) in
            {| s_exc := s_exc b; s_env := s_env b; s_saved := s_saved b; s_log := s_log a ++ s_log b |}
  end.
Lemma exec_l_cons x u r sv : exec_l (x :: u) r sv = seq (exec_s x r sv) (exec_l u).
Proof. reflexivity. Qed.
Lemma exec_s_SIf n t b o r sv :
  exec_s (SIf n t b o) r sv =
  let '(q, l) := eval_e t r in
  match q with
  | Ok vt => let a := exec_l (if truth vt then b else o) r sv in
             {| s_exc := s_exc a; s_env := s_env a; s_saved := s_saved a; s_log := l ++ s_log a |}
  | Err e => {| s_exc := Some e; s_env := r; s_saved := sv; s_log := l |}
  end.
Proof. reflexivity. Qed.
Lemma exec_s_SBefore n tb own r sv :
  exec_s (SBefore n tb own) r sv =
  let a := exec_l own r sv in {| s_exc := s_exc a; s_env := s_env a; s_saved := s_saved a; s_log := (E_before_stmt, n, Some VNone) :: s_log a |}.
Proof. reflexivity. Qed.
Lemma ref_l_cons m x u r : ref_l m (x :: u) r =
  let a := ref_s m x r in
  match r_exc a with
  | Some _ => a
  | None => let b := ref_l m u (r_env a) in {| r_exc := r_exc b; r_env := r_env b; r_log := r_log a ++ r_log b |}
  end.
Proof. reflexivity. Qed.
Lemma ref_s_SIf m n t b o r :
  ref_s m (SIf n t b o) r =
  let body : option exc * env * list entry * val :=
    let '(q, l) := ref_e t r in
    match q with
    | Ok vt => let a := ref_l false (if truth vt then b else o) r in (r_exc a, r_env a, l ++ (E_after_if_test, n, Some vt) :: r_log a, VNone)
    | Err e => (Some e, r, l, VNone)
    end in
  let '(x, r', l, v) := body in
  let after_value := if m then v else VNone in
  {| r_exc := x; r_env := r';
     r_log := (E_before_stmt, n, Some VNone) :: l ++
              match x with
              | Some _ => []
              | None => (E_after_stmt, n, Some after_value) :: (if m then [(E_after_module_stmt, n, Some after_value)] else [])
              end |}.
Proof. reflexivity. Qed.

Definition sid (s : tstmt) : N := match s with SExpr n _ | SAssign n _ _ | SPass n | SIf n _ _ _ | SEmit _ n _ | SBefore n _ _ => n end.
Definition main_of (s : tstmt) : tstmt :=
  match s with
  | SExpr n v => SExpr n (wrap c E_after_expr_stmt n (ie c v))
  | SAssign n xs v =>
      let v1 := ie c v in
      let v2 := if sub c E_before_assign_rhs then XDefRhs (xid v) v1 else v1 in
      SAssign n xs (wrap c E_after_assign_rhs (xid v) v2)
  | SIf n t b o => SIf n (wrap c E_after_if_test n (ie c t)) (flat_map (is_ c false) b) (flat_map (is_ c false) o)
  | other => other
  end.
Definition is_expr (s : tstmt) : bool := match s with SExpr _ _ => true | _ => false end.
Definition mvalue (s : tstmt) : texpr := match main_of s with SExpr _ v => v | _ => XThunkCall end.
Definition wants (m : bool) : bool := sub c E_after_stmt || (sub c E_after_module_stmt && m).
Definition own_of (m : bool) (s : tstmt) : list tstmt := main_and_after (wants m) m (sid s) (main_of s) (is_expr s) (mvalue s).

Lemma is_unfold m s : is_ c m s =
  let expanded := if sub c E_before_stmt
                  then [SBefore (sid s) (main_and_after (wants m) m (sid s) (SExpr 0 XThunkCall) true XThunkCall) (own_of m s)]
                  else own_of m s in
  if m && sub c E_after_module_stmt then expanded ++ [SEmit E_after_module_stmt (sid s) (Some (XLoadSaved (sid s)))] else expanded.
Proof. destruct s; reflexivity. Qed.

Definition exc_of (q : res val) : option exc := match q with Ok _ => None | Err e => Some e end.
Definition val_of (q : res val) : val := match q with Ok x => x | Err _ => VNone end.
Definition body_of (s : tstmt) (r : env) : option exc * env * list entry * val :=
  match s with
  | SExpr n v => let '(q, l) := ref_e v r in (exc_of q, r, l ++ emitted E_after_expr_stmt n q, val_of q)
  | SAssign n xs v =>
      let '(q, l) := ref_e v r in
      (exc_of q, match q with Ok x => fold_left (fun r' y => upd r' y x) xs r | Err _ => r end,
       (E_before_assign_rhs, xid v, None) :: l ++ emitted E_after_assign_rhs (xid v) q, VNone)
  | SPass _ => (None, r, [], VNone)
  | SIf n t b o =>
      let '(q, l) := ref_e t r in
      match q with
      | Ok vt => let a := ref_l false (if truth vt then b else o) r in (r_exc a, r_env a, l ++ (E_after_if_test, n, Some vt) :: r_log a, VNone)
      | Err e => (Some e, r, l, VNone)
      end
  | _ => (Some ETypeError, r, [], VNone)
  end.
Lemma ref_s_unfold m s r : ref_s m s r =
  let '(x, r', l, v) := body_of s r in
  let after_value := if m then v else VNone in
  {| r_exc := x; r_env := r';
     r_log := (E_before_stmt, sid s, Some VNone) :: l ++
              match x with
              | Some _ => []
              | None => (E_after_stmt, sid s, Some after_value) :: (if m then [(E_after_module_stmt, sid s, Some after_value)] else [])
              end |}.
Proof.
  destruct s; reflexivity.
Qed.

Definition sim (a : sres) (b : rres) : Prop :=
  s_exc a = r_exc b /\ s_env a = r_env b /\ filter_log c (s_log a) = filter_log c (r_log b).

Lemma fl_app' a b : filter_log c (a ++ b) = filter_log c a ++ filter_log c b.
Proof. apply fl_app. Qed.

Lemma exec_l_app u w : forall r sv, exec_l (u ++ w) r sv = seq (exec_l u r sv) (exec_l w).
Proof.
  induction u as [|x u IH]; intros r sv.
  - cbn [app]. unfold seq. cbn. destruct (exec_l w r sv); reflexivity.
  - cbn [app]. rewrite !exec_l_cons. unfold seq at 1 3. destruct (s_exc (exec_s x r sv)) eqn:E.
    + unfold seq. rewrite E. reflexivity.
    + rewrite IH. unfold seq. cbn [s_exc s_env s_saved s_log].
      destruct (s_exc (exec_l u (s_env (exec_s x r sv)) (s_saved (exec_s x r sv)))) eqn:E2; cbn [s_exc s_env s_saved s_log]; rewrite ?E2; [reflexivity|].
      rewrite app_assoc. reflexivity.
Qed.

Lemma exec_l_single x r sv : exec_l [x] r sv = exec_s x r sv.
Proof. rewrite exec_l_cons. unfold seq. cbn. destruct (exec_s x r sv) as [[e|] r' sv' l]; cbn; rewrite ?app_nil_r; reflexivity. Qed.

Lemma exec_SEmit_some e n v r sv : (forall k, v <> XLoadSaved k) ->
  exec_s (SEmit e n (Some v)) r sv =
  let '(q, l) := eval_e v r in
  match q with
  | Ok x => {| s_exc := None; s_env := r; s_saved := (if event_eqb e E_after_stmt then x else sv); s_log := l ++ [(e, n, Some x)] |}
  | Err x => {| s_exc := Some x; s_env := r; s_saved := sv; s_log := l |}
  end.
Proof. intros H. destruct v; try reflexivity. exfalso. exact (H n0 eq_refl). Qed.

Lemma ie_not_load v : src_e v = true -> forall e n k, wrap c e n (ie c v) <> XLoadSaved k.
Proof.
  intros Hs e n k. unfold wrap. destruct (sub c e); [discriminate|].
  destruct v; try discriminate Hs; cbn [ie]; unfold wrap;
    repeat match goal with |- context [sub c ?x] => destruct (sub c x) end; try discriminate.
  - destruct (const_ev c0); unfold wrap; [destruct (sub c e0)|]; discriminate.
  - destruct (map _ comps); discriminate.
  - destruct (map _ comps); discriminate.
  - destruct (map _ comps); discriminate.
  - destruct (map _ comps); discriminate.
Qed.

(* a list of source statements: the property we are proving, as a predicate for the induction *)
Definition stmt_ok (s : tstmt) : Prop := src_s s = true -> forall m r sv, sim (exec_l (is_ c m s) r sv) (ref_s m s r).

Lemma list_ok u : Forall stmt_ok u -> forallb src_s u = true -> forall m r sv, sim (exec_l (flat_map (is_ c m) u) r sv) (ref_l m u r).
Proof.
  induction 1 as [|x u Hx _ IH]; intros Hs m r sv.
  - repeat split.
  - cbn [forallb] in Hs. apply andb_true_iff in Hs as [Hsx Hs].
    cbn [flat_map]. rewrite exec_l_app, ref_l_cons. cbv zeta.
    destruct (Hx Hsx m r sv) as (E1 & E2 & E3). unfold seq.
    rewrite E1. destruct (r_exc (ref_s m x r)) eqn:Ex.
    + exact (Hx Hsx m r sv).
    + destruct (IH Hs m (s_env (exec_l (is_ c m x) r sv)) (s_saved (exec_l (is_ c m x) r sv))) as (F1 & F2 & F3).
      rewrite E2 in F1, F2, F3. unfold sim. cbn [s_exc s_env s_log r_exc r_env r_log]. rewrite E2. split; [exact F1|split; [exact F2|]].
      rewrite !fl_app', E3, F3. reflexivity.
Qed.

Definition main_ok (s : tstmt) : Prop := forall r sv,
  let A := exec_s (main_of s) r sv in
  let '(x, r', l, v) := body_of s r in
  s_exc A = x /\ s_env A = r' /\ filter_log c (s_log A) = filter_log c l.

Lemma fl_single e n v : filter_log c [(e, n, v)] = if sub c e then [(e, n, v)] else [].
Proof. rewrite fl_cons, fl_nil, app_nil_r. reflexivity. Qed.

Lemma fl_if (b : bool) x y : filter_log c (if b then x else y) = if b then filter_log c x else filter_log c y.
Proof. destruct b; reflexivity. Qed.
Ltac flags := repeat match goal with |- context [sub c ?e] => destruct (sub c e) end.
Ltac norm := cbn [app emitted fst snd]; repeat first [rewrite fl_app | rewrite fl_cons | rewrite fl_nil | rewrite fl_emitted | rewrite fl_idem | rewrite fl_if]; rewrite ?app_nil_r; cbn [app emitted fst snd].
Ltac fin := norm; flags; cbn [app emitted fst snd]; rewrite ?app_nil_r, <- ?app_assoc; cbn [app]; reflexivity.

Lemma main_ok_expr n v : src_e v = true -> main_ok (SExpr n v).
Proof.
  intros Hs r sv. cbn [main_of body_of FragSem.exec_s]. rewrite eval_wrap, (eval_ie _ _ _ _ _ _ c v Hs).
  destruct (ref_e v r) as [[x|e] l]; cbn [fst snd exc_of val_of s_exc s_env s_log]; repeat split; fin.
Qed.

Lemma main_ok_assign n xs v : src_e v = true -> main_ok (SAssign n xs v).
Proof.
  intros Hs r sv. cbn [main_of body_of FragSem.exec_s]. rewrite eval_wrap.
  destruct (sub c E_before_assign_rhs) eqn:Eb; cbn [FragSem.eval_e]; rewrite (eval_ie _ _ _ _ _ _ c v Hs);
    destruct (ref_e v r) as [[x|e] l]; cbn [fst snd exc_of val_of s_exc s_env s_log]; repeat split; norm; rewrite ?Eb; fin.
Qed.

Lemma main_ok_pass n : main_ok (SPass n).
Proof. intros r sv. cbn. repeat split. Qed.

Lemma main_ok_if n t b o : src_e t = true -> forallb src_s b = true -> forallb src_s o = true ->
  Forall stmt_ok b -> Forall stmt_ok o -> main_ok (SIf n t b o).
Proof.
  intros Ht Hb Ho Fb Fo r sv. cbn [main_of body_of]. rewrite exec_s_SIf, eval_wrap, (eval_ie _ _ _ _ _ _ c t Ht).
  destruct (ref_e t r) as [[vt|e] l]; cbn [fst snd emitted s_exc s_env s_log]; [|repeat split; fin].
  assert (Hl : sim (exec_l (if truth vt then flat_map (is_ c false) b else flat_map (is_ c false) o) r sv) (ref_l false (if truth vt then b else o) r))
    by (destruct (truth vt); [apply (list_ok b Fb Hb)|apply (list_ok o Fo Ho)]).
  destruct Hl as (E1 & E2 & E3). cbn [s_exc s_env s_log]. repeat split; try assumption.
  norm. rewrite E3. flags; cbn [app]; rewrite ?app_nil_r, <- ?app_assoc; reflexivity.
Qed.

Lemma wants_false m : wants m = false -> sub c E_after_stmt = false /\ (sub c E_after_module_stmt && m = false).
Proof. unfold wants. intros H. apply orb_false_iff in H. exact H. Qed.

(* the statement's own part: itself and, when wanted, the after_stmt emission (which also saves the value) *)
Lemma own_ok s m : src_s s = true -> main_ok s -> forall r sv,
  let O := exec_l (own_of m s) r sv in
  let '(x, r', l, v) := body_of s r in
  let av := if m then v else VNone in
  s_exc O = x /\ s_env O = r' /\
  filter_log c (s_log O) = filter_log c (l ++ match x with None => [(E_after_stmt, sid s, Some av)] | Some _ => [] end) /\
  (wants m = true -> x = None -> s_saved O = av).
Proof.
  intros Hs HM r sv. unfold own_of, main_and_after.
  destruct (wants m) eqn:W.
  - destruct (is_expr s && m) eqn:EM.
    + (* module-level expression statement: the after_stmt emission carries the value *)
      apply andb_true_iff in EM as [Ee Em]. subst m. destruct s; try discriminate Ee. cbn [src_s] in Hs.
      cbn [mvalue main_of sid body_of]. rewrite exec_l_single, (exec_SEmit_some _ _ _ _ _ (ie_not_load v Hs _ _)).
      rewrite eval_wrap, (eval_ie _ _ _ _ _ _ c v Hs).
      destruct (ref_e v r) as [[x|e] l]; cbn [fst snd exc_of val_of emitted s_exc s_env s_log s_saved].
      * replace (event_eqb E_after_stmt E_after_stmt) with true by reflexivity. repeat split; fin.
      * repeat split; try fin. intros _ H; discriminate H.
    + (* the statement, then a plain after_stmt emission *)
      specialize (HM r sv). cbv zeta in HM.
      destruct (body_of s r) as [[[x r'] l] v] eqn:Eb. destruct HM as (A1 & A2 & A3).
      assert (Hav : (if m then v else VNone) = VNone).
      { destruct m; [|reflexivity]. rewrite andb_true_r in EM. destruct s; try discriminate EM; cbn [body_of] in Eb.
        - destruct (ref_e v0 r) as [q l0]. injection Eb as _ _ _ <-. reflexivity.
        - injection Eb as _ _ _ <-. reflexivity.
        - destruct (ref_e t r) as [[vt|e] l0]; injection Eb as _ _ _ <-; reflexivity.
        - injection Eb as _ _ _ <-. reflexivity.
        - injection Eb as _ _ _ <-. reflexivity. }
      rewrite Hav. rewrite exec_l_cons. unfold seq. rewrite A1. destruct x as [e|].
      * repeat split; try assumption. rewrite A3, app_nil_r. reflexivity. intros _ H; discriminate H.
      * rewrite exec_l_single. cbn [FragSem.exec_s s_exc s_env s_saved s_log].
        replace (event_eqb E_after_stmt E_after_stmt) with true by reflexivity.
        repeat split; try assumption. rewrite !fl_app', A3. reflexivity.
  - specialize (HM r sv). cbv zeta in HM. destruct (body_of s r) as [[[x r'] l] v] eqn:Eb. destruct HM as (A1 & A2 & A3).
    destruct (wants_false m W) as [Wa _]. rewrite exec_l_single.
    repeat split; try assumption; [|intros H; discriminate H].
    rewrite fl_app', A3. destruct x; [rewrite fl_nil|rewrite fl_single, Wa]; rewrite app_nil_r; reflexivity.
Qed.

Lemma assemble s : src_s s = true -> main_ok s -> stmt_ok s.
Proof.
  intros Hs HM _ m r sv. rewrite is_unfold, ref_s_unfold. cbv zeta.
  pose proof (own_ok s m Hs HM r sv) as HO. cbv zeta in HO.
  destruct (body_of s r) as [[[x r'] l] v] eqn:Eb. destruct HO as (O1 & O2 & O3 & O4).
  set (av := if m then v else VNone) in *.
  set (own := own_of m s) in *.
  (* the before_stmt conditional *)
  set (expanded := if sub c E_before_stmt then [SBefore (sid s) _ own] else own).
  assert (HE : s_exc (exec_l expanded r sv) = x /\ s_env (exec_l expanded r sv) = r' /\
               s_saved (exec_l expanded r sv) = s_saved (exec_l own r sv) /\
               filter_log c (s_log (exec_l expanded r sv)) =
               filter_log c ((E_before_stmt, sid s, Some VNone) :: l ++ match x with None => [(E_after_stmt, sid s, Some av)] | Some _ => [] end)).
  { subst expanded. destruct (sub c E_before_stmt) eqn:Bf.
    - rewrite exec_l_single, exec_s_SBefore. cbn [s_exc s_env s_saved s_log]. repeat split; try assumption.
      rewrite !fl_cons, O3. reflexivity.
    - repeat split; try assumption. rewrite fl_cons, Bf. exact O3. }
  destruct HE as (E1 & E2 & E3 & E4).
  destruct (m && sub c E_after_module_stmt) eqn:Am.
  - apply andb_true_iff in Am as [Em Ea]. subst m.
    assert (W : wants true = true) by (unfold wants; rewrite Ea, orb_true_r; reflexivity).
    rewrite exec_l_app. unfold seq. rewrite E1. destruct x as [e|].
    + unfold sim. cbn [r_exc r_env r_log]. repeat split; try assumption; try (rewrite E4, ?app_nil_r; reflexivity).
    + rewrite exec_l_single. cbn [FragSem.exec_s s_exc s_env s_saved s_log]. unfold sim. cbn [s_exc s_env s_log r_exc r_env r_log].
      repeat split; try assumption. rewrite E3, (O4 W eq_refl).
      rewrite fl_app', E4. rewrite <- fl_app'. f_equal. cbn [app]. rewrite <- app_assoc. reflexivity.
  - unfold sim. cbn [r_exc r_env r_log]. repeat split; try assumption. rewrite E4.
    destruct x as [e|]; [reflexivity|].
    rewrite !fl_cons, !fl_app', !fl_cons. f_equal. f_equal. f_equal.
    destruct m; [|reflexivity]. cbn [andb] in Am. rewrite fl_single, Am. reflexivity.
Qed.

Theorem stmt_sim : forall s, stmt_ok s.
Proof.
  induction s using tstmt_ind'; intros Hs; try discriminate Hs; cbn [src_s] in Hs.
  - apply assemble; [exact Hs|apply main_ok_expr; exact Hs|exact Hs].
  - apply assemble; [exact Hs|apply main_ok_assign; exact Hs|exact Hs].
  - apply assemble; [reflexivity|apply main_ok_pass|reflexivity].
  - pose proof Hs as Hs'. apply andb_true_iff in Hs as [Hs Ho]. apply andb_true_iff in Hs as [Ht Hb].
    apply assemble; [exact Hs'|apply main_ok_if; assumption|exact Hs'].
Qed.

(* ---- modules *)
Theorem module_sim0 body : forallb src_s body = true -> forall r sv,
  sim (exec_l (instr_module0 c body) r sv) (ref_module0 body r).
Proof.
  intros Hs r sv. unfold instr_module0, FragSem.ref_module0.
  assert (HB : forall r sv, sim (exec_l (flat_map (is_ c true) body) r sv) (ref_l true body r)).
  { apply list_ok; [|exact Hs]. apply Forall_forall. intros s _. apply stmt_sim. }
  assert (HX : forall r sv, sim (exec_l (flat_map (is_ c true) body ++ (if sub c E_exit_module then [SEmit E_exit_module 0 None] else [])) r sv)
                               {| r_exc := r_exc (ref_l true body r); r_env := r_env (ref_l true body r);
                                  r_log := r_log (ref_l true body r) ++ match r_exc (ref_l true body r) with None => [(E_exit_module, 0, Some VNone)] | Some _ => [] end |}).
  { intros r0 sv0. destruct (HB r0 sv0) as (B1 & B2 & B3). rewrite exec_l_app. unfold seq. rewrite B1.
    destruct (r_exc (ref_l true body r0)) as [e|] eqn:Ex.
    - unfold sim. cbn [r_exc r_env r_log]. rewrite app_nil_r. repeat split; assumption.
    - unfold sim. cbn [s_exc s_env s_log r_exc r_env r_log].
      destruct (sub c E_exit_module) eqn:Xm; cbn [FragSem.exec_l FragSem.exec_s s_exc s_env s_log]; repeat split; try assumption;
        rewrite !fl_app', B3, ?fl_single, ?Xm, ?fl_nil; reflexivity. }
  destruct (sub c E_init_module) eqn:Im.
  - cbn [app]. rewrite exec_l_cons. unfold seq. cbn [FragSem.exec_s s_exc s_env s_saved s_log].
    destruct (HX r (if event_eqb E_init_module E_after_stmt then VNone else sv)) as (X1 & X2 & X3).
    unfold sim. cbn [s_exc s_env s_log r_exc r_env r_log] in *. repeat split; try assumption.
    cbn [app]. rewrite !fl_cons, X3. reflexivity.
  - cbn [app]. destruct (HX r sv) as (X1 & X2 & X3). unfold sim. cbn [r_exc r_env r_log] in *. repeat split; try assumption.
    rewrite fl_cons, Im. exact X3.
Qed.

(* ---- the module docstring: as written, first, silent *)
Lemma trest_src body : forallb src_s body = true -> forallb src_s (trest body) = true.
Proof.
  destruct body as [|d rest]; [reflexivity|]. unfold trest. destruct (is_doc_t d); [|auto].
  cbn [forallb]. intros H. now apply andb_true_iff in H as [_ H].
Qed.
Lemma tdoc_trest body : tdoc body ++ trest body = body.
Proof. destruct body as [|d rest]; [reflexivity|]. unfold tdoc, trest. now destruct (is_doc_t d). Qed.
Lemma exec_doc d u r sv : is_doc_t d = true ->
  s_exc (exec_l (d :: u) r sv) = s_exc (exec_l u r sv) /\ s_env (exec_l (d :: u) r sv) = s_env (exec_l u r sv) /\
  s_log (exec_l (d :: u) r sv) = s_log (exec_l u r sv).
Proof.
  destruct d as [n v| | | | |]; try discriminate. destruct v as [|m sc| | | | | | | | | | |]; try discriminate.
  destruct sc; try discriminate. intros _. rewrite exec_l_cons. unfold seq. cbn [FragSem.exec_s FragSem.eval_e s_exc s_env s_saved s_log app].
  repeat split; reflexivity.
Qed.
Theorem module_sim body : forallb src_s body = true -> forall r sv,
  sim (exec_l (instr_module c body) r sv) (ref_module body r).
Proof.
  intros Hs r sv. unfold instr_module, FragSem.ref_module.
  pose proof (module_sim0 (trest body) (trest_src body Hs)) as M.
  destruct body as [|d rest]; [exact (M r sv)|]. unfold tdoc, trest in *. destruct (is_doc_t d) eqn:Ed; [|exact (M r sv)].
  cbn [app]. destruct (exec_doc d (instr_module0 c rest) r sv Ed) as (E1 & E2 & E3).
  destruct (M r sv) as (M1 & M2 & M3). unfold sim. rewrite E1, E2, E3. repeat split; assumption.
Qed.

(* ---- with no event subscribed the rewriter leaves a source program as it is *)
Hypothesis none : forall e, sub c e = false.

Lemma ie_none : forall t, src_e t = true -> ie c t = t.
Proof.
  induction t using texpr_ind'; intros Hs; try discriminate Hs; cbn [ie src_e] in *; unfold wrap; rewrite ?none.
  - reflexivity.
  - destruct (const_ev c0); [rewrite none|]; reflexivity.
  - apply andb_true_iff in Hs as [H1 H2]. rewrite (IHt1 H1), (IHt2 H2). reflexivity.
  - apply andb_true_iff in Hs as [Hs _]. apply andb_true_iff in Hs as [Hs _]. apply andb_true_iff in Hs as [H1 Hc].
    rewrite (IHt H1). f_equal.
    induction H as [|x comps Hx _ IH]; [reflexivity|]. cbn [forallb] in Hc. apply andb_true_iff in Hc as [Hx' Hc].
    cbn [map]. rewrite ?none, (Hx Hx'), (IH Hc). reflexivity.
  - rewrite (IHt Hs). reflexivity.
  - f_equal. induction H as [|x es Hx _ IH]; [reflexivity|]. cbn [forallb] in Hs. apply andb_true_iff in Hs as [Hx' Hs].
    cbn [map]. rewrite (Hx Hx'), (IH Hs). reflexivity.
  - apply andb_true_iff in Hs as [Hs H3]. apply andb_true_iff in Hs as [H1 H2]. rewrite (IHt1 H1), (IHt2 H2), (IHt3 H3). reflexivity.
Qed.

Lemma is_none : forall s, src_s s = true -> forall m, is_ c m s = [s].
Proof.
  induction s using tstmt_ind'; intros Hs m; try discriminate Hs; rewrite is_unfold; cbv zeta; unfold own_of, wants, main_and_after;
    rewrite !none; cbn [orb andb]; rewrite ?andb_false_r; cbn [main_of src_s] in *; unfold wrap; rewrite ?none.
  - rewrite (ie_none v Hs). reflexivity.
  - rewrite (ie_none v Hs). reflexivity.
  - reflexivity.
  - apply andb_true_iff in Hs as [Hs Ho]. apply andb_true_iff in Hs as [Ht Hb]. rewrite (ie_none t Ht).
    assert (L : forall u, Forall (fun s => src_s s = true -> forall m, is_ c m s = [s]) u -> forallb src_s u = true -> flat_map (is_ c false) u = u).
    { induction 1 as [|x u Hx _ IH]; intros Hu; [reflexivity|]. cbn [forallb] in Hu. apply andb_true_iff in Hu as [Hx' Hu].
      cbn [flat_map]. rewrite (Hx Hx' false), (IH Hu). reflexivity. }
    rewrite (L b H Hb), (L o H0 Ho). reflexivity.
Qed.

Lemma instr_none0 body : forallb src_s body = true -> instr_module0 c body = body.
Proof.
  intros Hs. unfold instr_module0. rewrite !none. cbn [app]. rewrite app_nil_r.
  induction body as [|x u IH]; [reflexivity|]. cbn [forallb] in Hs. apply andb_true_iff in Hs as [Hx Hu].
  cbn [flat_map]. rewrite (is_none x Hx true), (IH Hu). reflexivity.
Qed.
Lemma instr_none body : forallb src_s body = true -> instr_module c body = body.
Proof. intros Hs. unfold instr_module. rewrite (instr_none0 _ (trest_src body Hs)). apply tdoc_trest. Qed.
End ProofsS.

(* ================================================================ the three statements, for any primitive operations *)
Section Final.
Variable binop : N -> val -> val -> res val.
Variable cmpop : N -> val -> val -> res bool.
Variable unop : N -> val -> res val.
Variable truth : val -> bool.
Variable cval : scalar -> val.
Variable is_and : N -> bool.
Notation exec_l := (exec_l binop cmpop unop truth cval is_and).
Notation ref_module := (ref_module binop cmpop unop truth cval is_and).
Notation ref_module0 := (ref_module0 binop cmpop unop truth cval is_and).

Definition no_events : rcfg := {| sub := fun _ => false |}.

(* C01 on the fragment: whatever is subscribed, the instrumented program ends with the exception and the bindings of the program as it is *)
Theorem frag_semantics c body r sv sv' : forallb src_s body = true ->
  s_exc (exec_l (instr_module c body) r sv) = s_exc (exec_l body r sv') /\
  s_env (exec_l (instr_module c body) r sv) = s_env (exec_l body r sv').
Proof.
  intros Hs.
  destruct (module_sim binop cmpop unop truth cval is_and c body Hs r sv) as (A1 & A2 & _).
  destruct (module_sim binop cmpop unop truth cval is_and no_events body Hs r sv') as (B1 & B2 & _).
  rewrite (instr_none no_events (fun _ => eq_refl) body Hs) in B1, B2.
  split; congruence.
Qed.

(* C02 on the fragment: the events the tracer is subscribed to arrive exactly as the reference stream says: each occurrence once, in order, with its value and node *)
Theorem frag_stream c body r sv : forallb src_s body = true ->
  filter_log c (s_log (exec_l (instr_module c body) r sv)) = filter_log c (r_log (ref_module body r)).
Proof. intros Hs. exact (proj2 (proj2 (module_sim binop cmpop unop truth cval is_and c body Hs r sv))). Qed.

Lemma filter_sub (K E : rcfg) l : (forall e, sub K e = true -> sub E e = true) -> filter_log K (filter_log E l) = filter_log K l.
Proof.
  intros H. unfold filter_log. induction l as [|x l IH]; [reflexivity|]. cbn [filter].
  destruct (sub E (fst (fst x))) eqn:Ee; cbn [filter]; destruct (sub K (fst (fst x))) eqn:Ek; rewrite ?IH; try reflexivity.
  rewrite (H _ Ek) in Ee. discriminate Ee.
Qed.

(* C03 on the fragment: what a tracer sees for its events K does not depend on which further events E are subscribed *)
Theorem frag_projection K E body r sv sv' : forallb src_s body = true -> (forall e, sub K e = true -> sub E e = true) ->
  filter_log K (s_log (exec_l (instr_module E body) r sv)) = filter_log K (s_log (exec_l (instr_module K body) r sv')).
Proof.
  intros Hs HKE.
  rewrite (frag_stream K body r sv' Hs).
  rewrite <- (filter_sub K E _ HKE), (frag_stream E body r sv Hs), (filter_sub K E _ HKE). reflexivity.
Qed.
End Final.
