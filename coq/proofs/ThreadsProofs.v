(* C17: with per-thread switches the main thread's view is independent of every other thread's steps. *)
From Coq Require Import List NArith Bool Arith Lia.
Import ListNotations.
From PyccoloV Require Import model.Threads.

Definition wf (s : state) : Prop := length (switches s) = length (threads s).

Lemma set_nth_length {A} (l : list A) i x : length (set_nth l i x) = length l.
Proof. revert i; induction l as [|y l IH]; intros [|i]; cbn; auto. Qed.
Lemma nth_error_set_nth_other {A} (l : list A) i j x : i <> j -> nth_error (set_nth l i x) j = nth_error l j.
Proof. revert i j; induction l as [|y l IH]; intros [|i] [|j] H; cbn; auto; try congruence; try (apply IH; lia). Qed.
Lemma nth_error_set_nth_same {A} (l : list A) i x : i < length l -> nth_error (set_nth l i x) i = Some x.
Proof. revert i; induction l as [|y l IH]; intros [|i] H; cbn in *; auto; try lia; try (apply IH; lia). Qed.
Lemma nth_set_nth_other {A} (l : list A) i j x d : i <> j -> nth j (set_nth l i x) d = nth j l d.
Proof. revert i j; induction l as [|y l IH]; intros [|i] [|j] H; cbn; auto; try congruence; try (apply IH; lia). Qed.
Lemma nth_set_nth_same {A} (l : list A) i x d : i < length l -> nth i (set_nth l i x) d = x.
Proof. revert i; induction l as [|y l IH]; intros [|i] H; cbn in *; auto; try lia; try (apply IH; lia). Qed.

Lemma deliveries_tid tid a c b k ts e : In e (deliveries tid a c b k ts) -> fst e = tid.
Proof.
  revert k; induction ts as [|t ts IH]; intros k H; cbn in H; [destruct H|].
  apply in_app_or in H as [H|H]; [|eauto]. destruct (_ || _ || _); [destruct H|]. destruct H as [<-|[]]; reflexivity.
Qed.
Lemma filter_deliveries_other tid a c b k ts : tid <> 0 ->
  filter (fun e : nat * nat => fst e =? 0) (deliveries tid a c b k ts) = [].
Proof.
  intros Hn. assert (H : forall e, In e (deliveries tid a c b k ts) -> (fst e =? 0) = false).
  { intros e He. apply deliveries_tid in He. rewrite He. now apply Nat.eqb_neq. }
  induction (deliveries tid a c b k ts) as [|e l IH]; cbn; auto.
  rewrite (H e (or_introl eq_refl)). apply IH. intros e' He'. apply H; now right.
Qed.

Lemma step_wf shared ts s tid : wf s -> wf (step shared ts s tid).
Proof.
  unfold wf, step. intros H. destruct (nth_error (threads s) tid) as [th|]; auto.
  destruct (cur th) as [[]|]; cbn; unfold put_sw; rewrite ?set_nth_length; auto.
  destruct (todo th); cbn; rewrite ?set_nth_length; auto.
Qed.

(* a step of another thread does not change what the main thread sees *)
Lemma step_other ts s tid : tid <> 0 -> main_view false (step false ts s tid) = main_view false s.
Proof.
  intros Hn. unfold step. destruct (nth_error (threads s) tid) as [th|]; auto.
  unfold main_view, get_sw, put_sw, slot.
  destruct (cur th) as [[]|]; cbn [switches threads dlog];
    rewrite ?nth_error_set_nth_other, ?nth_set_nth_other by auto; auto.
  - rewrite filter_app, filter_deliveries_other by auto. now rewrite app_nil_r.
  - destruct (todo th); cbn [switches threads dlog]; rewrite ?nth_error_set_nth_other by auto; auto.
Qed.

(* a step of the main thread depends only on what the main thread sees *)
Lemma step_main ts s s' : wf s -> wf s' -> main_view false s = main_view false s' ->
  main_view false (step false ts s 0) = main_view false (step false ts s' 0).
Proof.
  unfold main_view, wf. intros Hw Hw' H.
  assert (Hl : filter (fun e : nat * nat => fst e =? 0) (dlog s) = filter (fun e : nat * nat => fst e =? 0) (dlog s')) by congruence.
  assert (Hs : get_sw false s 0 = get_sw false s' 0) by congruence.
  assert (Ht : nth_error (threads s) 0 = nth_error (threads s') 0) by congruence. clear H.
  unfold step. rewrite <- Ht. destruct (nth_error (threads s) 0) as [th|] eqn:E.
  2:{ rewrite Hl, Hs. f_equal. congruence. }
  assert (L1 : 0 < length (threads s)) by (destruct (threads s); [discriminate|cbn; lia]).
  assert (L1' : 0 < length (threads s')) by (destruct (threads s'); [discriminate|cbn; lia]).
  assert (L2 : 0 < length (switches s)) by lia. assert (L2' : 0 < length (switches s')) by lia.
  unfold get_sw, put_sw, slot in *. rewrite <- Hs.
  destruct (cur th) as [[]|]; cbn [switches threads dlog];
    rewrite ?nth_error_set_nth_same, ?nth_set_nth_same by auto; rewrite ?Hl; try rewrite <- Hs; auto.
  all: try (rewrite !filter_app, Hl; reflexivity).
  destruct (todo th); cbn [switches threads dlog]; rewrite ?nth_error_set_nth_same by auto; rewrite ?Hl, ?Hs, <- ?Ht, ?E; auto.
Qed.

Lemma run_wf shared ts sched : forall s, wf s -> wf (run_sched shared ts s sched).
Proof. induction sched as [|t sched IH]; intros s H; cbn; auto. apply IH. now apply step_wf. Qed.

Theorem main_independent ts sched : forall s s', wf s -> wf s' -> main_view false s = main_view false s' ->
  main_view false (run_sched false ts s sched) =
  main_view false (run_sched false ts s' (filter (fun t => t =? 0) sched)).
Proof.
  induction sched as [|t sched IH]; intros s s' Hw Hw' H; cbn; auto.
  destruct (t =? 0) eqn:E.
  - apply Nat.eqb_eq in E; subst t. cbn. apply IH; try now apply step_wf. now apply step_main.
  - apply Nat.eqb_neq in E. apply IH; auto; try now apply step_wf. rewrite step_other; auto.
Qed.

(* worker threads deliver only to tracers that allow multiple threads *)
Definition worker_ok (ts : list tracer_cfg) (e : nat * nat) : Prop :=
  fst e <> 0 -> exists t, nth_error ts (snd e) = Some t /\ multi_thread t = true.
Lemma deliveries_worker tid a c b ts0 : forall ts k, (forall i t, nth_error ts i = Some t -> nth_error ts0 (k + i) = Some t) ->
  Forall (worker_ok ts0) (deliveries tid a c b k ts).
Proof.
  induction ts as [|t ts IH]; intros k H; cbn; [constructor|].
  apply Forall_app. split.
  - destruct (negb (tid =? 0) && negb (multi_thread t)) eqn:E1; cbn; [constructor|].
    destruct (a && negb (allow_re t) && negb b); cbn; [constructor|].
    destruct (c && negb (h_re t)); constructor; [|constructor].
    intros Hn. cbn in *. exists t. split; [rewrite <- (Nat.add_0_r k); apply H; reflexivity|].
    apply Nat.eqb_neq in Hn. rewrite Hn in E1. cbn in E1. now destruct (multi_thread t).
  - apply IH. intros i t' Hi. replace (S k + i) with (k + S i) by lia. now apply H.
Qed.
Theorem workers_only_multi shared ts sched : forall s, Forall (worker_ok ts) (dlog s) ->
  Forall (worker_ok ts) (dlog (run_sched shared ts s sched)).
Proof.
  induction sched as [|t sched IH]; intros s H; cbn; auto. apply IH.
  unfold step. destruct (nth_error (threads s) t) as [th|]; auto.
  destruct (cur th) as [[]|]; cbn [dlog]; auto.
  - apply Forall_app. split; auto. apply deliveries_worker. intros i t' Hi. exact Hi.
  - destruct (todo th); cbn; auto.
Qed.

(* ---- the pinned tree before the repair: one process-wide pair of switches.  Worker (thread 1) clears the switch,
   the main thread saves False, is treated as re-entrant and loses its event, the worker restores True, the main
   thread restores False: the next main-thread emission is lost as well. *)
Definition w_sched : list nat :=
  [1;1;1;1;1;1] ++ [0;0;0;0;0;0;0] ++ [1;1;1] ++ [0;0] ++ [0;0;0;0;0;0;0;0;0].
Theorem shared_switches_refuted :
  let ts := [{| multi_thread := false; allow_re := false; h_re := false |}] in
  let s0 := init [2; 1] in
  fst (fst (main_view true (run_sched true ts s0 w_sched))) = [] /\
  fst (fst (main_view true (run_sched true ts s0 (filter (fun t => t =? 0) w_sched)))) = [(0, 0); (0, 0)] /\
  sA (snd (fst (main_view true (run_sched true ts s0 w_sched)))) = false.
Proof. vm_compute. repeat split; reflexivity. Qed.
