(* C03 on the fragment, unbounded: K-erasing the model's output for ANY subscription set that contains K gives exactly the
   model's output for K alone.  (The syntactic projection theorem; with K-syn it is the unbounded counterpart of the
   per-pair projection certificates of C03.) *)
From Coq Require Import List ZArith NArith Bool Lia.
Import ListNotations.
From PyccoloV Require Import gen.PyAst gen.Ids gen.Events model.Tree model.Erase model.Prune model.RwFrag
  proofs.EraseSound proofs.PruneSound proofs.RwFragProofs.
Local Open Scope N_scope.

Section K.
  Variable K : list N.
  Notation ek := (erasek K).
  Notation ekl := (erase_gen_list (postk K)).
  Notation ekf := (erase_gen_fields (postk K)).
  Definition inK (e : event) : bool := mem (ev_code e) K.
  Definition cK : rcfg := {| sub := inK |}.

  Lemma ek_T k sc fs : ek (T k sc fs) = match ekf fs with Some fs' => postk K k sc fs' | None => None end.
  Proof. reflexivity. Qed.
  Lemma ekf_cons f fs : ekf (f :: fs) = match ekl f, ekf fs with Some a, Some b => Some (a :: b) | _, _ => None end.
  Proof. reflexivity. Qed.
  Lemma ekl_cons x l : ekl (x :: l) = match ek x, ekl l with Some a, Some b => Some (a ++ b) | _, _ => None end.
  Proof. reflexivity. Qed.
  Lemma ekl_nil : ekl [] = Some [].
  Proof. reflexivity. Qed.
  Lemma ekf_nil : ekf [] = Some [].
  Proof. reflexivity. Qed.
  Lemma ekl_app a b : ekl (a ++ b) = match ekl a, ekl b with Some x, Some y => Some (x ++ y) | _, _ => None end.
  Proof.
    induction a as [|x a IH]; cbn [app].
    - rewrite ekl_nil. now destruct (ekl b).
    - rewrite !ekl_cons, IH. destruct (ek x); [|reflexivity].
      destruct (ekl a); [|reflexivity]. destruct (ekl b); [|reflexivity]. now rewrite app_assoc.
  Qed.
  Lemma ekl_singles xs ys : Forall2 (fun x y => ek x = Some [y]) xs ys -> ekl xs = Some ys.
  Proof. induction 1 as [|x y xs ys H _ IH]; [reflexivity|]. now rewrite ekl_cons, H, IH. Qed.

  Lemma ek_nm_load x : ek (nm_load x) = Some [nm_load x].
  Proof. reflexivity. Qed.
  Lemma ek_cst_ev e : ek (cst_ev e) = Some [cst_ev e].
  Proof. reflexivity. Qed.
  Lemma ek_cst_nid n : ek (cst_nid n) = Some [cst_nid n].
  Proof. reflexivity. Qed.
  Lemma ek_guards_none : ek guards_none = Some [guards_none].
  Proof. reflexivity. Qed.
  Lemma ek_kw x r r' : ek r = Some [r'] -> ek (kw x r) = Some [kw x r'].
  Proof. intros H. unfold kw. rewrite ek_T, ekf_cons, ekl_cons, H, ekl_nil, ekf_nil. reflexivity. Qed.

  (* a direct-value site: stays (unchanged) when its event is kept, otherwise collapses to its value *)
  Definition plain_ev (e : event) : bool :=
    negb (special_ev e) && negb (N.eqb (ev_code e) (ev_code E_after_stmt)).
  Lemma ek_emit_ret e n r r' : ek r = Some [r'] -> tlam_parts r' = None -> plain_ev e = true ->
    ek (emit_ret e n r) = Some [if inK e then emit_ret e n r' else r'].
  Proof.
    intros H Ht Hp. unfold plain_ev in Hp. apply andb_prop in Hp as [Hs Ha]. apply negb_true_iff in Hs, Ha.
    unfold emit_ret, emit_call.
    rewrite ek_T, !ekf_cons, !ekl_cons, ek_nm_load, ek_cst_ev, ek_cst_nid, (ek_kw id_ret r r' H), ek_guards_none, !ekl_nil, ekf_nil. cbn [app].
    unfold postk. change (N.eqb kCall kCall) with true. cbv iota.
    unfold emit_parts, nm_load, cst_ev, cst_nid. cbn [name_is].
    change (N.eqb kCall kCall && (N.eqb kName kName && N.eqb id_emit id_emit) && N.eqb kConstant kConstant && N.eqb kConstant kConstant) with true.
    cbv iota. unfold kw_value, kw. cbn [find].
    change (N.eqb kkeyword kkeyword && N.eqb id_ret id_ret) with true. cbv iota.
    rewrite Ht. unfold special_ev in Hs. rewrite Hs.
    unfold keeps. rewrite Ha, andb_false_r, orb_false_r. unfold inK. destruct (mem (ev_code e) K); reflexivity.
  Qed.

  Lemma ek_wrap (b : bool) e n x x' : ek x = Some [x'] -> tlam_parts x' = None -> plain_ev e = true -> (inK e = true -> b = true) ->
    ek (wrap_if b (emit_ret e n) x) = Some [wrap_if (inK e) (emit_ret e n) x'].
  Proof.
    intros H Ht Hp Hb. unfold wrap_if. destruct b.
    - now rewrite (ek_emit_ret e n x x' H Ht Hp).
    - destruct (inK e); [specialize (Hb eq_refl); discriminate|exact H].
  Qed.

  Lemma ek_no_args : ek no_args = Some [no_args].
  Proof. reflexivity. Qed.
  Lemma ek_args2 x y : ek (args2 x y) = Some [args2 x y].
  Proof. reflexivity. Qed.
  Lemma ek_tlam args body body' : ek args = Some [args] -> ek body = Some [body'] -> ek (tlam args body) = Some [tlam args body'].
  Proof.
    intros Ha Hb. unfold tlam.
    assert (L : ek (T kLambda [] [[args]; [body]]) = Some [T kLambda [] [[args]; [body']]])
      by (rewrite ek_T, !ekf_cons, !ekl_cons, Ha, Hb, !ekl_nil, ekf_nil; reflexivity).
    rewrite ek_T, !ekf_cons, !ekl_cons, ek_nm_load, L, !ekl_nil, ekf_nil. reflexivity.
  Qed.
  Lemma ek_emit_thunk e n args body body' : ek args = Some [args] -> ek body = Some [body'] ->
    ek (emit_call e n [kw id_ret (tlam args body); guards_none]) = Some [emit_call e n [kw id_ret (tlam args body'); guards_none]].
  Proof.
    intros Ha Hb. unfold emit_call.
    rewrite ek_T, !ekf_cons, !ekl_cons, ek_nm_load, ek_cst_ev, ek_cst_nid, (ek_kw id_ret _ _ (ek_tlam _ _ _ Ha Hb)), ek_guards_none, !ekl_nil, ekf_nil.
    reflexivity.
  Qed.

  Definition deferred_ev (e : event) : bool := negb (N.eqb (ev_code e) (ev_code E_after_stmt)).

  Lemma ek_deferred0 e n body body' : ek body = Some [body'] -> deferred_ev e = true ->
    ek (emit_deferred e n (tlam no_args body) []) = Some [if inK e then emit_deferred e n (tlam no_args body') [] else body'].
  Proof.
    intros Hb Hd. apply negb_true_iff in Hd. unfold emit_deferred.
    rewrite ek_T, !ekf_cons, !ekl_cons, (ek_emit_thunk e n no_args body body' ek_no_args Hb), !ekl_nil, ekf_nil. cbn [app].
    unfold postk. change (N.eqb kCall kCall) with true. cbv iota.
    rewrite (emit_parts_not_emit [] _ _ _ (emit_call_not_name e n _)).
    cbn [emit_parts emit_call nm_load cst_ev cst_nid name_is kw_value kw find tlam_parts tlam].
    change (N.eqb kCall kCall && (N.eqb kName kName && N.eqb id_emit id_emit) && N.eqb kConstant kConstant && N.eqb kConstant kConstant) with true.
    cbv iota. unfold kw_value, kw. cbn [find].
    change (N.eqb kkeyword kkeyword && N.eqb id_ret id_ret) with true. cbv iota.
    unfold tlam_parts, tlam. cbn [name_is].
    change (N.eqb kCall kCall && (N.eqb kName kName && N.eqb id_tlam id_tlam) && N.eqb kLambda kLambda) with true. cbv iota.
    unfold keeps. rewrite Hd, andb_false_r, orb_false_r. unfold inK. destruct (mem (ev_code e) K); reflexivity.
  Qed.

  Lemma ek_binop_thunk e n op l l' r r' : ek op = Some [op] -> ek l = Some [l'] -> ek r = Some [r'] -> deferred_ev e = true ->
    ek (emit_deferred e n (tlam (args2 id_x id_y) (T kBinOp [] [[nm_load id_x]; [op]; [nm_load id_y]])) [l; r])
    = Some [if inK e then emit_deferred e n (tlam (args2 id_x id_y) (T kBinOp [] [[nm_load id_x]; [op]; [nm_load id_y]])) [l'; r']
            else T kBinOp [] [[l']; [op]; [r']]].
  Proof.
    intros Ho Hl Hr Hd. apply negb_true_iff in Hd. unfold emit_deferred.
    assert (Hbody : ek (T kBinOp [] [[nm_load id_x]; [op]; [nm_load id_y]]) = Some [T kBinOp [] [[nm_load id_x]; [op]; [nm_load id_y]]])
      by (rewrite ek_T, !ekf_cons, !ekl_cons, !ek_nm_load, Ho, !ekl_nil, ekf_nil; reflexivity).
    rewrite ek_T, !ekf_cons, !ekl_cons, (ek_emit_thunk e n _ _ _ (ek_args2 id_x id_y) Hbody), Hl, Hr, !ekl_nil, ekf_nil. cbn [app].
    unfold postk. change (N.eqb kCall kCall) with true. cbv iota.
    rewrite (emit_parts_not_emit [] _ _ _ (emit_call_not_name e n _)).
    cbn [emit_parts emit_call nm_load cst_ev cst_nid name_is].
    change (N.eqb kCall kCall && (N.eqb kName kName && N.eqb id_emit id_emit) && N.eqb kConstant kConstant && N.eqb kConstant kConstant) with true.
    cbv iota. unfold kw_value, kw. cbn [find].
    change (N.eqb kkeyword kkeyword && N.eqb id_ret id_ret) with true. cbv iota.
    unfold tlam_parts, tlam. cbn [name_is].
    change (N.eqb kCall kCall && (N.eqb kName kName && N.eqb id_tlam id_tlam) && N.eqb kLambda kLambda) with true. cbv iota.
    unfold keeps. rewrite Hd, andb_false_r, orb_false_r. unfold inK. destruct (mem (ev_code e) K); reflexivity.
  Qed.

  Lemma ek_compare_thunk e n ops l l' c0 c0' crest crest' :
    ekl ops = Some ops -> ekl crest = Some crest' -> ek l = Some [l'] -> ek c0 = Some [c0'] -> deferred_ev e = true ->
    ek (emit_deferred e n (tlam (args2 id_cmp_x id_cmp_y) (T kCompare [] [[nm_load id_cmp_x]; ops; nm_load id_cmp_y :: crest])) [l; c0])
    = Some [if inK e then emit_deferred e n (tlam (args2 id_cmp_x id_cmp_y) (T kCompare [] [[nm_load id_cmp_x]; ops; nm_load id_cmp_y :: crest'])) [l'; c0']
            else T kCompare [] [[l']; ops; c0' :: crest']].
  Proof.
    intros Ho Hc Hl H0 Hd. apply negb_true_iff in Hd. unfold emit_deferred.
    assert (Hbody : ek (T kCompare [] [[nm_load id_cmp_x]; ops; nm_load id_cmp_y :: crest])
                    = Some [T kCompare [] [[nm_load id_cmp_x]; ops; nm_load id_cmp_y :: crest']])
      by (rewrite ek_T, !ekf_cons, !ekl_cons, !ek_nm_load, Ho, Hc, !ekl_nil, ekf_nil; reflexivity).
    rewrite ek_T, !ekf_cons, !ekl_cons, (ek_emit_thunk e n _ _ _ (ek_args2 id_cmp_x id_cmp_y) Hbody), Hl, H0, !ekl_nil, ekf_nil. cbn [app].
    unfold postk. change (N.eqb kCall kCall) with true. cbv iota.
    rewrite (emit_parts_not_emit [] _ _ _ (emit_call_not_name e n _)).
    cbn [emit_parts emit_call nm_load cst_ev cst_nid name_is].
    change (N.eqb kCall kCall && (N.eqb kName kName && N.eqb id_emit id_emit) && N.eqb kConstant kConstant && N.eqb kConstant kConstant) with true.
    cbv iota. unfold kw_value, kw. cbn [find].
    change (N.eqb kkeyword kkeyword && N.eqb id_ret id_ret) with true. cbv iota.
    unfold tlam_parts, tlam. cbn [name_is].
    change (N.eqb kCall kCall && (N.eqb kName kName && N.eqb id_tlam id_tlam) && N.eqb kLambda kLambda) with true. cbv iota.
    unfold keeps. rewrite Hd, andb_false_r, orb_false_r. unfold inK. destruct (mem (ev_code e) K); reflexivity.
  Qed.

  (* ---- what the results look like *)
  Definition okres (v : tree) : Prop :=
    tlam_parts v = None /\ is_guard_test v = false /\ is_emit_of E_before_stmt v = false /\
    (emit_parts v = None \/ exists e n r, v = emit_ret e n r /\ special_ev e = false).

  Lemma okres_plain v : plain v -> is_guard_test v = false -> okres v.
  Proof. intros [A B] G. repeat split; auto. unfold is_emit_of. now rewrite B. Qed.
  Lemma okres_emit_ret e n r : special_ev e = false -> N.eqb (ev_code e) (ev_code E_before_stmt) = false -> okres (emit_ret e n r).
  Proof.
    intros Hs Hb. repeat split; try reflexivity.
    - unfold is_emit_of, emit_ret, emit_call. cbn [emit_parts nm_load cst_ev cst_nid name_is].
      change (N.eqb kCall kCall && (N.eqb kName kName && N.eqb id_emit id_emit) && N.eqb kConstant kConstant && N.eqb kConstant kConstant) with true.
      cbv iota. exact Hb.
    - right. eauto.
  Qed.
  Lemma okres_wrap (b : bool) e n x : okres x -> special_ev e = false -> N.eqb (ev_code e) (ev_code E_before_stmt) = false ->
    okres (wrap_if b (emit_ret e n) x).
  Proof. intros Hx Hs Hb. unfold wrap_if. destruct b; [now apply okres_emit_ret|exact Hx]. Qed.
  Lemma okres_deferred e n thunk args : okres (emit_deferred e n thunk args).
  Proof.
    unfold emit_deferred.
    assert (E : emit_parts (T kCall [] [[emit_call e n [kw id_ret thunk; guards_none]]; args; []]) = None)
      by (apply emit_parts_not_emit; reflexivity).
    repeat split.
    - unfold tlam_parts. destruct args as [|[k [|] [|[|a [|]] [|[|b [|]] [|]]]|] [|]]; reflexivity.
    - apply guard_test_other; reflexivity.
    - unfold is_emit_of. now rewrite E.
    - now left.
  Qed.

  Lemma postk_expr_ok v : okres v -> postk K kExpr [] [[v]] = Some [T kExpr [] [[v]]].
  Proof.
    intros (_ & _ & _ & [He|(e & n & r & -> & Hs)]); unfold postk.
    - change (N.eqb kExpr kCall) with false. change (N.eqb kExpr kIfExp) with false. change (N.eqb kExpr kIf) with false.
      change (N.eqb kExpr kTry) with false. change (N.eqb kExpr kExpr) with true. cbv iota. now rewrite He.
    - change (N.eqb kExpr kCall) with false. change (N.eqb kExpr kIfExp) with false. change (N.eqb kExpr kIf) with false.
      change (N.eqb kExpr kTry) with false. change (N.eqb kExpr kExpr) with true. cbv iota.
      unfold emit_ret, emit_call. cbn [emit_parts nm_load cst_ev cst_nid name_is].
      change (N.eqb kCall kCall && (N.eqb kName kName && N.eqb id_emit id_emit) && N.eqb kConstant kConstant && N.eqb kConstant kConstant) with true.
      cbv iota. unfold kw_value, kw. cbn [find].
      change (N.eqb kkeyword kkeyword && N.eqb id_ret id_ret) with true. cbv iota.
      unfold special_ev in Hs. apply orb_false_elim in Hs as [_ Hs]. now rewrite Hs.
  Qed.
End K.

Section KMain.
  Variable K : list N.
  Variable c : rcfg.
  Hypothesis Ksub : forall e, inK K e = true -> sub c e = true.
  Notation ek := (erasek K).
  Notation cK := (cK K).

  Lemma Knot e : sub c e = false -> inK K e = false.
  Proof. intros H. destruct (inK K e) eqn:E; [|reflexivity]. rewrite (Ksub e E) in H. discriminate. Qed.

  Definition GoodK (t : tree) : Prop :=
    (forall n, ek (rwe c t n) = Some [rwe cK t n]) /\ (forall n, okres (rwe cK t n)) /\ ek t = Some [t].

  Lemma golK f : Forall GoodK f -> (forall j, erase_gen_list (postk K) (gol c f j) = Some (gol cK f j)) /\ erase_gen_list (postk K) f = Some f.
  Proof.
    induction 1 as [|x f [Hx [_ Hx']] _ [IH1 IH2]]; [split; reflexivity|]. split.
    - intros j. cbn [gol]. now rewrite ekl_cons, Hx, IH1.
    - now rewrite ekl_cons, Hx', IH2.
  Qed.
  Lemma gofK fs : Forall (Forall GoodK) fs ->
    (forall i, erase_gen_fields (postk K) (gof c fs i) = Some (gof cK fs i)) /\ erase_gen_fields (postk K) fs = Some fs.
  Proof.
    induction 1 as [|f fs Hf _ [IH1 IH2]]; [split; reflexivity|]. destruct (golK f Hf) as [G1 G2]. split.
    - intros i. cbn [gof]. now rewrite ekf_cons, G1, IH1.
    - now rewrite ekf_cons, G2, IH2.
  Qed.
  Lemma gocK comps : Forall GoodK comps -> forall j, Forall2 (fun x y => ek x = Some [y]) (goc c comps j) (goc cK comps j).
  Proof.
    induction 1 as [|x f [Hx [Ox _]] _ IH]; intros j; cbn [goc]; constructor; [|apply IH].
    apply ek_wrap; [apply Hx|apply (Ox j)|reflexivity|apply Ksub].
  Qed.

  Lemma kidsK fs : Forall (Forall (fun t => in_frag_e t = true -> GoodK t)) fs -> forallb (forallb in_frag_e) fs = true -> Forall (Forall GoodK) fs.
  Proof.
    induction 1 as [|f fs Hf _ IH]; intros H; [constructor|]. cbn [forallb] in H. apply andb_prop in H as [H1 H2].
    constructor; [|now apply IH]. clear -Hf H1. induction Hf as [|x f Hx _ IHf]; [constructor|].
    cbn [forallb] in H1. apply andb_prop in H1 as [A B]. constructor; auto.
  Qed.

  Lemma okres_src c0 t : Good c0 t -> okres t.
  Proof. intros (_ & _ & P & G). now apply okres_plain. Qed.

  Theorem rwe_proj : forall t, in_frag_e t = true -> GoodK t.
  Proof.
    induction t as [|k sc fs IH] using tree_ind2; intros H; [discriminate|].
    pose proof (rwe_erase cK (T k sc fs) H) as Gsrc.
    rewrite in_frag_e_T in H. cbv zeta in H.
    destruct (leaf_kind k) eqn:Elk.
    { destruct sc; [|discriminate]. destruct fs; [|discriminate].
      destruct (leaf_kind_cases k Elk) as (N1&N2&N3&N4&N5&N6&N7&N8&N9&N10&N11).
      assert (E : ek (T k [] []) = Some [T k [] []]).
      { rewrite ek_T. cbn [erase_gen_fields]. unfold postk. now rewrite N5, N6, N7, N8, N9, N10. }
      split; [|split].
      - intros n. rewrite !rwe_generic by assumption. exact E.
      - intros n. rewrite rwe_generic by assumption. exact (okres_src _ _ Gsrc).
      - exact E. }
    destruct (N.eqb k kName) eqn:Ek.
    { apply N.eqb_eq in Ek; subst k.
      destruct sc as [|[| | | |x| | |] [|]]; try discriminate.
      destruct fs as [|[|[kc [|] [|]|] [|]] [|]]; try discriminate.
      apply andb_prop in H as [Hr Hc].
      assert (Ectx : ek (T kc [] []) = Some [T kc [] []])
        by (apply orb_prop in Hc as [Hc|Hc]; apply N.eqb_eq in Hc; subst; reflexivity).
      set (t := T kName [SId x] [[T kc [] []]]) in *.
      assert (E : ek t = Some [t]) by (unfold t; rewrite ek_T, ekf_cons, ekl_cons, Ectx, ekl_nil, ekf_nil; reflexivity).
      pose proof (okres_src _ _ Gsrc) as Ot.
      split; [|split]; [| |exact E].
      - intros n. unfold t. rewrite !rwe_name. fold t. destruct (is_load [[T kc [] []]]); cbn [andb]; [|exact E].
        change (if sub c E_load_name then emit_ret E_load_name n t else t) with (wrap_if (sub c E_load_name) (emit_ret E_load_name n) t).
        change (if sub cK E_load_name then emit_ret E_load_name n t else t) with (wrap_if (inK K E_load_name) (emit_ret E_load_name n) t).
        apply ek_wrap; [exact E|apply Ot|reflexivity|apply Ksub].
      - intros n. unfold t. rewrite rwe_name. fold t. destruct (is_load _ && sub cK E_load_name); [|exact Ot].
        apply okres_emit_ret; reflexivity. }
    destruct (N.eqb k kConstant) eqn:Ec.
    { apply N.eqb_eq in Ec; subst k.
      destruct sc as [|v [|[| | | | | | |] [|]]]; try discriminate. destruct fs; [|discriminate].
      destruct (const_event [v; SNone]) as [e|] eqn:Ece; [|discriminate].
      set (t := T kConstant [v; SNone] []) in *.
      assert (E : ek t = Some [t]) by reflexivity.
      pose proof (okres_src _ _ Gsrc) as Ot.
      assert (Hp : plain_ev e = true /\ special_ev e = false /\ N.eqb (ev_code e) (ev_code E_before_stmt) = false)
        by (destruct v; cbn in Ece; inversion Ece; subst; repeat split; reflexivity).
      destruct Hp as (Hp & Hs & Hb).
      split; [|split]; [| |exact E].
      - intros n. unfold t. rewrite !rwe_constant, Ece. fold t.
        change (if sub c e then emit_ret e n t else t) with (wrap_if (sub c e) (emit_ret e n) t).
        change (if sub cK e then emit_ret e n t else t) with (wrap_if (inK K e) (emit_ret e n) t).
        apply ek_wrap; [exact E|apply Ot|exact Hp|apply Ksub].
      - intros n. unfold t. rewrite rwe_constant, Ece. fold t. destruct (sub cK e); [|exact Ot]. now apply okres_emit_ret. }
    destruct (N.eqb k kBinOp) eqn:Eb.
    { apply N.eqb_eq in Eb; subst k.
      destruct sc; [|discriminate]. destruct fs as [|[|l [|]] [|[|op [|]] [|[|r [|]] [|]]]]; try discriminate.
      pose proof (kidsK _ IH H) as G.
      inversion G as [|? ? Gl G1]; subst. inversion G1 as [|? ? Go G2]; subst. inversion G2 as [|? ? Gr _]; subst.
      inversion Gl as [|? ? [Hl [Ol Hl']] _]; subst. inversion Go as [|? ? [_ [_ Ho']] _]; subst.
      inversion Gr as [|? ? [Hr [Or Hr']] _]; subst.
      set (t := T kBinOp [] [[l]; [op]; [r]]) in *.
      assert (E : ek t = Some [t]) by (unfold t; rewrite ek_T, !ekf_cons, !ekl_cons, Hl', Ho', Hr', !ekl_nil, ekf_nil; reflexivity).
      split; [|split]; [| |exact E].
      - intros n. unfold t. rewrite !rwe_binop. cbv zeta.
        set (nr := n + 1 + nsize l + nsize op). set (nl := n + 1).
        set (L := wrap_if (sub c E_left_binop_arg) (emit_ret E_left_binop_arg nl) (rwe c l nl)).
        set (R := wrap_if (sub c E_right_binop_arg) (emit_ret E_right_binop_arg nr) (rwe c r nr)).
        set (L' := wrap_if (sub cK E_left_binop_arg) (emit_ret E_left_binop_arg nl) (rwe cK l nl)).
        set (R' := wrap_if (sub cK E_right_binop_arg) (emit_ret E_right_binop_arg nr) (rwe cK r nr)).
        assert (EL : ek L = Some [L']) by (apply ek_wrap; [apply Hl|apply (Ol nl)|reflexivity|apply Ksub]).
        assert (ER : ek R = Some [R']) by (apply ek_wrap; [apply Hr|apply (Or nr)|reflexivity|apply Ksub]).
        assert (Enode : ek (T kBinOp [] [[L]; [op]; [R]]) = Some [T kBinOp [] [[L']; [op]; [R']]])
          by (rewrite ek_T, !ekf_cons, !ekl_cons, EL, Ho', ER, !ekl_nil, ekf_nil; reflexivity).
        apply ek_wrap; [| |reflexivity|apply Ksub].
        + destruct (sub c E_before_binop) eqn:Es.
          * rewrite (ek_binop_thunk K E_before_binop n op L L' R R' Ho' EL ER eq_refl). reflexivity.
          * change (sub cK E_before_binop) with (inK K E_before_binop). rewrite (Knot _ Es). exact Enode.
        + destruct (sub cK E_before_binop); [apply okres_deferred|now apply tlam_parts_not_call].
      - intros n. unfold t. rewrite rwe_binop. cbv zeta. apply okres_wrap; try reflexivity.
        destruct (sub cK E_before_binop); [apply okres_deferred|].
        apply okres_plain; [apply plain_not_call; reflexivity|apply guard_test_other; reflexivity]. }
    destruct (N.eqb k kCompare) eqn:Ecmp.
    { apply N.eqb_eq in Ecmp; subst k.
      destruct sc; [|discriminate]. destruct fs as [|[|l [|]] [|ops [|comps [|]]]]; try discriminate.
      apply andb_prop in H as [H Hne]. apply andb_prop in H as [H _].
      pose proof (kidsK _ IH H) as G.
      inversion G as [|? ? Gl G1]; subst. inversion G1 as [|? ? Gops G2]; subst. inversion G2 as [|? ? Gcs _]; subst.
      inversion Gl as [|? ? [Hl [Ol Hl']] _]; subst.
      destruct (golK ops Gops) as [_ Eops]. destruct (golK comps Gcs) as [_ Ecs].
      set (t := T kCompare [] [[l]; ops; comps]) in *.
      assert (E : ek t = Some [t]) by (unfold t; rewrite ek_T, !ekf_cons, !ekl_cons, Hl', Eops, Ecs, !ekl_nil, ekf_nil; reflexivity).
      split; [|split]; [| |exact E].
      - intros n. unfold t. rewrite !rwe_compare. cbv zeta.
        set (nc := n + 1 + nsize l + nsizes ops). set (nl := n + 1).
        set (L := wrap_if (sub c E_left_compare_arg) (emit_ret E_left_compare_arg nl) (rwe c l nl)).
        set (L' := wrap_if (sub cK E_left_compare_arg) (emit_ret E_left_compare_arg nl) (rwe cK l nl)).
        assert (EL : ek L = Some [L']) by (apply ek_wrap; [apply Hl|apply (Ol nl)|reflexivity|apply Ksub]).
        pose proof (gocK comps Gcs nc) as F2.
        assert (Enode : ek (T kCompare [] [[L]; ops; goc c comps nc]) = Some [T kCompare [] [[L']; ops; goc cK comps nc]])
          by (rewrite ek_T, !ekf_cons, !ekl_cons, EL, Eops, (ekl_singles K _ _ F2), !ekl_nil, ekf_nil; reflexivity).
        destruct comps as [|c0 crest]; [discriminate|]. cbn [goc] in F2, Enode |- *.
        inversion F2 as [|? ? ? ? F0 Frest]; subst.
        apply ek_wrap; [| |reflexivity|apply Ksub].
        + destruct (sub c E_before_compare) eqn:Es.
          * rewrite (ek_compare_thunk K E_before_compare n ops L L' _ _ _ _ Eops (ekl_singles K _ _ Frest) EL F0 eq_refl). reflexivity.
          * change (sub cK E_before_compare) with (inK K E_before_compare). rewrite (Knot _ Es). exact Enode.
        + destruct (sub cK E_before_compare); [apply okres_deferred|now apply tlam_parts_not_call].
      - intros n. unfold t. rewrite rwe_compare. cbv zeta. apply okres_wrap; try reflexivity.
        destruct (sub cK E_before_compare).
        + destruct (goc cK comps _); [|apply okres_deferred].
          apply okres_plain; [apply plain_not_call; reflexivity|apply guard_test_other; reflexivity].
        + apply okres_plain; [apply plain_not_call; reflexivity|apply guard_test_other; reflexivity]. }
    assert (Gen : forall c0 n, rwe c0 (T k sc fs) n = T k sc (gof c0 fs (n + 1))) by (intros c0 n; now apply rwe_generic).
    destruct Gsrc as (_ & _ & Psrc & Gsrc).
    destruct (N.eqb k kUnaryOp) eqn:Eu.
    { apply N.eqb_eq in Eu; subst k.
      destruct sc; [|discriminate]. destruct fs as [|[|a [|]] [|[|b [|]] [|]]]; try discriminate.
      pose proof (kidsK _ IH H) as G. destruct (gofK _ G) as [G1 G2].
      split; [|split].
      - intros n. rewrite !Gen, ek_T, G1. reflexivity.
      - intros n. rewrite Gen. apply okres_plain; [apply plain_not_call; reflexivity|apply guard_test_other; reflexivity].
      - rewrite ek_T, G2. reflexivity. }
    destruct (N.eqb k kBoolOp) eqn:Ebo.
    { apply N.eqb_eq in Ebo; subst k.
      destruct sc; [|discriminate]. destruct fs as [|[|opn [|]] [|vs [|]]]; try discriminate.
      apply andb_prop in H as [H Hne].
      pose proof (kidsK _ IH H) as G. destruct (gofK _ G) as [G1 G2].
      split; [|split].
      - intros n. rewrite !Gen, ek_T, G1. reflexivity.
      - intros n. rewrite Gen. apply okres_plain; [apply plain_not_call; reflexivity|].
        inversion G as [|? ? _ G']; subst. inversion G' as [|? ? Gvs _]; subst.
        unfold is_guard_test. rewrite !name_is_false_kind by reflexivity. cbn [orb gof gol].
        destruct (rwe cK opn (n + 1)) as [ka ? ?|]; [|reflexivity]. destruct vs as [|v vs']; [reflexivity|]. cbn [gol].
        inversion Gvs as [|? ? [_ [Ov _]] _]; subst.
        destruct (Ov (n + 1 + nsizes [opn])) as (_ & Gv & _). destruct (guard_test_names _ Gv) as [A B]. rewrite A, B.
        now rewrite !andb_false_r.
      - rewrite ek_T, G2. reflexivity. }
    destruct (N.eqb k kIfExp) eqn:Eie; [|discriminate].
    apply N.eqb_eq in Eie; subst k.
    destruct sc; [|discriminate]. destruct fs as [|[|a [|]] [|[|b [|]] [|[|o [|]] [|]]]]; try discriminate.
    pose proof (kidsK _ IH H) as G. destruct (gofK _ G) as [G1 G2].
    inversion G as [|? ? Ga _]; subst. inversion Ga as [|? ? [_ [Oa _]] _]; subst.
    split; [|split].
    - intros n. rewrite !Gen, ek_T, G1. cbn [gof gol]. unfold postk.
      change (N.eqb kIfExp kCall) with false. change (N.eqb kIfExp kIfExp) with true. cbv iota.
      destruct (Oa (n + 1)) as (_ & Gt & _). now rewrite Gt.
    - intros n. rewrite Gen. apply okres_plain; [apply plain_not_call; reflexivity|apply guard_test_other; reflexivity].
    - rewrite ek_T, G2. unfold postk.
      change (N.eqb kIfExp kCall) with false. change (N.eqb kIfExp kIfExp) with true. cbv iota.
      unfold is_guard_test in Gsrc. (* the test of the source node *)
      assert (Gt : is_guard_test a = false).
      { apply andb_prop in H as [H _]. cbn [forallb] in H. apply andb_prop in H as [Ha _].
        now destruct (rwe_erase cK a Ha) as (_ & _ & _ & Gt). }
      now rewrite Gt.
  Qed.
End KMain.

(* ---- statements: the canonical K-form of a statement's expansion (what the K-erasure of the expansion under ANY
        subscription set containing K looks like) *)
Section KStmts.
  Variable K : list N.
  Notation ek := (erasek K).
  Notation ekl := (erase_gen_list (postk K)).
  Notation cK := (cK K).
  Notation inK := (inK K).

  Definition ret_kept : bool := inK E_after_stmt || inK E_after_module_stmt.     (* an after_stmt site that carries a value *)
  Definition after_k (is_module : bool) (n : N) (m : tree) (m_is_expr : bool) (m_value : tree) : list tree :=
    if m_is_expr && is_module then (if ret_kept then [stmt_emit E_after_stmt n [kw id_ret m_value]] else [m])
    else m :: (if inK E_after_stmt then [stmt_emit E_after_stmt n []] else []).

  Fixpoint rwsK (is_module : bool) (s : tree) (n : N) {struct s} : list tree :=
    match s with
    | NoneNode => [NoneNode]
    | T k sc fs =>
        let body_list := fix gol (u : list tree) (j : N) {struct u} : list tree :=
                           match u with [] => [] | x :: u' => rwsK false x j ++ gol u' (j + nsize x) end in
        let main : tree :=
          if N.eqb k kIf then
            match fs with
            | [[test]; b; o] =>
                let nb := n + 1 + nsize test in
                T k sc [[wrap_if (inK E_after_if_test) (emit_ret E_after_if_test n) (rwe cK test (n + 1))]; body_list b nb; body_list o (nb + nsizes b)]
            | _ => s
            end
          else main_of cK k sc fs n in
        let own := after_k is_module n main (N.eqb k kExpr) (match main with T _ _ [[v]] => v | _ => main end) in
        let expanded :=
          if inK E_before_stmt
          then [T kIf [] [[emit_call E_before_stmt n []]; after_k is_module n (expr_stmt thunk_call) true thunk_call; own]]
          else own in
        if is_module && inK E_after_module_stmt
        then expanded ++ [stmt_emit E_after_module_stmt n [kw id_ret (emit_call E_priv_load_saved_expr_stmt_ret n [])]]
        else expanded
    end.
  Fixpoint blK (u : list tree) (j : N) {struct u} : list tree :=
    match u with [] => [] | x :: u' => rwsK false x j ++ blK u' (j + nsize x) end.
  Definition mainK (k : N) (sc : list scalar) (fs : list (list tree)) (n : N) : tree :=
    if N.eqb k kIf then
      match fs with
      | [[test]; b; o] =>
          let nb := n + 1 + nsize test in
          T k sc [[wrap_if (inK E_after_if_test) (emit_ret E_after_if_test n) (rwe cK test (n + 1))]; blK b nb; blK o (nb + nsizes b)]
      | _ => T k sc fs
      end
    else main_of cK k sc fs n.
  Lemma rwsK_T is_module k sc fs n :
    rwsK is_module (T k sc fs) n =
      let main := mainK k sc fs n in
      let own := after_k is_module n main (N.eqb k kExpr) (match main with T _ _ [[v]] => v | _ => main end) in
      let expanded :=
        if inK E_before_stmt
        then [T kIf [] [[emit_call E_before_stmt n []]; after_k is_module n (expr_stmt thunk_call) true thunk_call; own]]
        else own in
      if is_module && inK E_after_module_stmt
      then expanded ++ [stmt_emit E_after_module_stmt n [kw id_ret (emit_call E_priv_load_saved_expr_stmt_ret n [])]]
      else expanded.
  Proof. reflexivity. Qed.

  Hypothesis HKpriv : inK E_priv_load_saved_expr_stmt_ret = false.

  Lemma ek_stmt_emit_noret e n : ek (stmt_emit e n []) = Some (if inK e then [stmt_emit e n []] else []).
  Proof.
    unfold stmt_emit, expr_stmt, emit_call.
    rewrite ek_T, ekf_cons, ekl_cons. 
    assert (Hc : ek (T kCall [] [[nm_load id_emit]; [cst_ev e; cst_nid n]; []]) = Some [T kCall [] [[nm_load id_emit]; [cst_ev e; cst_nid n]; []]]) by reflexivity.
    rewrite Hc, ekl_nil, ekf_nil. cbn [app].
    unfold postk. change (N.eqb kExpr kCall) with false. change (N.eqb kExpr kIfExp) with false. change (N.eqb kExpr kIf) with false.
    change (N.eqb kExpr kTry) with false. change (N.eqb kExpr kExpr) with true. cbv iota.
    cbn [emit_parts nm_load cst_ev cst_nid name_is].
    change (N.eqb kCall kCall && (N.eqb kName kName && N.eqb id_emit id_emit) && N.eqb kConstant kConstant && N.eqb kConstant kConstant) with true.
    cbv iota. cbn [kw_value find]. unfold keeps. cbn [andb]. rewrite orb_false_r. unfold Prune.mem, RwFragProj.inK, Prune.mem.
    destruct (existsb (N.eqb (ev_code e)) K); reflexivity.
  Qed.

  (* an after_stmt site that carries the value of a module-level expression statement *)
  Lemma ek_after_stmt_ret n v v' : ek v = Some [v'] -> okres v' ->
    ek (stmt_emit E_after_stmt n [kw id_ret v]) = Some [if ret_kept then stmt_emit E_after_stmt n [kw id_ret v'] else expr_stmt v'].
  Proof.
    intros Hv Ov. pose proof Ov as (Tv & _). unfold stmt_emit, expr_stmt.
    assert (Hc : ek (emit_call E_after_stmt n [kw id_ret v]) =
                 Some [if ret_kept then emit_call E_after_stmt n [kw id_ret v'] else v']).
    { unfold emit_call. rewrite ek_T, !ekf_cons, !ekl_cons, ek_nm_load, ek_cst_ev, ek_cst_nid, (ek_kw K id_ret v v' Hv), !ekl_nil, ekf_nil. cbn [app].
      unfold postk. change (N.eqb kCall kCall) with true. cbv iota.
      cbn [emit_parts nm_load cst_ev cst_nid name_is].
      change (N.eqb kCall kCall && (N.eqb kName kName && N.eqb id_emit id_emit) && N.eqb kConstant kConstant && N.eqb kConstant kConstant) with true.
      cbv iota. unfold kw_value, kw. cbn [find].
      change (N.eqb kkeyword kkeyword && N.eqb id_ret id_ret) with true. cbv iota.
      rewrite Tv.
      change (is_subscript_before_event (ev_code E_after_stmt) || is_body_bracket_event (ev_code E_after_stmt)) with false. cbv iota.
      unfold keeps. rewrite N.eqb_refl. cbn [andb]. unfold ret_kept, RwFragProj.inK.
      destruct (Prune.mem (ev_code E_after_stmt) K || Prune.mem (ev_code E_after_module_stmt) K); reflexivity. }
    rewrite ek_T, ekf_cons, ekl_cons, Hc, ekl_nil, ekf_nil. cbn [app].
    destruct ret_kept.
    - reflexivity.
    - now apply postk_expr_ok.
  Qed.

  Lemma ek_after_module_line n :
    ek (stmt_emit E_after_module_stmt n [kw id_ret (emit_call E_priv_load_saved_expr_stmt_ret n [])])
    = Some (if inK E_after_module_stmt then [stmt_emit E_after_module_stmt n [kw id_ret (emit_call E_priv_load_saved_expr_stmt_ret n [])]] else []).
  Proof.
    unfold stmt_emit, expr_stmt.
    assert (Hi : ek (emit_call E_priv_load_saved_expr_stmt_ret n []) = Some [emit_call E_priv_load_saved_expr_stmt_ret n []]) by reflexivity.
    assert (Hc : ek (emit_call E_after_module_stmt n [kw id_ret (emit_call E_priv_load_saved_expr_stmt_ret n [])]) =
                 Some [if inK E_after_module_stmt then emit_call E_after_module_stmt n [kw id_ret (emit_call E_priv_load_saved_expr_stmt_ret n [])]
                       else emit_call E_priv_load_saved_expr_stmt_ret n []]).
    { unfold emit_call at 1. rewrite ek_T, !ekf_cons, !ekl_cons, ek_nm_load, ek_cst_ev, ek_cst_nid, (ek_kw K id_ret _ _ Hi), !ekl_nil, ekf_nil. cbn [app].
      unfold postk. change (N.eqb kCall kCall) with true. cbv iota.
      cbn [emit_parts nm_load cst_ev cst_nid name_is].
      change (N.eqb kCall kCall && (N.eqb kName kName && N.eqb id_emit id_emit) && N.eqb kConstant kConstant && N.eqb kConstant kConstant) with true.
      cbv iota. unfold kw_value, kw. cbn [find].
      change (N.eqb kkeyword kkeyword && N.eqb id_ret id_ret) with true. cbv iota.
      change (tlam_parts (emit_call E_priv_load_saved_expr_stmt_ret n [])) with (@None (tree * tree)). cbv iota.
      change (is_subscript_before_event (ev_code E_after_module_stmt) || is_body_bracket_event (ev_code E_after_module_stmt)) with false. cbv iota.
      unfold keeps. change (N.eqb (ev_code E_after_module_stmt) (ev_code E_after_stmt)) with false. rewrite andb_false_r, orb_false_r.
      unfold RwFragProj.inK. destruct (Prune.mem (ev_code E_after_module_stmt) K); reflexivity. }
    rewrite ek_T, ekf_cons, ekl_cons, Hc, ekl_nil, ekf_nil. cbn [app].
    destruct (inK E_after_module_stmt) eqn:Ek.
    - reflexivity.
    - unfold postk. change (N.eqb kExpr kCall) with false. change (N.eqb kExpr kIfExp) with false. change (N.eqb kExpr kIf) with false.
      change (N.eqb kExpr kTry) with false. change (N.eqb kExpr kExpr) with true. cbv iota.
      cbn [emit_parts emit_call nm_load cst_ev cst_nid name_is].
      change (N.eqb kCall kCall && (N.eqb kName kName && N.eqb id_emit id_emit) && N.eqb kConstant kConstant && N.eqb kConstant kConstant) with true.
      cbv iota. cbn [kw_value find]. unfold keeps. cbn [andb]. rewrite orb_false_r.
      unfold RwFragProj.inK in HKpriv. now rewrite HKpriv.
  Qed.
End KStmts.

Section KStmtMain.
  Variable K : list N.
  Variable c : rcfg.
  Hypothesis Ksub : forall e, inK K e = true -> sub c e = true.
  Hypothesis HKpriv : inK K E_priv_load_saved_expr_stmt_ret = false.
  Notation ek := (erasek K).
  Notation ekl := (erase_gen_list (postk K)).
  Notation cK := (cK K).
  Notation inK := (inK K).

  Lemma ek_thunk_call : ek thunk_call = Some [thunk_call].
  Proof. reflexivity. Qed.
  Lemma okres_thunk_call : okres thunk_call.
  Proof. apply okres_plain; [apply plain_thunk_call|reflexivity]. Qed.
  Lemma ek_expr_stmt v v' : ek v = Some [v'] -> okres v' -> ek (expr_stmt v) = Some [expr_stmt v'].
  Proof. intros H O. unfold expr_stmt. rewrite ek_T, ekf_cons, ekl_cons, H, ekl_nil, ekf_nil. cbn [app]. now apply postk_expr_ok. Qed.

  Lemma after_ok is_module n m m' (isx : bool) v v' :
    ek m = Some [m'] -> (isx = true -> m = expr_stmt v /\ m' = expr_stmt v' /\ ek v = Some [v'] /\ okres v') ->
    ekl (main_and_after c is_module n m isx v) = Some (after_k K is_module n m' isx v').
  Proof.
    intros Hm Hx. unfold main_and_after, after_k.
    destruct (isx && is_module) eqn:Exm.
    - apply andb_prop in Exm as [Ex Em]. subst isx is_module. destruct (Hx eq_refl) as (-> & -> & Hv & Ov).
      destruct (sub c E_after_stmt || (sub c E_after_module_stmt && true)) eqn:Ew.
      + rewrite ekl_cons, (ek_after_stmt_ret K n v v' Hv Ov), ekl_nil. cbn [app]. now destruct (ret_kept K).
      + apply orb_false_elim in Ew as [E1 E2]. rewrite andb_true_r in E2.
        unfold ret_kept. rewrite (Knot K c Ksub _ E1), (Knot K c Ksub _ E2). cbn [orb]. now rewrite ekl_cons, Hm, ekl_nil.
    - destruct (sub c E_after_stmt || (sub c E_after_module_stmt && is_module)) eqn:Ew.
      + rewrite !ekl_cons, Hm, (ek_stmt_emit_noret K E_after_stmt n), ekl_nil. cbn [app]. now destruct (inK E_after_stmt).
      + apply orb_false_elim in Ew as [E1 _]. rewrite (Knot K c Ksub _ E1). now rewrite ekl_cons, Hm, ekl_nil.
  Qed.

  Lemma thunk_head is_module n : exists v rest, after_k K is_module n (expr_stmt thunk_call) true thunk_call = T kExpr [] [[v]] :: rest /\ is_thunk_value v = true.
  Proof.
    unfold after_k. destruct is_module; cbn [andb].
    - destruct (ret_kept K); eexists; eexists; split; reflexivity.
    - eexists; eexists; split; reflexivity.
  Qed.

  Lemma expansionK is_module k sc fs n :
    ek (main_of c k sc fs n) = Some [mainK K k sc fs n] ->
    (N.eqb k kExpr = true -> exists v v', main_of c k sc fs n = expr_stmt v /\ mainK K k sc fs n = expr_stmt v' /\ ek v = Some [v'] /\ okres v') ->
    ekl (rws c is_module (T k sc fs) n) = Some (rwsK K is_module (T k sc fs) n).
  Proof.
    intros Hm Hexpr. rewrite rws_T, rwsK_T. cbv zeta.
    set (main := main_of c k sc fs n) in *. set (mainK' := mainK K k sc fs n) in *.
    set (own := RwFragProofs.main_and_after c is_module n main (N.eqb k kExpr) _).
    set (ownK := after_k K is_module n mainK' (N.eqb k kExpr) _).
    assert (Hown : ekl own = Some ownK).
    { unfold own, ownK. destruct (N.eqb k kExpr) eqn:Ek.
      - destruct (Hexpr eq_refl) as (v & v' & Em & Em' & Hv & Ov). rewrite Em, Em'.
        apply (after_ok is_module n (expr_stmt v) (expr_stmt v') true v v'); [rewrite <- Em, <- Em'; exact Hm|]. intros _. split; [reflexivity|split; [reflexivity|split; [exact Hv|exact Ov]]].
      - apply after_ok; [exact Hm|discriminate]. }
    assert (Hthunk : ekl (RwFragProofs.main_and_after c is_module n (expr_stmt thunk_call) true thunk_call)
                     = Some (after_k K is_module n (expr_stmt thunk_call) true thunk_call)).
    { apply after_ok; [apply ek_expr_stmt; [apply ek_thunk_call|apply okres_thunk_call]|].
      intros _. split; [reflexivity|split; [reflexivity|split; [apply ek_thunk_call|apply okres_thunk_call]]]. }
    assert (Hexp : ekl (if sub c E_before_stmt
                        then [T kIf [] [[emit_call E_before_stmt n []]; RwFragProofs.main_and_after c is_module n (expr_stmt thunk_call) true thunk_call; own]]
                        else own)
                   = Some (if inK E_before_stmt
                           then [T kIf [] [[emit_call E_before_stmt n []]; after_k K is_module n (expr_stmt thunk_call) true thunk_call; ownK]]
                           else ownK)).
    { destruct (sub c E_before_stmt) eqn:Eb; [|now rewrite (Knot K c Ksub _ Eb)].
      assert (Et : ek (emit_call E_before_stmt n []) = Some [emit_call E_before_stmt n []]) by reflexivity.
      rewrite ekl_cons, ek_T, !ekf_cons, !ekl_cons, Et, Hthunk, Hown, !ekl_nil, ekf_nil. cbn [app].
      unfold postk. change (N.eqb kIf kCall) with false. change (N.eqb kIf kIfExp) with false. change (N.eqb kIf kIf) with true. cbv iota.
      change (is_guard_test (emit_call E_before_stmt n [])) with false. cbv iota.
      change (is_emit_of E_before_stmt (emit_call E_before_stmt n [])) with true. cbv iota.
      unfold keeps. cbn [andb]. rewrite orb_false_r. fold (inK E_before_stmt).
      destruct (inK E_before_stmt); [reflexivity|].
      destruct (thunk_head is_module n) as (v & rest & -> & Hv). rewrite Hv. change (N.eqb kExpr kExpr) with true. cbn [andb]. now rewrite app_nil_r. }
    destruct (is_module && sub c E_after_module_stmt) eqn:Ea.
    - apply andb_prop in Ea as [-> Ea]. rewrite ekl_app, Hexp, ekl_cons, (ek_after_module_line K HKpriv n), ekl_nil. cbn [andb app].
      destruct (inK E_after_module_stmt); [reflexivity|now rewrite app_nil_r].
    - rewrite Hexp. destruct is_module; [|reflexivity]. cbn [andb] in Ea |- *. now rewrite (Knot K c Ksub _ Ea).
  Qed.

  Lemma blK_ok u : Forall (fun x => forall im n, ekl (rws c im x n) = Some (rwsK K im x n)) u -> forall j, ekl (bl c u j) = Some (blK K u j).
  Proof.
    induction 1 as [|x u Hx _ IH]; intros j; [reflexivity|]. cbn [bl blK]. now rewrite ekl_app, Hx, IH.
  Qed.

  Definition PsK (s : tree) : Prop := in_frag_s s = true -> forall im n, ekl (rws c im s n) = Some (rwsK K im s n).
  Lemma stmtsK u : Forall PsK u -> forallb in_frag_s u = true -> Forall (fun x => forall im n, ekl (rws c im x n) = Some (rwsK K im x n)) u.
  Proof.
    induction 1 as [|x u Hx _ IH]; intros H; [constructor|]. cbn [forallb] in H. apply andb_prop in H as [A B].
    constructor; [now apply Hx|now apply IH].
  Qed.
  Lemma forall_goodK l : forallb in_frag_e l = true -> Forall (GoodK K c) l.
  Proof.
    induction l as [|x l IH]; intros H; [constructor|]. cbn [forallb] in H. apply andb_prop in H as [A B].
    constructor; [now apply rwe_proj|now apply IH].
  Qed.

  Theorem rws_proj : forall s, PsK s.
  Proof.
    induction s as [|k sc fs IH] using tree_ind2; intros H; [discriminate|]. intros im n.
    rewrite in_frag_s_T in H.
    destruct (N.eqb k kExpr) eqn:Ee.
    { apply N.eqb_eq in Ee; subst k. destruct sc; [|discriminate]. destruct fs as [|[|v [|]] [|]]; try discriminate.
      destruct (rwe_proj K c Ksub v H) as (Hv & Ov & _).
      set (V := wrap_if (sub c E_after_expr_stmt) (emit_ret E_after_expr_stmt n) (rwe c v (n + 1))).
      set (V' := wrap_if (inK E_after_expr_stmt) (emit_ret E_after_expr_stmt n) (rwe cK v (n + 1))).
      assert (EV : ek V = Some [V']) by (apply ek_wrap; [apply Hv|apply (Ov (n + 1))|reflexivity|apply Ksub]).
      assert (OV : okres V') by (apply okres_wrap; [apply (Ov (n + 1))|reflexivity|reflexivity]).
      apply expansionK.
      - change (main_of c kExpr [] [[v]] n) with (expr_stmt V). change (mainK K kExpr [] [[v]] n) with (expr_stmt V').
        now apply ek_expr_stmt.
      - intros _. exists V, V'. split; [reflexivity|split; [reflexivity|split; [exact EV|exact OV]]]. }
    destruct (N.eqb k kAssign) eqn:Ea.
    { apply N.eqb_eq in Ea; subst k. destruct sc as [|[| | | | | | |] [|]]; try discriminate.
      destruct fs as [|targets [|[|v [|]] [|]]]; try discriminate.
      apply andb_prop in H as [H Hv]. apply andb_prop in H as [Ht _].
      destruct (rwe_proj K c Ksub v Hv) as (Hv1 & Ov & _).
      destruct (golK K c targets (forall_goodK targets Ht)) as [_ Et].
      apply expansionK; [|discriminate].
      set (nv := n + 1 + nsizes targets).
      change (main_of c kAssign [SNone] [targets; [v]] n) with
        (T kAssign [SNone] [targets; [wrap_if (sub c E_after_assign_rhs) (emit_ret E_after_assign_rhs nv)
           (if sub c E_before_assign_rhs then emit_deferred E_before_assign_rhs nv (tlam no_args (rwe c v nv)) [] else rwe c v nv)]]).
      change (mainK K kAssign [SNone] [targets; [v]] n) with
        (T kAssign [SNone] [targets; [wrap_if (inK E_after_assign_rhs) (emit_ret E_after_assign_rhs nv)
           (if inK E_before_assign_rhs then emit_deferred E_before_assign_rhs nv (tlam no_args (rwe cK v nv)) [] else rwe cK v nv)]]).
      set (V := wrap_if (sub c E_after_assign_rhs) _ _). set (V' := wrap_if (inK E_after_assign_rhs) _ _).
      assert (EV : ek V = Some [V']).
      { apply ek_wrap; [| |reflexivity|apply Ksub].
        - destruct (sub c E_before_assign_rhs) eqn:Es.
          + now rewrite (ek_deferred0 K E_before_assign_rhs nv _ _ (Hv1 nv) eq_refl).
          + rewrite (Knot K c Ksub _ Es). apply Hv1.
        - destruct (inK E_before_assign_rhs); [apply okres_deferred|apply (Ov nv)]. }
      rewrite ek_T, !ekf_cons, !ekl_cons, Et, EV, !ekl_nil, ekf_nil. reflexivity. }
    destruct (N.eqb k kPass) eqn:Ep.
    { apply N.eqb_eq in Ep; subst k. destruct sc; [|discriminate]. destruct fs; [|discriminate].
      apply expansionK; [reflexivity|discriminate]. }
    destruct (N.eqb k kIf) eqn:Ei; [|discriminate].
    apply N.eqb_eq in Ei; subst k. destruct sc; [|discriminate]. destruct fs as [|[|test [|]] [|b [|o [|]]]]; try discriminate.
    apply andb_prop in H as [H Ho]. apply andb_prop in H as [H Hb]. apply andb_prop in H as [Ht _].
    destruct (rwe_proj K c Ksub test Ht) as (Ht1 & Ot & _).
    inversion IH as [|? ? _ IH1]; subst. inversion IH1 as [|? ? IHb IH2]; subst. inversion IH2 as [|? ? IHo _]; subst.
    pose proof (blK_ok b (stmtsK b IHb Hb)) as Bb. pose proof (blK_ok o (stmtsK o IHo Ho)) as Bo.
    apply expansionK; [|discriminate].
    change (main_of c kIf [] [[test]; b; o] n) with
      (T kIf [] [[wrap_if (sub c E_after_if_test) (emit_ret E_after_if_test n) (rwe c test (n + 1))];
                 bl c b (n + 1 + nsize test); bl c o (n + 1 + nsize test + nsizes b)]).
    change (mainK K kIf [] [[test]; b; o] n) with
      (T kIf [] [[wrap_if (inK E_after_if_test) (emit_ret E_after_if_test n) (rwe cK test (n + 1))];
                 blK K b (n + 1 + nsize test); blK K o (n + 1 + nsize test + nsizes b)]).
    set (V := wrap_if (sub c E_after_if_test) _ _). set (V' := wrap_if (inK E_after_if_test) _ _).
    assert (EV : ek V = Some [V']) by (apply ek_wrap; [apply Ht1|apply (Ot (n + 1))|reflexivity|apply Ksub]).
    assert (OV : okres V') by (apply okres_wrap; [apply (Ot (n + 1))|reflexivity|reflexivity]).
    rewrite ek_T, !ekf_cons, !ekl_cons, EV, Bb, Bo, !ekl_nil, ekf_nil. cbn [app].
    unfold postk. change (N.eqb kIf kCall) with false. change (N.eqb kIf kIfExp) with false. change (N.eqb kIf kIf) with true. cbv iota.
    destruct OV as (_ & G1 & G2 & _). now rewrite G1, G2.
  Qed.
End KStmtMain.

Section KModule.
  Variable K : list N.
  Hypothesis HKpriv : inK K E_priv_load_saved_expr_stmt_ret = false.
  Notation ek := (erasek K).
  Notation ekl := (erase_gen_list (postk K)).

  Fixpoint rw_bodyK (u : list tree) (j : N) {struct u} : list tree :=
    match u with [] => [] | x :: u' => rwsK K true x j ++ rw_bodyK u' (j + nsize x) end.
  Definition rw_moduleK (m : tree) : tree :=
    match m with
    | T k sc [body; ti] =>
        T k sc [mod_doc body
                ++ (if inK K E_init_module then [stmt_emit E_init_module 0 []] else [])
                ++ rw_bodyK (mod_rest body) (mod_start body)
                ++ (if inK K E_exit_module then [stmt_emit E_exit_module 0 []] else []); ti]
    | _ => m
    end.

  Section C.
    Variable c : rcfg.
    Hypothesis Ksub : forall e, inK K e = true -> sub c e = true.

    Lemma rw_body_proj body : forallb in_frag_s body = true -> forall j, ekl (rw_body c true body j) = Some (rw_bodyK body j).
    Proof.
      induction body as [|x u IH]; intros H j; [reflexivity|]. cbn [forallb] in H. apply andb_prop in H as [A B].
      change (rw_body c true (x :: u) j) with (rws c true x j ++ rw_body c true u (j + nsize x)).
      cbn [rw_bodyK]. now rewrite ekl_app, (rws_proj K c Ksub HKpriv x A), IH.
    Qed.

    Lemma ek_docstring_stmt d : is_docstring_strict d = true -> ek d = Some [d].
    Proof.
      destruct d as [k sc fs|]; [|discriminate]. cbn [is_docstring_strict].
      destruct sc as [|? ?]; [|discriminate]. destruct fs as [|[|[kc [|[] sc'] [|? ?]|] [|? ?]] [|? ?]]; try discriminate.
      intros H. apply andb_prop in H as [Hk Hc]. apply N.eqb_eq in Hk, Hc. subst k kc. reflexivity.
    Qed.
    Lemma mod_doc_proj body : ekl (mod_doc body) = Some (mod_doc body).
    Proof.
      destruct body as [|d rest]; [reflexivity|]. unfold mod_doc. destruct (is_docstring_strict d) eqn:Ed; [|reflexivity].
      now rewrite ekl_cons, (ek_docstring_stmt d Ed), ekl_nil.
    Qed.

    (* K-erasing the rewrite of a fragment module under ANY subscription set containing K gives one and the same tree *)
    Theorem rw_module_proj m : in_frag m = true -> ek (rw_module c m) = Some [rw_moduleK m].
    Proof.
      intros H. destruct m as [k sc fs|]; [|discriminate]. unfold in_frag in H.
      destruct sc; [|discriminate]. destruct fs as [|body [|[|] [|]]]; try discriminate.
      apply andb_prop in H as [Hk Hb]. apply N.eqb_eq in Hk; subst k.
      unfold rw_module, rw_moduleK. rewrite ek_T, !ekf_cons, !ekl_app, mod_doc_proj, (rw_body_proj _ (mod_rest_frag body Hb)).
      assert (Ei : ekl (if sub c E_init_module then [stmt_emit E_init_module 0 []] else []) =
                   Some (if inK K E_init_module then [stmt_emit E_init_module 0 []] else [])).
      { destruct (sub c E_init_module) eqn:E.
        - rewrite ekl_cons, (ek_stmt_emit_noret K E_init_module 0), ekl_nil. now destruct (inK K E_init_module).
        - now rewrite (Knot K c Ksub _ E). }
      assert (Ee : ekl (if sub c E_exit_module then [stmt_emit E_exit_module 0 []] else []) =
                   Some (if inK K E_exit_module then [stmt_emit E_exit_module 0 []] else [])).
      { destruct (sub c E_exit_module) eqn:E.
        - rewrite ekl_cons, (ek_stmt_emit_noret K E_exit_module 0), ekl_nil. now destruct (inK K E_exit_module).
        - now rewrite (Knot K c Ksub _ E). }
      rewrite Ei, Ee, ekl_nil, ekf_nil. reflexivity.
    Qed.
  End C.

  Lemma trees_eqb_refl l : trees_eqb l l = true.
  Proof. induction l as [|x l IH]; [reflexivity|]. cbn. now rewrite tree_eqb_refl, IH. Qed.

  (* the projection certificate holds for the model: the rewrite for K alone and the rewrite for any superset of K
     K-erase to the same tree *)
  Theorem rw_module_check_proj c m : (forall e, inK K e = true -> sub c e = true) -> in_frag m = true ->
    check_proj K (rw_module (cK K) m) (rw_module c m) = true.
  Proof.
    intros Ksub H. unfold check_proj.
    rewrite (rw_module_proj (cK K) (fun e He => He) m H), (rw_module_proj c Ksub m H). apply trees_eqb_refl.
  Qed.
End KModule.
