(* C09: under the composed tracer the handler log is the plain event stream filtered by the subscription, and a
   third-party trace function sees exactly what it sees without pyccolo. *)
From Coq Require Import List NArith Bool Lia.
Import ListNotations.
From PyccoloV Require Import model.SysTrace.

Fixpoint node_ind2 (P : node -> Prop) (H : forall t cs, Forall P cs -> P (Nd t cs)) (n : node) : P n :=
  match n with
  | Nd t cs => H t cs ((fix go (l : list node) : Forall P l :=
                          match l with [] => Forall_nil P | x :: l' => Forall_cons x (node_ind2 P H x) (go l') end) cs)
  end.

Lemma hl_app a b : handler_log (a ++ b) = handler_log a ++ handler_log b.
Proof. unfold handler_log. now rewrite filter_app, map_app. Qed.
Lemma tl_app a b : third_log (a ++ b) = third_log a ++ third_log b.
Proof. unfold third_log. now rewrite filter_app. Qed.

(* the third party's local function for a frame is stable: a third-party function called for a non-call event
   returns itself (or nothing when there is none) *)
Definition tp_local (v : tfv) : bool := match v with VNone | VTpGlob | VTpLoc => true | _ => false end.
Definition is_call (e : sevt) : bool := match e with SCall => true | _ => false end.

Lemma call_tp_keeps c v e name : tp_local v = true -> is_call e = false ->
  (if is_none (fst (call_tp c v e name)) then v else fst (call_tp c v e name)) = v.
Proof. intros Hv He. unfold call_tp. destruct (tp c), v, e; cbn in *; try discriminate; reflexivity. Qed.
Lemma call_tp_handler c v e name : handler_log (snd (call_tp c v e name)) = [].
Proof. unfold call_tp. destruct (tp c), v, e; reflexivity. Qed.
Lemma call_tp_local c v e name : tp_local (fst (call_tp c v e name)) = true.
Proof. unfold call_tp. destruct (tp c) as [t|], v, e; cbn; try reflexivity; destruct (tp_accepts t name), (tp_self t); reflexivity. Qed.
Lemma call_tp_none c e name : call_tp c VNone e name = (VNone, []).
Proof. unfold call_tp. destruct (tp c); reflexivity. Qed.

(* relation between the frame's local trace function under pyccolo (ft) and without it (fp) *)
Definition rel (c : cfg) (acc : bool) (ft fp : tfv) : Prop :=
  tp_local fp = true /\
  (if acc then ft = (match tp c with Some _ => VComp fp | None => VSys end) /\ (tp c = None -> fp = VNone)
   else ft = fp).

(* one non-call event delivered to related local functions *)
Lemma event_step c acc name ft fp e : rel c acc ft fp -> is_call e = false ->
  let '(r, l) := call_v c ft e acc name in
  let '(rp, lp) := call_v c fp e acc name in
  rel c acc (if is_none r then ft else r) (if is_none rp then fp else rp) /\
  handler_log l = (if acc && sub c e then [(e, name)] else []) /\
  third_log l = third_log lp.
Proof.
  intros [Hl Hr] He. destruct acc.
  - destruct Hr as [-> Hn]. destruct (tp c) as [t|] eqn:Et.
    + unfold call_v at 1. cbn [andb].
      assert (Hfp : call_v c fp e true name = call_tp c fp e name).
      { unfold call_v. destruct fp; try discriminate; auto. unfold call_tp. rewrite Et. reflexivity. }
      rewrite Hfp.
      pose proof (call_tp_keeps c fp e name Hl He) as Hk. pose proof (call_tp_handler c fp e name) as Hh.
      destruct (call_tp c fp e name) as [rp lp] eqn:Ec. cbn [fst snd] in Hk, Hh.
      destruct e; try discriminate; cbn [is_none]; rewrite Hk.
      all: split; [split; [exact Hl|rewrite Et; split; [reflexivity|intros; discriminate]]|].
      all: rewrite hl_app, tl_app, Hh; split; [destruct (sub c _); reflexivity|destruct (sub c _); reflexivity].
    + specialize (Hn eq_refl). subst fp. unfold call_v. cbn [andb]. rewrite Et. rewrite call_tp_none.
      destruct e; try discriminate; cbn [is_none].
      all: split; [split; [reflexivity|rewrite Et; split; auto]|].
      all: rewrite app_nil_r; split; [destruct (sub c _); reflexivity|destruct (sub c _); reflexivity].
  - subst ft. 
    assert (Hfp : call_v c fp e false name = call_tp c fp e name).
    { unfold call_v. destruct fp; try discriminate; auto. symmetry. apply call_tp_none. }
    rewrite Hfp. destruct (call_tp c fp e name) as [rp lp] eqn:Ec.
    pose proof (call_tp_keeps c fp e name Hl He) as Hk. rewrite Ec in Hk. cbn [fst] in Hk. rewrite Hk.
    pose proof (call_tp_handler c fp e name) as Hh. rewrite Ec in Hh. cbn [snd] in Hh.
    repeat split; auto.
Qed.

(* the 'call' event of a frame, delivered to the global functions *)
Lemma call_step c acc name :
  let '(ft, l) := call_v c VSys SCall acc name in
  let '(fp, lp) := call_v c (global_of c) SCall acc name in
  rel c acc ft fp /\ handler_log l = (if acc && sub c SCall then [(SCall, name)] else []) /\ third_log l = third_log lp.
Proof.
  unfold call_v at 1. unfold global_of. destruct (tp c) as [t|] eqn:Et.
  - assert (Hg : call_v c VTpGlob SCall acc name = call_tp c VTpGlob SCall name) by reflexivity. rewrite Hg.
    destruct (call_tp c VTpGlob SCall name) as [fp lp] eqn:Ec.
    pose proof (call_tp_local c VTpGlob SCall name) as Hl. rewrite Ec in Hl. cbn [fst] in Hl.
    pose proof (call_tp_handler c VTpGlob SCall name) as Hh. rewrite Ec in Hh. cbn [snd] in Hh.
    cbn [is_none negb]. destruct acc; cbn [andb].
    + split.
      * split; auto. rewrite Et. split; [|intros; discriminate]. destruct fp; try discriminate; reflexivity.
      * rewrite hl_app, tl_app, Hh. split; destruct (sub c SCall); reflexivity.
    + cbn [app]. split; [split; auto|]. rewrite Hh. auto.
  - rewrite call_tp_none. cbn. destruct acc; cbn [andb].
    + split; [split; [reflexivity|rewrite Et; auto]|]. rewrite app_nil_r. split; destruct (sub c SCall); reflexivity.
    + split; [split; [reflexivity|reflexivity]|auto].
Qed.

Definition good (c : cfg) (n : node) : Prop :=
  handler_log (run c VSys n) = filter (fun e => sub c (fst e)) (events n) /\
  third_log (run c VSys n) = third_log (run c (global_of c) n).

Lemma filter_sub_app c (a b : list (sevt * N)) :
  filter (fun e => sub c (fst e)) (a ++ b) = filter (fun e => sub c (fst e)) a ++ filter (fun e => sub c (fst e)) b.
Proof. apply filter_app. Qed.

Lemma loop_good c acc name its : Forall (good c) its -> forall ft fp, rel c acc ft fp ->
  let '(ft1, l1) := items_loop (run c VSys) c acc name its ft in
  let '(fp1, lp1) := items_loop (run c (global_of c)) c acc name its fp in
  rel c acc ft1 fp1 /\
  handler_log l1 = filter (fun e => sub c (fst e)) (events_loop events acc name its) /\
  third_log l1 = third_log lp1.
Proof.
  induction 1 as [|it its Hit _ IH]; intros ft fp R; cbn [items_loop events_loop].
  - split; [exact R|split; reflexivity].
  - destruct it as [[a nm| |] cs].
    + specialize (IH ft fp R).
      destruct (items_loop (run c VSys) c acc name its ft) as [ft1 l1].
      destruct (items_loop (run c (global_of c)) c acc name its fp) as [fp1 lp1].
      destruct IH as (R1 & H1 & H2). destruct Hit as [G1 G2]. split; auto.
      rewrite hl_app, tl_app, tl_app, filter_sub_app, G1, G2, H1, H2. auto.
    + pose proof (event_step c acc name ft fp SLine R eq_refl) as Hs.
      destruct (call_v c ft SLine acc name) as [r l]. destruct (call_v c fp SLine acc name) as [rp lp].
      destruct Hs as (R' & Hh & Ht). specialize (IH _ _ R').
      destruct (items_loop (run c VSys) c acc name its _) as [ft1 l1].
      destruct (items_loop (run c (global_of c)) c acc name its _) as [fp1 lp1].
      destruct IH as (R1 & H1 & H2). split; auto.
      rewrite hl_app, tl_app, tl_app, filter_sub_app, Hh, Ht, H1, H2. split; auto.
      all: try (f_equal; destruct acc; cbn; auto; destruct (sub c SLine); reflexivity).
    + pose proof (event_step c acc name ft fp SExc R eq_refl) as Hs.
      destruct (call_v c ft SExc acc name) as [r l]. destruct (call_v c fp SExc acc name) as [rp lp].
      destruct Hs as (R' & Hh & Ht). specialize (IH _ _ R').
      destruct (items_loop (run c VSys) c acc name its _) as [ft1 l1].
      destruct (items_loop (run c (global_of c)) c acc name its _) as [fp1 lp1].
      destruct IH as (R1 & H1 & H2). split; auto.
      rewrite hl_app, tl_app, tl_app, filter_sub_app, Hh, Ht, H1, H2. split; auto.
      all: try (f_equal; destruct acc; cbn; auto; destruct (sub c SExc); reflexivity).
Qed.

Theorem all_good c : forall n, good c n.
Proof.
  intros n. induction n as [t cs IH] using node_ind2. destruct t as [acc name| |]; [|split; reflexivity|split; reflexivity].
  unfold good. cbn [run events].
  pose proof (call_step c acc name) as Hc.
  destruct (call_v c VSys SCall acc name) as [ft0 l0]. destruct (call_v c (global_of c) SCall acc name) as [fp0 lp0].
  destruct Hc as (R0 & Hh0 & Ht0).
  pose proof (loop_good c acc name cs IH ft0 fp0 R0) as Hl.
  destruct (items_loop (run c VSys) c acc name cs ft0) as [ft1 l1].
  destruct (items_loop (run c (global_of c)) c acc name cs fp0) as [fp1 lp1].
  destruct Hl as (R1 & Hh1 & Ht1).
  pose proof (event_step c acc name ft1 fp1 SRet R1 eq_refl) as Hs.
  destruct (call_v c ft1 SRet acc name) as [r l2]. destruct (call_v c fp1 SRet acc name) as [rp lp2].
  destruct Hs as (_ & Hh2 & Ht2).
  split.
  - rewrite !hl_app, !filter_sub_app, Hh0, Hh1, Hh2. f_equal; [|f_equal].
    + destruct acc; cbn; auto; try (destruct (sub c SCall); reflexivity).
    + destruct acc; cbn; auto; try (destruct (sub c SRet); reflexivity).
  - rewrite !tl_app, Ht0, Ht1, Ht2. reflexivity.
Qed.
