(* C11: what the code's evaluation of a condition computes (callp / dynp / .static), that any / all are the boolean
   combinations, and exactly at which nodes a conditional handler is invoked. *)
From Coq Require Import List NArith Bool Arith Lia.
Import ListNotations.
From PyccoloV Require Import gen.PredGen model.Pred.

Section pred_ind2.
  Variable P : pred -> Prop.
  Hypothesis HT : P PTrue.
  Hypothesis HF : P PFalse.
  Hypothesis HB : forall s c, P (PBase s c).
  Hypothesis HC : forall a parts, Forall P parts -> P (PComp a parts).
  Fixpoint pred_ind2 (p : pred) : P p :=
    match p with
    | PTrue => HT | PFalse => HF | PBase s c => HB s c
    | PComp a parts => HC a parts ((fix go (l : list pred) : Forall P l :=
                                      match l with [] => Forall_nil _ | x :: l' => Forall_cons x (pred_ind2 x) (go l') end) parts)
    end.
End pred_ind2.

(* the inner loops, named *)
Lemma p_static_comp a parts :
  p_static (PComp a parts) = comp_static (length (filter comp_is_dynamic_part (map p_static parts))).
Proof. reflexivity. Qed.
Lemma wf_comp a parts : wf (PComp a parts) = negb (Nat.eqb (length parts) 0) && forallb wf parts.
Proof. reflexivity. Qed.

Section AtNode.
  Variable env : N -> bool.

  Lemma holds_comp a parts :
    holds env (PComp a parts) = if a then existsb (holds env) parts else forallb (holds env) parts.
  Proof. destruct a; reflexivity. Qed.
  Lemma evalp_comp a parts :
    evalp env (PComp a parts) =
      let rs := map (fun x => (p_static x, evalp env x)) parts in
      let elt := fun (r : bool * (bool * bool)) => if comp_parts_use_full_call then fst (snd r) else snd (snd r) in
      let call_all := reduce a (map elt rs) in
      let call_dyn := reduce a (map elt (filter (fun r => comp_is_dynamic_part (fst r)) rs)) in
      (call_all, comp_dynamic_call (p_static (PComp a parts)) call_all call_dyn).
  Proof. reflexivity. Qed.

  Lemma reduce_map {A} (f : A -> bool) a l : reduce a (map f l) = if a then existsb f l else forallb f l.
  Proof. unfold reduce. destruct a; induction l as [|x l IH]; cbn; auto; now rewrite IH. Qed.

  (* the code's evaluation: p(node) is the meaning; p.dynamic_call(node) is `True` for a static condition and the
     meaning otherwise *)
  Theorem evalp_meaning : forall p, wf p = true ->
    callp env p = holds env p /\ dynp env p = (if p_static p then true else holds env p).
  Proof.
    unfold callp, dynp.
    induction p as [| |s c|a parts IH] using pred_ind2; intros Hw.
    - split; reflexivity.
    - split; reflexivity.
    - cbn. split; [reflexivity|]. unfold base_dynamic_call. now destruct s.
    - rewrite wf_comp in Hw. apply andb_prop in Hw as [_ Hw]. rewrite forallb_forall in Hw.
      rewrite evalp_comp. cbn zeta. cbn [fst snd].
      assert (E : map (fun r : bool * (bool * bool) => if comp_parts_use_full_call then fst (snd r) else snd (snd r))
                      (map (fun x => (p_static x, evalp env x)) parts) = map (holds env) parts).
      { rewrite map_map. cbn [snd fst]. unfold comp_parts_use_full_call.
        apply map_ext_in. intros x Hx. rewrite Forall_forall in IH. now destruct (IH x Hx (Hw x Hx)). }
      rewrite E, reduce_map, holds_comp. split; [reflexivity|].
      unfold comp_dynamic_call. now destruct (p_static (PComp a parts)).
  Qed.
  Corollary callp_meaning p : wf p = true -> callp env p = holds env p.
  Proof. intros H. now destruct (evalp_meaning p H). Qed.

  (* ---- any / all *)
  Lemma ident_true_holds ps : existsb (ident_eqb IsTrue) (map ident_of ps) = true -> existsb (holds env) ps = true.
  Proof.
    induction ps as [|p l IH]; cbn; [discriminate|]. intros H. apply orb_prop in H as [H|H].
    - destruct p; try discriminate. reflexivity.
    - rewrite (IH H). apply orb_true_r.
  Qed.
  Lemma ident_all_false ps : forallb (ident_eqb IsFalse) (map ident_of ps) = true -> existsb (holds env) ps = false.
  Proof.
    induction ps as [|p l IH]; cbn; [reflexivity|]. intros H. apply andb_prop in H as [H1 H2].
    destruct p; try discriminate. cbn. now apply IH.
  Qed.
  Lemma ident_false_holds ps : existsb (ident_eqb IsFalse) (map ident_of ps) = true -> forallb (holds env) ps = false.
  Proof.
    induction ps as [|p l IH]; cbn; [discriminate|]. intros H. apply orb_prop in H as [H|H].
    - destruct p; try discriminate. reflexivity.
    - rewrite (IH H). apply andb_false_r.
  Qed.
  Lemma ident_all_true ps : forallb (ident_eqb IsTrue) (map ident_of ps) = true -> forallb (holds env) ps = true.
  Proof.
    induction ps as [|p l IH]; cbn; [reflexivity|]. intros H. apply andb_prop in H as [H1 H2].
    destruct p; try discriminate. cbn. now apply IH.
  Qed.

  Theorem pany_meaning ps : ps <> [] -> holds env (pany ps) = existsb (holds env) ps.
  Proof.
    intros Hne. unfold pany, any_coalesce.
    destruct (Nat.eqb (length (map ident_of ps)) 0) eqn:El.
    { apply Nat.eqb_eq in El. rewrite map_length in El. destruct ps; [congruence|discriminate]. }
    cbn [orb].
    destruct (existsb (ident_eqb IsTrue) (map ident_of ps)) eqn:E1.
    { cbn. symmetry. now apply ident_true_holds. }
    destruct (forallb (ident_eqb IsFalse) (map ident_of ps)) eqn:E2.
    { cbn. symmetry. now apply ident_all_false. }
    now rewrite holds_comp.
  Qed.
  Theorem pall_meaning ps : holds env (pall ps) = forallb (holds env) ps.
  Proof.
    unfold pall, all_coalesce.
    destruct (existsb (ident_eqb IsFalse) (map ident_of ps)) eqn:E1.
    { cbn. symmetry. now apply ident_false_holds. }
    destruct (forallb (ident_eqb IsTrue) (map ident_of ps)) eqn:E2.
    { cbn. symmetry. now apply ident_all_true. }
    now rewrite holds_comp.
  Qed.
  (* the one place where `any` is not the disjunction: the empty list gives Predicate.TRUE (the suite asserts it) *)
  Lemma pany_nil : holds env (pany []) = true /\ existsb (holds env) [] = false.
  Proof. split; reflexivity. Qed.

  Lemma wf_pany ps : forallb wf ps = true -> wf (pany ps) = true.
  Proof.
    intros H. unfold pany. destruct (any_coalesce (map ident_of ps)) eqn:E; try reflexivity.
    rewrite wf_comp, H, andb_true_r. unfold any_coalesce in E.
    destruct (Nat.eqb (length (map ident_of ps)) 0) eqn:El; [discriminate|]. rewrite map_length in El. now rewrite El.
  Qed.
  Lemma wf_pall ps : forallb wf ps = true -> wf (pall ps) = true.
  Proof.
    intros H. unfold pall. destruct (all_coalesce (map ident_of ps)) eqn:E; try reflexivity.
    rewrite wf_comp, H, andb_true_r. unfold all_coalesce in E.
    destruct ps; [|reflexivity]. cbn in E. discriminate.
  Qed.

  (* ---- where a handler runs *)
  Lemma site_meaning hs : hs <> [] -> forallb wf hs = true -> site env hs = existsb (holds env) hs.
  Proof.
    intros Hne Hw. unfold site, site_reducer_is_any. rewrite callp_meaning by now apply wf_pany. now apply pany_meaning.
  Qed.
  Lemma deliver_meaning p : wf p = true -> deliver env p = p_static p || holds env p.
  Proof.
    intros Hw. unfold deliver, deliver_test. destruct (evalp_meaning p Hw) as [_ Hd]. rewrite Hd.
    destruct (p_static p) eqn:Es.
    - cbn [orb]. apply orb_true_r.
    - destruct p; cbn [ident_of ident_eqb orb]; reflexivity.
  Qed.

  (* characterisation: the handler with condition p, among the handlers hs of the event, is invoked at this node iff
     some handler's condition holds here and (p is wholly static or p holds here) *)
  Theorem invoked_char hs p : hs <> [] -> forallb wf hs = true -> wf p = true ->
    invoked env hs p = existsb (holds env) hs && (p_static p || holds env p).
  Proof. intros Hne Hw Hp. unfold invoked. now rewrite site_meaning, deliver_meaning. Qed.

  Lemma in_existsb p hs : In p hs -> holds env p = true -> existsb (holds env) hs = true.
  Proof. intros Hin Hp. apply existsb_exists. eauto. Qed.

  (* exactness for every condition that is not wholly static (Predicate.TRUE, dynamic conditions, composites with at
     least one dynamic part), whatever the other handlers of the event are *)
  Theorem invoked_exact_nonstatic hs p : In p hs -> forallb wf hs = true -> p_static p = false ->
    invoked env hs p = holds env p.
  Proof.
    intros Hin Hw Hs. assert (Hne : hs <> []) by (destruct hs; [destruct Hin|discriminate]).
    assert (Hp : wf p = true) by (rewrite forallb_forall in Hw; auto).
    rewrite invoked_char, Hs by assumption. cbn [orb].
    destruct (holds env p) eqn:E; [|apply andb_false_r]. now rewrite (in_existsb p hs Hin E).
  Qed.
  (* exactness for ANY condition when the handler is the only one of its event *)
  Theorem invoked_exact_sole p : wf p = true -> invoked env [p] p = holds env p.
  Proof.
    intros Hp. rewrite invoked_char; [|discriminate|cbn; now rewrite Hp|assumption].
    cbn [existsb]. rewrite orb_false_r. destruct (holds env p); [apply orb_true_r|reflexivity].
  Qed.
  (* no occurrence is ever missed *)
  Theorem invoked_no_miss hs p : In p hs -> forallb wf hs = true -> holds env p = true -> invoked env hs p = true.
  Proof.
    intros Hin Hw E. assert (Hne : hs <> []) by (destruct hs; [destruct Hin|discriminate]).
    assert (Hp : wf p = true) by (rewrite forallb_forall in Hw; auto).
    rewrite invoked_char, E, (in_existsb p hs Hin E) by assumption. now rewrite orb_true_r.
  Qed.

  (* ---- local guards *)
  Variable G : N -> bool.
  Lemma existsb_const x gs : In x gs -> (forall y, In y gs -> y = x) -> existsb G gs = G x.
  Proof.
    induction gs as [|g l IH]; intros Hin Hall; [destruct Hin|].
    cbn [existsb]. rewrite (Hall g (or_introl eq_refl)).
    destruct l as [|g' l']; [cbn; apply orb_false_r|].
    rewrite IH; [apply orb_diag|left; apply Hall; right; now left|intros y Hy; apply Hall; now right].
  Qed.
  (* all guarded handlers of the site name the same guard x: the handler is skipped, and the pristine expression is
     evaluated instead of the emit call, exactly while x is set *)
  Theorem guard_exact hs gs p x : In x gs -> (forall y, In y gs -> y = x) ->
    invoked_g env G hs gs p (Some x) = negb (G x) && invoked env hs p /\ pristine_taken G gs = G x.
  Proof.
    intros Hin Hall. unfold invoked_g, pristine_taken, guard_skips, invoked. rewrite (existsb_const x gs Hin Hall).
    split; [|reflexivity]. destruct (G x); cbn; [reflexivity|]. now rewrite andb_true_r.
  Qed.
  Theorem unguarded_site hs p : invoked_g env G hs [] p None = invoked env hs p.
  Proof. unfold invoked_g, invoked. cbn. now rewrite andb_true_r. Qed.
End AtNode.

(* ---- the two ways exactness fails on the code as it is (recorded findings) *)
Theorem static_shared_refuted : exists env hs p, In p hs /\ forallb wf hs = true /\ invoked env hs p = true /\ holds env p = false.
Proof. exists (fun _ => false), [PBase true 0%N; PTrue], (PBase true 0%N). cbn. repeat split; auto. Qed.
Theorem guard_other_refuted : exists env G hs gs p,
  In p hs /\ holds env p = true /\ In 2%N gs /\ G 2%N = false /\ invoked_g env G hs gs p (Some 2%N) = false.
Proof.
  exists (fun _ => true), (fun g => N.eqb g 1), [PTrue; PTrue], [1%N; 2%N], PTrue. cbn. repeat split; auto.
Qed.

(* ---- conditions that raise: with the parts of a composite evaluated under comp_part_guard, the whole decision procedure is
        the total one over `total envx` (raising = not satisfied), and the rewrite is never aborted *)
Definition tot (r : option bool) : bool := match r with Some b => b | None => false end.

Lemma reduce_x_some a l : reduce_x a (map Some l) = Some (reduce a l).
Proof.
  unfold reduce. induction l as [|b l IH]; cbn [map reduce_x]; [now destruct a|].
  destruct a, b; cbn [Bool.eqb existsb forallb orb andb]; auto.
Qed.
Lemma guard_tot r : comp_part_guard r = Some (tot r).
Proof. now destruct r as [[|]|]. Qed.

Section AtNodeX.
  Variable envx : N -> option bool.
  Let env := total envx.

  Lemma evalx_comp a parts :
    evalx envx (PComp a parts) =
      let rs := map (fun x => (p_static x, evalx envx x)) parts in
      let elt := fun (r : bool * (option bool * option bool)) =>
                   comp_part_guard (if comp_parts_use_full_call then fst (snd r) else snd (snd r)) in
      let call_all := reduce_x a (map elt rs) in
      let call_dyn := reduce_x a (map elt (filter (fun r => comp_is_dynamic_part (fst r)) rs)) in
      (call_all, comp_dynamic_call_x (p_static (PComp a parts)) call_all call_dyn).
  Proof. reflexivity. Qed.

  (* a composite (and a singleton) never raises; a base condition raises exactly when its function does *)
  Definition never_raises (p : pred) : Prop := match p with PBase _ _ => True | _ => fst (evalx envx p) <> None /\ snd (evalx envx p) <> None end.

  Theorem evalx_total : forall p,
    tot (fst (evalx envx p)) = callp env p /\ tot (snd (evalx envx p)) = dynp env p /\ never_raises p.
  Proof.
    unfold callp, dynp.
    induction p as [| |s c|a parts IH] using pred_ind2.
    - cbn. repeat split; discriminate.
    - cbn. repeat split; discriminate.
    - cbn. unfold env, total, base_dynamic_call_x, base_dynamic_call. destruct s, (envx c) as [[|]|]; repeat split.
    - assert (E : map (fun r : bool * (option bool * option bool) => comp_part_guard (if comp_parts_use_full_call then fst (snd r) else snd (snd r)))
                      (map (fun x => (p_static x, evalx envx x)) parts)
                  = map Some (map (fun r : bool * (bool * bool) => if comp_parts_use_full_call then fst (snd r) else snd (snd r))
                                  (map (fun x => (p_static x, evalp env x)) parts))).
      { rewrite !map_map. cbn [snd fst]. unfold comp_parts_use_full_call.
        apply map_ext_in. intros x Hx. rewrite Forall_forall in IH. destruct (IH x Hx) as [H1 _]. now rewrite guard_tot, H1. }
      assert (F : map (fun r : bool * (option bool * option bool) => comp_part_guard (if comp_parts_use_full_call then fst (snd r) else snd (snd r)))
                      (filter (fun r => comp_is_dynamic_part (fst r)) (map (fun x => (p_static x, evalx envx x)) parts))
                  = map Some (map (fun r : bool * (bool * bool) => if comp_parts_use_full_call then fst (snd r) else snd (snd r))
                                  (filter (fun r => comp_is_dynamic_part (fst r)) (map (fun x => (p_static x, evalp env x)) parts)))).
      { clear E. induction parts as [|x l IHl]; [reflexivity|].
        cbn [map filter fst]. inversion IH as [|? ? Hx Hl]; subst.
        destruct (comp_is_dynamic_part (p_static x)); cbn [map]; rewrite (IHl Hl); [|reflexivity].
        f_equal. unfold comp_parts_use_full_call. cbn [fst snd]. destruct Hx as [H1 _]. now rewrite guard_tot, H1. }
      pose proof (evalx_comp a parts) as Ex. cbn zeta in Ex. rewrite E, F, !reduce_x_some in Ex.
      unfold never_raises. rewrite Ex, evalp_comp. cbn zeta. cbn [fst snd tot].
      unfold comp_dynamic_call_x, comp_dynamic_call.
      destruct (p_static (PComp a parts)); cbn [tot]; repeat split; congruence.
  Qed.

  Lemma wf_never_raises_site hs : exists s, site_x envx hs = Some s /\ s = site env hs.
  Proof.
    unfold site_x, site, callp.
    set (q := if site_reducer_is_any then pany hs else pall hs).
    destruct (evalx_total q) as (H1 & _ & H3).
    assert (Hq : match q with PBase _ _ => False | _ => True end).
    { unfold q, pany, pall. destruct site_reducer_is_any;
        [destruct (any_coalesce (map ident_of hs))|destruct (all_coalesce (map ident_of hs))]; exact I. }
    destruct (fst (evalx envx q)) as [b|] eqn:Eb.
    - exists b. split; [reflexivity|]. exact H1.
    - exfalso. destruct q; try contradiction; destruct H3 as [H3 _]; now apply H3.
  Qed.

  Lemma deliver_x_total p : deliver_x envx p = deliver env p.
  Proof.
    unfold deliver_x, deliver. destruct (evalx_total p) as (H1 & H2 & _).
    rewrite <- H1, <- H2. unfold deliver_test_x, deliver_test.
    destruct (ident_eqb (ident_of p) IsTrue), (p_static p), (snd (evalx envx p)) as [[|]|]; reflexivity.
  Qed.

  Theorem invoked_x_total hs p : invoked_x envx hs p = Some (invoked env hs p).
  Proof.
    unfold invoked_x, invoked. destruct (wf_never_raises_site hs) as (s & Hs & Es).
    now rewrite Hs, Es, deliver_x_total.
  Qed.
  Theorem invoked_gx_total G hs gs p g : invoked_gx envx G hs gs p g = Some (invoked_g env G hs gs p g).
  Proof.
    unfold invoked_gx, invoked_g. destruct (wf_never_raises_site hs) as (s & Hs & Es).
    now rewrite Hs, Es, deliver_x_total.
  Qed.
End AtNodeX.
