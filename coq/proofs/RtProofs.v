(* C04: the runtime fold refines the rule stated by the property. *)
From Coq Require Import List NArith Bool.
Import ListNotations.
From PyccoloV Require Import gen.Events gen.EmitRet model.Val model.Rt.

(* ---------------------------------------------------------------- the property's rule, as the simplest fold *)
Inductive verdict : Set := Continue | StopTracer | StopAll.
Definition step_spec (o : hout) (v : rv) : rv * verdict :=
  match o with
  | HRaise => (v, Continue)               (* a handler that raises is treated as returning nothing *)
  | HRet RNone => (v, Continue)           (* returning nothing keeps the value *)
  | HRet RNull => (RNone, Continue)       (* Null replaces it with None *)
  | HRet RSkip => (v, StopTracer)         (* Skip ends that tracer's remaining handlers *)
  | HRet RSkipAll => (v, StopAll)         (* SkipAll ends all remaining tracers *)
  | HRet w => (w, Continue)               (* returning a value (falsy or not) replaces it *)
  end.
(* handlers in definition order; a handler that is locally guarded off or whose condition fails is not run *)
Fixpoint spec_tracer (ti hi : nat) (hs : list hspec) (v : rv) (log : list callrec) : rv * bool * list callrec :=
  match hs with
  | [] => (v, false, log)
  | h :: hs' =>
      if h_guard_skip h || negb (h_pred h) then spec_tracer ti (S hi) hs' v log
      else
        let log' := log ++ [(ti, hi, v)] in
        match step_spec (h_fun h v) v with
        | (w, Continue) => spec_tracer ti (S hi) hs' w log'
        | (w, StopTracer) => (w, false, log')
        | (w, StopAll) => (w, true, log')
        end
  end.
Definition t_active (t : tracer) : bool := negb (t_hard_disabled t) && t_file_ok t.
(* tracers in activation order *)
Fixpoint spec_all (ti : nat) (ts : list tracer) (v : rv) (log : list callrec) : rv * list callrec :=
  match ts with
  | [] => (v, log)
  | t :: ts' =>
      if t_active t then
        match spec_tracer ti 0 (t_handlers t) v log with
        | (w, true, log') => (w, log')
        | (w, false, log') => spec_all (S ti) ts' w log'
        end
      else spec_all (S ti) ts' v log
  end.

(* values a handler can be given / can return in the fragment: not the internal (SkipAll, x) tuple *)
Definition plain (v : rv) : bool := match v with RTuple2 _ _ => false | _ => true end.
Definition plain_out (o : hout) : bool := match o with HRet r => plain r | HRaise => true end.
Definition handlers_plain (hs : list hspec) : Prop := forall h v, In h hs -> plain_out (h_fun h v) = true.
Definition ast_event (ev : event) : bool := negb (event_eqb ev E_call || event_eqb ev E_exception).

Lemma normal_ret_spec ev old new : ast_event ev = true -> plain old = true -> plain new = true ->
  rv_is new RSkipAll = false ->
  handle_normal_emit_return sys_tracer_obj ev old new =
    (fst (step_spec (HRet new) old), match snd (step_spec (HRet new) old) with StopTracer => true | _ => false end)
  /\ plain (fst (step_spec (HRet new) old)) = true.
Proof.
  unfold ast_event. intros He Ho Hn Hs. apply negb_true_iff in He. apply orb_false_iff in He as [H1 H2].
  unfold handle_normal_emit_return. rewrite ?H1, ?H2. cbn.
  destruct new; cbn in *; try discriminate; auto.
Qed.

Lemma handlers_refine ev ti : ast_event ev = true -> forall hs hi v th log, handlers_plain hs -> plain v = true ->
  exists th',
  handlers_loop ev false false ti hi hs v th log =
    (match spec_tracer ti hi hs v log with
     | (w, true, _) => TVal (RTuple2 RSkipAll w)
     | (w, false, _) => TVal w end, th', snd (spec_tracer ti hi hs v log))
  /\ plain (fst (fst (spec_tracer ti hi hs v log))) = true.
Proof.
  intros He hs. induction hs as [|h hs IH]; intros hi v th log Hp Hv.
  - cbn. eauto.
  - assert (Hp' : handlers_plain hs) by (intros h' v' Hin; apply Hp; now right).
    cbn [handlers_loop spec_tracer]. cbn [andb negb].
    destruct (h_guard_skip h) eqn:Eg; cbn [orb]; [apply IH; auto|].
    destruct (h_pred h) eqn:Epred; cbn [negb].
    + pose proof (Hp h v (or_introl eq_refl)) as Hout.
      destruct (h_fun h v) as [new|] eqn:Ef.
      * cbn in Hout. destruct (rv_is new RSkipAll) eqn:Es.
        { destruct new; cbn in Es; try discriminate. cbn.
          unfold handle_skipall_emit_return. unfold ast_event in He. apply negb_true_iff in He.
          apply orb_false_iff in He as [H1 H2]. rewrite ?H1, ?H2. cbn. eexists; split; eauto. }
        destruct (normal_ret_spec ev v new He Hv Hout Es) as [Hn Hpl]. rewrite Hn.
        destruct (step_spec (HRet new) v) as [w vd] eqn:Est. cbn [fst snd] in *.
        destruct vd.
        -- destruct (IH (S hi) w (if event_eqb ev E_before_stmt then Some w else th) (log ++ [(ti, hi, v)]) Hp' Hpl)
             as (th' & E1 & E2). rewrite E1. eexists; split; eauto.
        -- cbn. eexists; split; eauto.
        -- destruct new; cbn in Est; try discriminate; inversion Est.
      * cbn [step_spec].
        assert (Hn : handle_normal_emit_return sys_tracer_obj ev v RNone = (v, false)).
        { unfold handle_normal_emit_return. unfold ast_event in He. apply negb_true_iff in He.
          apply orb_false_iff in He as [H1 H2]. rewrite ?H1, ?H2. reflexivity. }
        rewrite Hn.
        destruct (IH (S hi) v (if event_eqb ev E_before_stmt then Some v else th) (log ++ [(ti, hi, v)]) Hp' Hv)
          as (th' & E1 & E2). rewrite E1. eexists; split; eauto.
    + assert (Hn : handle_normal_emit_return sys_tracer_obj ev v RNone = (v, false)).
      { unfold handle_normal_emit_return. unfold ast_event in He. apply negb_true_iff in He.
        apply orb_false_iff in He as [H1 H2]. rewrite ?H1, ?H2. reflexivity. }
      cbn [rv_is]. rewrite Hn.
      destruct (IH (S hi) v (if event_eqb ev E_before_stmt then Some v else th) log Hp' Hv) as (th' & E1 & E2).
      rewrite E1. eexists; split; eauto.
Qed.

Definition tracers_plain (ts : list tracer) : Prop :=
  forall t, In t ts -> handlers_plain (t_handlers t) /\ t_propagate t = false.

Lemma loop_refines ev : ast_event ev = true -> forall ts ti v log, tracers_plain ts -> plain v = true ->
  exists ths, tracer_loop ev true false false false ti ts v log =
              (TVal (fst (spec_all ti ts v log)), ths, snd (spec_all ti ts v log))
              /\ plain (fst (spec_all ti ts v log)) = true.
Proof.
  intros He ts. induction ts as [|t ts IH]; intros ti v log Hp Hv.
  - cbn. eauto.
  - assert (Hp' : tracers_plain ts) by (intros t' Hin; apply Hp; now right).
    destruct (Hp t (or_introl eq_refl)) as [Hhp Hprop].
    cbn [tracer_loop spec_all]. cbn [negb andb orb]. unfold t_active, tracer_emit.
    destruct (t_file_ok t) eqn:Ef; cbn [negb].
    + destruct (t_hard_disabled t) eqn:Eh; cbn [negb andb].
      * destruct (IH (S ti) v log Hp' Hv) as (ths & E1 & E2). rewrite E1.
        destruct v; try discriminate; eexists; split; eauto.
      * rewrite Hprop.
        destruct (handlers_refine ev ti He (t_handlers t) 0 v None log Hhp Hv) as (th' & E1 & E2).
        rewrite E1. destruct (spec_tracer ti 0 (t_handlers t) v log) as [[w stop] log'] eqn:Es. cbn [fst snd] in *.
        destruct stop.
        -- eexists; split; eauto.
        -- destruct (IH (S ti) w log' Hp' E2) as (ths & E3 & E4).
           destruct w; try discriminate; rewrite E3; eexists; split; eauto.
    + rewrite andb_false_r. destruct (IH (S ti) v log Hp' Hv) as (ths & E1 & E2). rewrite E1.
      eexists; split; eauto.
Qed.

Definition fl0 : flags := {| allow_handling := true; allow_reentrant := false |}.

(* C04: for every stack of tracers, every handler list, every outcome function, every initial value *)
Theorem fold_refines ev ts v : ast_event ev = true -> tracers_plain ts -> plain v = true ->
  exists ths, emit ev true fl0 ts v = (TVal (make_ret ev (fst (spec_all 0 ts v []))), fl0, ths, snd (spec_all 0 ts v [])).
Proof.
  intros He Hp Hv. unfold emit, fl0. cbn [allow_handling allow_reentrant negb andb].
  destruct (loop_refines ev He ts 0 v [] Hp Hv) as (ths & E1 & _). rewrite E1. eauto.
Qed.

Lemma loop_thunks_length ev a b c d : forall ts ti v log r ths log',
  tracer_loop ev a b c d ti ts v log = (r, ths, log') -> length ths = length ts.
Proof.
  induction ts as [|t ts IH]; intros ti v log r ths log' H; cbn in H.
  - inversion H; reflexivity.
  - destruct (_ || _ || _).
    + destruct (tracer_loop ev a b c d (S ti) ts v log) as [[r1 th1] l1] eqn:E. inversion H; subst. cbn. f_equal; eauto.
    + destruct (tracer_emit ev c ti t v None log) as [[tr th] l0].
      destruct tr as [w|].
      * destruct (tracer_loop ev a b c d (S ti) ts w l0) as [[r1 th1] l1] eqn:E.
        assert (Hl : length th1 = length ts) by eauto.
        destruct w as [ | | | | | | | |w1 w2]; try (inversion H; subst; cbn; f_equal; assumption).
        destruct w1; try (inversion H; subst; cbn; f_equal; assumption).
        inversion H; subst. cbn. now rewrite map_length.
      * inversion H; subst. cbn. now rewrite map_length.
Qed.

(* ---------------------------------------------------------------- before_stmt: what the program continues with *)
Definition spec_action (final : rv) : stmt_action :=
  if rv_truthy final then match final with RPass => SkipStmt | c => RunReplacement c end else RunOriginal.

Lemma nth_map_const {A B C} (xs : list A) (c : C) : forall (ys : list B) owner t,
  nth_error xs owner = Some t -> length ys = length xs ->
  nth owner (map (fun _ : A * B => Some c) (combine xs ys)) None = Some c.
Proof.
  induction xs as [|x xs IH]; intros [|y ys] [|o] t Hn Hl; cbn in *; try discriminate; auto.
  eapply IH; eauto.
Qed.

(* every stack (after the fix: the loop leaves the final value with every tracer): the statement does exactly what
   the value finally left says, whichever tracer owns EXEC_SAVED_THUNK *)
Theorem before_stmt_any ts : tracers_plain ts ->
  forall r fl' ths log, emit E_before_stmt true fl0 ts RNone = (r, fl', ths, log) ->
  forall owner t, nth_error ts owner = Some t ->
  before_stmt_action r (nth owner ths None) = spec_action (fst (spec_all 0 ts RNone [])).
Proof.
  intros Hp r fl' ths log H owner t Hn.
  unfold emit, fl0 in H. cbn [allow_handling allow_reentrant negb andb] in H.
  destruct (loop_refines E_before_stmt eq_refl ts 0 RNone [] Hp eq_refl) as (ths0 & E1 & E2).
  pose proof (loop_thunks_length _ _ _ _ _ _ _ _ _ _ _ _ E1) as Hlen.
  rewrite E1 in H. set (w := fst (spec_all 0 ts RNone [])) in *.
  change (event_eqb E_before_stmt E_before_stmt) with true in H. cbn [orb] in H.
  unfold make_ret in H. cbn [is_before_expr_event andb] in H. inversion H; subst; clear H.
  assert (Hnth : nth owner (map (fun tt : tracer * option rv => Some w) (combine ts ths0)) None = Some w).
  { apply nth_map_const with (t := t); auto. }
  rewrite Hnth. unfold before_stmt_action, spec_action.
  destruct (rv_truthy w) eqn:Et; auto. destruct w; cbn in Et; try discriminate; auto.
Qed.

(* the same rule on the pinned tree before the repair (per-tracer thunk only): with two tracers the owner of
   EXEC_SAVED_THUNK need not have seen the value.  Kept as the witness that was replayed on the implementation:
   T0 replaces the statement, T1 (last entered, owner) has no before_stmt handler. *)
Definition override_h : hspec :=
  {| h_reentrant := false; h_guard_skip := false; h_pred := true; h_fun := fun _ => HRet (RUser 7 false) |}.
Definition mk_tracer (hs : list hspec) : tracer :=
  {| t_hard_disabled := false; t_allow_reentrant := false; t_multi_thread := false; t_file_ok := true;
     t_propagate := false; t_handlers := hs |}.
Example before_stmt_two_tracers_now_fine :
  let ts := [mk_tracer [override_h]; mk_tracer []] in
  let '(r, _, ths, _) := emit E_before_stmt true fl0 ts RNone in
  before_stmt_action r (last ths None) = RunReplacement (RUser 7 false).
Proof. vm_compute. reflexivity. Qed.

(* ---- since the return rule no longer singles out 'call' / 'exception' (tracer.py, after the repair): the same, for EVERY event *)
Lemma normal_ret_spec_any ev old new : plain old = true -> plain new = true ->
  rv_is new RSkipAll = false ->
  handle_normal_emit_return sys_tracer_obj ev old new =
    (fst (step_spec (HRet new) old), match snd (step_spec (HRet new) old) with StopTracer => true | _ => false end)
  /\ plain (fst (step_spec (HRet new) old)) = true.
Proof.
  intros Ho Hn Hs.
  unfold handle_normal_emit_return. rewrite ?H1, ?H2. cbn.
  destruct new; cbn in *; try discriminate; auto.
Qed.

Lemma handlers_refine_any ev ti : forall hs hi v th log, handlers_plain hs -> plain v = true ->
  exists th',
  handlers_loop ev false false ti hi hs v th log =
    (match spec_tracer ti hi hs v log with
     | (w, true, _) => TVal (RTuple2 RSkipAll w)
     | (w, false, _) => TVal w end, th', snd (spec_tracer ti hi hs v log))
  /\ plain (fst (fst (spec_tracer ti hi hs v log))) = true.
Proof.
  intros hs. induction hs as [|h hs IH]; intros hi v th log Hp Hv.
  - cbn. eauto.
  - assert (Hp' : handlers_plain hs) by (intros h' v' Hin; apply Hp; now right).
    cbn [handlers_loop spec_tracer]. cbn [andb negb].
    destruct (h_guard_skip h) eqn:Eg; cbn [orb]; [apply IH; auto|].
    destruct (h_pred h) eqn:Epred; cbn [negb].
    + pose proof (Hp h v (or_introl eq_refl)) as Hout.
      destruct (h_fun h v) as [new|] eqn:Ef.
      * cbn in Hout. destruct (rv_is new RSkipAll) eqn:Es.
        { destruct new; cbn in Es; try discriminate. cbn.
          unfold handle_skipall_emit_return. cbn. eexists; split; eauto. }
        destruct (normal_ret_spec_any ev v new Hv Hout Es) as [Hn Hpl]. rewrite Hn.
        destruct (step_spec (HRet new) v) as [w vd] eqn:Est. cbn [fst snd] in *.
        destruct vd.
        -- destruct (IH (S hi) w (if event_eqb ev E_before_stmt then Some w else th) (log ++ [(ti, hi, v)]) Hp' Hpl)
             as (th' & E1 & E2). rewrite E1. eexists; split; eauto.
        -- cbn. eexists; split; eauto.
        -- destruct new; cbn in Est; try discriminate; inversion Est.
      * cbn [step_spec].
        assert (Hn : handle_normal_emit_return sys_tracer_obj ev v RNone = (v, false)).
        { reflexivity. }
        rewrite Hn.
        destruct (IH (S hi) v (if event_eqb ev E_before_stmt then Some v else th) (log ++ [(ti, hi, v)]) Hp' Hv)
          as (th' & E1 & E2). rewrite E1. eexists; split; eauto.
    + assert (Hn : handle_normal_emit_return sys_tracer_obj ev v RNone = (v, false)).
      { reflexivity. }
      cbn [rv_is]. rewrite Hn.
      destruct (IH (S hi) v (if event_eqb ev E_before_stmt then Some v else th) log Hp' Hv) as (th' & E1 & E2).
      rewrite E1. eexists; split; eauto.
Qed.


Lemma loop_refines_any ev : forall ts ti v log, tracers_plain ts -> plain v = true ->
  exists ths, tracer_loop ev true false false false ti ts v log =
              (TVal (fst (spec_all ti ts v log)), ths, snd (spec_all ti ts v log))
              /\ plain (fst (spec_all ti ts v log)) = true.
Proof.
  intros ts. induction ts as [|t ts IH]; intros ti v log Hp Hv.
  - cbn. eauto.
  - assert (Hp' : tracers_plain ts) by (intros t' Hin; apply Hp; now right).
    destruct (Hp t (or_introl eq_refl)) as [Hhp Hprop].
    cbn [tracer_loop spec_all]. cbn [negb andb orb]. unfold t_active, tracer_emit.
    destruct (t_file_ok t) eqn:Ef; cbn [negb].
    + destruct (t_hard_disabled t) eqn:Eh; cbn [negb andb].
      * destruct (IH (S ti) v log Hp' Hv) as (ths & E1 & E2). rewrite E1.
        destruct v; try discriminate; eexists; split; eauto.
      * rewrite Hprop.
        destruct (handlers_refine_any ev ti (t_handlers t) 0 v None log Hhp Hv) as (th' & E1 & E2).
        rewrite E1. destruct (spec_tracer ti 0 (t_handlers t) v log) as [[w stop] log'] eqn:Es. cbn [fst snd] in *.
        destruct stop.
        -- eexists; split; eauto.
        -- destruct (IH (S ti) w log' Hp' E2) as (ths & E3 & E4).
           destruct w; try discriminate; rewrite E3; eexists; split; eauto.
    + rewrite andb_false_r. destruct (IH (S ti) v log Hp' Hv) as (ths & E1 & E2). rewrite E1.
      eexists; split; eauto.
Qed.



(* one tracer's own fold (tracer._emit_event, the path system events take: they do not go through the stack loop), any event *)
Theorem tracer_fold_any ev ti t v th log : handlers_plain (t_handlers t) -> t_propagate t = false -> t_hard_disabled t = false -> plain v = true ->
  exists th', tracer_emit ev false ti t v th log =
    (match spec_tracer ti 0 (t_handlers t) v log with (w, true, _) => TVal (RTuple2 RSkipAll w) | (w, false, _) => TVal w end,
     th', snd (spec_tracer ti 0 (t_handlers t) v log)).
Proof.
  intros Hp Hpr Hd Hv. unfold tracer_emit. rewrite Hd, Hpr.
  destruct (handlers_refine_any ev ti (t_handlers t) 0 v th log Hp Hv) as (th' & E & _). eauto.
Qed.
