From Coq Require Import List NArith Bool Lia.
Import ListNotations.
From PyccoloV Require Import model.BookHist.

Lemma mem_In k l : mem k l = true <-> In k l.
Proof.
  unfold mem. rewrite existsb_exists. split.
  - intros (x & Hx & E). apply N.eqb_eq in E. subst. exact Hx.
  - intros H. exists k. split; [exact H|apply N.eqb_refl].
Qed.

Lemma lookup_has_line l t : forall acc, has_line l t = true -> lookup l t acc = lookup l t None.
Proof.
  induction t as [|[l' i] t IH]; intros acc H; [discriminate|].
  cbn [lookup]. cbn in H. destruct (N.eqb l' l) eqn:E.
  - reflexivity.
  - cbn in H. apply IH. exact H.
Qed.

Section RemoveFirst.
Variable gc : bool.
Notation step := (step true true gc).
Notation run := (run true true gc).

(* the ids of a new bookkeeper are ids of live objects not yet in the tables; its module id is not the module id of any
   bookkeeper whose code can still run *)
Definition fresh (s : st) (o : op) : Prop :=
  (forall k, In k (b_ids (o_bk o)) -> gn s k = false) /\
  (forall q b, In b (valid s q) -> b_mid b <> b_mid (o_bk o)).

Definition entries_ok (s : st) (b : bk) : Prop :=
  (forall k, In k (b_ids b) -> gn s k = true) /\
  (forall l, has_line l (b_lines b) = true -> gl s (b_mid b) l = lookup l (b_lines b) None).

Record Inv (s : st) : Prop := {
  inv_ok : forall q b, In b (valid s q) -> entries_ok s b;
  inv_cur : forall q, cur s q = hd_error (valid s q);
  inv_sep : forall q b q' b', In b (valid s q) -> In b' (valid s q') -> q <> q' ->
            (forall k, In k (b_ids b) -> In k (b_ids b') -> False) /\ b_mid b <> b_mid b' }.

Lemma inv0 : Inv st0.
Proof. split; cbn; intros; try contradiction; reflexivity. Qed.

Lemma add_ok s n : entries_ok (add s n (b_mid n)) n.
Proof.
  split.
  - intros k Hk. cbn. apply mem_In in Hk. rewrite Hk. apply orb_true_r.
  - intros l Hl. cbn. rewrite N.eqb_refl. apply lookup_has_line. exact Hl.
Qed.

Lemma add_keeps s n b : b_mid b <> b_mid n -> entries_ok s b -> entries_ok (add s n (b_mid n)) b.
Proof.
  intros Hm [H1 H2]. split.
  - intros k Hk. cbn. rewrite (H1 k Hk). reflexivity.
  - intros l Hl. cbn. destruct (N.eqb_spec (b_mid b) (b_mid n)) as [E|_]; [contradiction|]. apply H2. exact Hl.
Qed.

Lemma remove_keeps s ob mid b : b_mid b <> mid -> (forall k, In k (b_ids b) -> In k (b_ids ob) -> False) ->
  entries_ok s b -> entries_ok (remove s ob mid) b.
Proof.
  intros Hm Hd [H1 H2]. split.
  - intros k Hk. cbn. rewrite (H1 k Hk). cbn. destruct (mem k (b_ids ob)) eqn:E; [|reflexivity].
    apply mem_In in E. exfalso. exact (Hd k Hk E).
  - intros l Hl. cbn. destruct (N.eqb_spec (b_mid b) mid) as [E|_]; [contradiction|]. cbn. apply H2. exact Hl.
Qed.

Lemma entries_ok_ext s s' b : (forall k, gn s' k = gn s k) -> (forall m l, gl s' m l = gl s m l) -> entries_ok s b -> entries_ok s' b.
Proof. intros Hn Hl [H1 H2]. split; intros; [rewrite Hn; auto|rewrite Hl; auto]. Qed.

Lemma step_inv s o : Inv s -> fresh s o -> Inv (step s o).
Proof.
  intros [Hok Hcur Hsep] [Hf1 Hf2].
  destruct o as [p k n]. cbn [o_path o_kind o_bk] in *.
  (* facts about the new bookkeeper against every valid one *)
  assert (Hnew_sep : forall q b, In b (valid s q) -> (forall i, In i (b_ids n) -> In i (b_ids b) -> False) /\ b_mid n <> b_mid b).
  { intros q b Hb. split.
    - intros i Hi Hi'. pose proof (Hf1 i Hi) as F. rewrite (proj1 (Hok q b Hb) i Hi') in F. discriminate F.
    - intros E. exact (Hf2 q b Hb (eq_sym E)). }
  unfold model.BookHist.step. cbn [o_path o_kind o_bk].
  set (s0 := {| cur := _; gn := gn s; gl := gl s; valid := _ |}).
  (* the valid lists after the step, whichever branch is taken *)
  assert (Hvalid : forall st', valid st' = valid s0 -> cur st' = cur s0 ->
            (forall q b, In b (valid s0 q) -> entries_ok st' b) -> Inv st').
  { intros st' Ev Ec Hall. split.
    - intros q b Hb. rewrite Ev in Hb. exact (Hall q b Hb).
    - intros q. rewrite Ev, Ec. subst s0. cbn [valid cur]. destruct (N.eqb q p); [destruct (collects gc k); reflexivity|apply Hcur].
    - intros q b q' b' Hb Hb' Hne. rewrite Ev in Hb, Hb'. subst s0. cbn [valid] in Hb, Hb'.
      destruct (N.eqb_spec q p) as [->|Hq]; destruct (N.eqb_spec q' p) as [->|Hq'].
      + contradiction.
      + assert (Hb2 : b = n \/ In b (valid s p)) by (destruct (collects gc k); [destruct Hb as [<-|[]]; auto|destruct Hb as [<-|Hb]; auto]).
        destruct Hb2 as [->|Hb2]; [exact (Hnew_sep q' b' Hb')|exact (Hsep p b q' b' Hb2 Hb' Hne)].
      + assert (Hb2 : b' = n \/ In b' (valid s p)) by (destruct (collects gc k); [destruct Hb' as [<-|[]]; auto|destruct Hb' as [<-|Hb']; auto]).
        destruct Hb2 as [->|Hb2].
        * destruct (Hnew_sep q b Hb) as [D M]. split; [intros i Hi Hi'; exact (D i Hi' Hi)|intros E; exact (M (eq_sym E))].
        * exact (Hsep q b p b' Hb Hb2 Hne).
      + exact (Hsep q b q' b' Hb Hb' Hne). }
  destruct (cur s p) as [ob|] eqn:Hold.
  - assert (Hob : In ob (valid s p)).
    { specialize (Hcur p). rewrite Hold in Hcur. destruct (valid s p) as [|x xs]; [discriminate|]. injection Hcur as <-. left. reflexivity. }
    destruct (collects gc k) eqn:Hc.
    + (* the old bookkeeper of the path is collected, then the new one is added *)
      apply Hvalid; [reflexivity|reflexivity|]. intros q b Hb. subst s0. cbn [valid] in Hb.
      destruct (N.eqb_spec q p) as [->|Hq].
      * rewrite ?Hc in Hb. destruct Hb as [<-|[]]. apply add_ok.
      * apply add_keeps; [intros E; exact (proj2 (Hnew_sep q b Hb) (eq_sym E))|].
        apply remove_keeps.
        -- exact (proj2 (Hsep q b p ob Hb Hob Hq)).
        -- intros i Hi Hi'. exact (proj1 (Hsep q b p ob Hb Hob Hq) i Hi Hi').
        -- apply (entries_ok_ext s); [reflexivity|reflexivity|]. exact (Hok q b Hb).
    + apply Hvalid; [reflexivity|reflexivity|]. intros q b Hb. subst s0. cbn [valid] in Hb.
      assert (Hb2 : b = n \/ exists q0, In b (valid s q0)).
      { destruct (N.eqb q p); [rewrite ?Hc in Hb; destruct Hb as [<-|Hb]; [left; reflexivity|right; eauto]|right; eauto]. }
      destruct Hb2 as [->|[q0 Hb0]]; [apply add_ok|].
      apply add_keeps; [intros E; exact (proj2 (Hnew_sep q0 b Hb0) (eq_sym E))|].
      apply (entries_ok_ext s); [reflexivity|reflexivity|]. exact (Hok q0 b Hb0).
  - assert (Hnil : valid s p = []).
    { specialize (Hcur p). rewrite Hold in Hcur. destruct (valid s p); [reflexivity|discriminate]. }
    apply Hvalid; [reflexivity|reflexivity|]. intros q b Hb. subst s0. cbn [valid] in Hb.
    assert (Hb2 : b = n \/ exists q0, In b (valid s q0)).
    { destruct (N.eqb_spec q p) as [->|_]; [|right; eauto]. rewrite Hnil in Hb. destruct (collects gc k); destruct Hb as [<-|[]]; left; reflexivity. }
    destruct Hb2 as [->|[q0 Hb0]]; [apply add_ok|].
    apply add_keeps; [intros E; exact (proj2 (Hnew_sep q0 b Hb0) (eq_sym E))|].
    apply (entries_ok_ext s); [reflexivity|reflexivity|]. exact (Hok q0 b Hb0).
Qed.

(* every instrumentation of the history meets `fresh` in the state it is applied to *)
Fixpoint hist_fresh (ops : list op) (s : st) : Prop :=
  match ops with [] => True | o :: ops' => fresh s o /\ hist_fresh ops' (step s o) end.

Theorem history_entries_valid ops : forall s, Inv s -> hist_fresh ops s ->
  forall q b, In b (valid (run ops s) q) -> entries_ok (run ops s) b.
Proof.
  induction ops as [|o ops IH]; intros s HI HF q b Hb.
  - exact (inv_ok s HI q b Hb).
  - destruct HF as [Hf HF]. cbn [model.BookHist.run fold_left] in *. exact (IH _ (step_inv s o HI Hf) HF q b Hb).
Qed.

(* ---- the module id is the id of one of the bookkeeper's own nodes (the registered copy of the tree): then "its module id is
        not the module id of any bookkeeper whose code can still run" is no assumption any more, it follows from the ids *)
Definition wf_bk (b : bk) : Prop := In (b_mid b) (b_ids b).
Definition fresh_ids (s : st) (o : op) : Prop := (forall k, In k (b_ids (o_bk o)) -> gn s k = false) /\ wf_bk (o_bk o).
Definition all_wf (s : st) : Prop := forall q b, In b (valid s q) -> wf_bk b.

Lemma fresh_of_ids s o : Inv s -> all_wf s -> fresh_ids s o -> fresh s o.
Proof.
  intros HI HW [Hf Hw]. split; [exact Hf|]. intros q b Hb E.
  pose proof (proj1 (inv_ok s HI q b Hb) (b_mid b) (HW q b Hb)) as H1. rewrite E in H1.
  rewrite (Hf _ Hw) in H1. discriminate.
Qed.
Lemma step_all_wf s o : all_wf s -> wf_bk (o_bk o) -> all_wf (step s o).
Proof.
  intros HW Hw q b Hb. destruct o as [p k n]. cbn [o_bk] in Hw.
  assert (Hv : valid (step s {| o_path := p; o_kind := k; o_bk := n |}) q =
               if N.eqb q p then (if collects gc k then [n] else n :: valid s q) else valid s q).
  { unfold model.BookHist.step. cbn [o_path o_kind o_bk]. destruct (cur s p); [destruct (collects gc k)|]; reflexivity. }
  rewrite Hv in Hb. destruct (N.eqb q p); [|exact (HW q b Hb)].
  destruct (collects gc k); [destruct Hb as [<-|[]]; exact Hw|destruct Hb as [<-|Hb]; [exact Hw|exact (HW q b Hb)]].
Qed.
Fixpoint hist_fresh_ids (ops : list op) (s : st) : Prop :=
  match ops with [] => True | o :: ops' => fresh_ids s o /\ hist_fresh_ids ops' (step s o) end.
Lemma hist_fresh_of_ids ops : forall s, Inv s -> all_wf s -> hist_fresh_ids ops s -> hist_fresh ops s.
Proof.
  induction ops as [|o ops IH]; intros s HI HW H; [exact I|]. destruct H as [Hf H].
  pose proof (fresh_of_ids s o HI HW Hf) as F. split; [exact F|].
  apply IH; [exact (step_inv s o HI F)|exact (step_all_wf s o HW (proj2 Hf))|exact H].
Qed.
Theorem history_entries_valid_ids ops : hist_fresh_ids ops st0 ->
  forall q b, In b (valid (run ops st0) q) -> entries_ok (run ops st0) b.
Proof.
  intros H. apply (history_entries_valid ops st0 inv0). apply hist_fresh_of_ids; [exact inv0| |exact H].
  intros q b [].
Qed.
End RemoveFirst.

(* the other order (add the new bookkeeper, then remove the old one's keys from the line table of the NEW module id):
   a file instrumented twice loses every line the two versions share *)
Example remove_after_add_refuted :
  let b1 := {| b_mid := 1; b_ids := [10; 11]; b_lines := [(1, 11)] |}%N in
  let b2 := {| b_mid := 2; b_ids := [20; 21]; b_lines := [(1, 21)] |}%N in
  let s := model.BookHist.run false false true [ {| o_path := 0%N; o_kind := KModule; o_bk := b1 |}; {| o_path := 0%N; o_kind := KModule; o_bk := b2 |} ] st0 in
  valid s 0%N = [b2] /\ gl s 2%N 1%N = None.
Proof. vm_compute. split; reflexivity. Qed.

(* removal under the NEW module id (before dbf4257: ast_rewriter.py passed `module_id`): the line table of the replaced tree survives whole *)
Example remove_new_mid_leaks :
  let b1 := {| b_mid := 10; b_ids := [10; 11]; b_lines := [(1, 11)] |}%N in
  let b2 := {| b_mid := 20; b_ids := [20; 21]; b_lines := [(2, 21)] |}%N in
  let ops := [ {| o_path := 0%N; o_kind := KModule; o_bk := b1 |}; {| o_path := 0%N; o_kind := KModule; o_bk := b2 |} ] in
  gl (model.BookHist.run true false true ops st0) 10%N 1%N = Some 11%N /\ gl (model.BookHist.run true true true ops st0) 10%N 1%N = None.
Proof. vm_compute. split; reflexivity. Qed.
