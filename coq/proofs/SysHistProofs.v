From Coq Require Import List NArith Bool Arith Lia.
Import ListNotations.
From PyccoloV Require Import model.SysHist.

Fixpoint node_ind2 (P : node -> Prop) (H : forall t cs, Forall P cs -> P (Nd t cs)) (n : node) : P n :=
  match n with
  | Nd t cs => H t cs ((fix go (l : list node) : Forall P l :=
                          match l with [] => Forall_nil P | x :: l' => Forall_cons x (node_ind2 P H x) (go l') end) cs)
  end.

Section Proofs.
Variable tps : nat -> third.
Variable sub : sevt -> bool.
Notation plain := (plain tps).
Notation pyc := (pyc tps sub true true true).
Notation call_tp := (call_tp tps).

Lemma hl_app a b : handler_log (a ++ b) = handler_log a ++ handler_log b.
Proof. unfold handler_log. now rewrite filter_app, map_app. Qed.
Lemma tl_app a b : third_log (a ++ b) = third_log a ++ third_log b.
Proof. unfold third_log. now rewrite filter_app. Qed.
Lemma call_tp_handler f e name : handler_log (snd (call_tp f e name)) = [].
Proof. destruct f, e; reflexivity. Qed.
Lemma call_tp_third f e name : third_log (snd (call_tp f e name)) = snd (call_tp f e name).
Proof. destruct f, e; reflexivity. Qed.

(* the local function handed to the interpreter under pyccolo, given the third party's (lp) *)
Definition rel (acc : bool) (ft : pyf) (lp : option tpf) : Prop :=
  ft = if acc then PComp lp else match lp with None => PNone | Some f => PComp (Some f) end.

Lemma event_step g acc name ft lp e : rel acc ft lp ->
  let '(ft1, l) := py_event tps sub true true g acc name ft e in
  let '(lp1, lpl) := match g, lp with Some _, Some f => let '(r, l0) := call_tp f e name in (keep lp r, l0) | _, _ => (lp, []) end in
  rel acc ft1 lp1 /\ handler_log l = (if acc && sub e then [(e, name)] else []) /\ third_log l = lpl.
Proof.
  intros R. unfold rel in R. subst ft.
  destruct acc; cbn [andb].
  - unfold py_event, call_existing. destruct lp as [f|].
    + destruct g as [i|]; cbn [andb].
      * pose proof (call_tp_handler f e name) as Hh. pose proof (call_tp_third f e name) as Ht.
        destruct (call_tp f e name) as [r l0]. cbn [snd] in Hh, Ht. repeat split.
        -- rewrite hl_app, Hh, app_nil_r. destruct (sub e); reflexivity.
        -- rewrite tl_app, Ht. destruct (sub e); reflexivity.
      * repeat split; rewrite ?app_nil_r; destruct (sub e); reflexivity.
    + destruct g; repeat split; rewrite ?app_nil_r; destruct (sub e); reflexivity.
  - destruct lp as [f|]; [|destruct g; repeat split].
    unfold py_event, call_existing. destruct g as [i|]; cbn [andb].
    + pose proof (call_tp_handler f e name) as Hh. pose proof (call_tp_third f e name) as Ht.
      destruct (call_tp f e name) as [r l0] eqn:Ec. cbn [snd] in Hh, Ht. repeat split; try assumption.
      unfold rel. destruct r; reflexivity.
    + repeat split.
Qed.

Definition good (n : node) : Prop := forall g,
  fst (pyc g n) = fst (plain g n) /\
  third_log (snd (pyc g n)) = snd (plain g n) /\
  handler_log (snd (pyc g n)) = filter (fun e => sub (fst e)) (events n).

Lemma items_good acc name its : Forall good its -> forall g ft lp, rel acc ft lp ->
  let '(ex1, ft1, l1) := py_items tps sub true true pyc acc name its g ft in
  let '(g1, lp1, lp_log) := plain_items tps plain name its g lp in
  ex1 = g1 /\ rel acc ft1 lp1 /\ third_log l1 = lp_log /\
  handler_log l1 = filter (fun e => sub (fst e)) (events_items events acc name its).
Proof.
  induction 1 as [|it its Hit _ IH]; intros g ft lp R; cbn [py_items plain_items events_items].
  - repeat split; assumption.
  - destruct it as [[a nm| | |x] cs].
    + (* a nested frame *)
      destruct (Hit g) as (G1 & G2 & G3).
      destruct (pyc g (Nd (TFrame a nm) cs)) as [ex1 l] eqn:Ep. destruct (plain g (Nd (TFrame a nm) cs)) as [g1 lpl] eqn:Epl.
      cbn [fst snd] in G1, G2, G3. subst ex1.
      specialize (IH g1 ft lp R).
      destruct (py_items tps sub true true pyc acc name its g1 ft) as [[ex2 ft2] l']. destruct (plain_items tps plain name its g1 lp) as [[g2 lp2] lpl'].
      destruct IH as (I1 & I2 & I3 & I4). repeat split; try assumption.
      * rewrite tl_app, G2, I3. reflexivity.
      * rewrite hl_app, G3, I4, filter_app. reflexivity.
    + (* line *)
      pose proof (event_step g acc name ft lp SLine R) as Hs.
      destruct (py_event tps sub true true g acc name ft SLine) as [ft1 l].
      destruct g as [i|]; [destruct lp as [f|]|].
      * destruct (call_tp f SLine name) as [r l0] eqn:Ec. destruct Hs as (R1 & Hh & Ht).
        specialize (IH (Some i) ft1 (keep (Some f) r) R1).
        destruct (py_items tps sub true true pyc acc name its (Some i) ft1) as [[ex2 ft2] l']. destruct (plain_items tps plain name its (Some i) (keep (Some f) r)) as [[g2 lp2] lpl'].
        destruct IH as (I1 & I2 & I3 & I4). repeat split; try assumption.
        -- rewrite tl_app, Ht, I3. reflexivity.
        -- rewrite hl_app, Hh, I4, filter_app. f_equal. destruct acc; cbn; [destruct (sub SLine)|]; reflexivity.
      * destruct Hs as (R1 & Hh & Ht). specialize (IH (Some i) ft1 None R1).
        destruct (py_items tps sub true true pyc acc name its (Some i) ft1) as [[ex2 ft2] l']. destruct (plain_items tps plain name its (Some i) None) as [[g2 lp2] lpl'].
        destruct IH as (I1 & I2 & I3 & I4). repeat split; try assumption.
        -- rewrite tl_app, Ht, I3. reflexivity.
        -- rewrite hl_app, Hh, I4, filter_app. f_equal. destruct acc; cbn; [destruct (sub SLine)|]; reflexivity.
      * destruct Hs as (R1 & Hh & Ht). specialize (IH None ft1 lp R1).
        destruct (py_items tps sub true true pyc acc name its None ft1) as [[ex2 ft2] l']. destruct (plain_items tps plain name its None lp) as [[g2 lp2] lpl'].
        destruct IH as (I1 & I2 & I3 & I4). repeat split; try assumption.
        -- rewrite tl_app, Ht, I3. reflexivity.
        -- rewrite hl_app, Hh, I4, filter_app. f_equal. destruct acc; cbn; [destruct (sub SLine)|]; reflexivity.
    + (* exception *)
      pose proof (event_step g acc name ft lp SExc R) as Hs.
      destruct (py_event tps sub true true g acc name ft SExc) as [ft1 l].
      destruct g as [i|]; [destruct lp as [f|]|].
      * destruct (call_tp f SExc name) as [r l0] eqn:Ec. destruct Hs as (R1 & Hh & Ht).
        specialize (IH (Some i) ft1 (keep (Some f) r) R1).
        destruct (py_items tps sub true true pyc acc name its (Some i) ft1) as [[ex2 ft2] l']. destruct (plain_items tps plain name its (Some i) (keep (Some f) r)) as [[g2 lp2] lpl'].
        destruct IH as (I1 & I2 & I3 & I4). repeat split; try assumption.
        -- rewrite tl_app, Ht, I3. reflexivity.
        -- rewrite hl_app, Hh, I4, filter_app. f_equal. destruct acc; cbn; [destruct (sub SExc)|]; reflexivity.
      * destruct Hs as (R1 & Hh & Ht). specialize (IH (Some i) ft1 None R1).
        destruct (py_items tps sub true true pyc acc name its (Some i) ft1) as [[ex2 ft2] l']. destruct (plain_items tps plain name its (Some i) None) as [[g2 lp2] lpl'].
        destruct IH as (I1 & I2 & I3 & I4). repeat split; try assumption.
        -- rewrite tl_app, Ht, I3. reflexivity.
        -- rewrite hl_app, Hh, I4, filter_app. f_equal. destruct acc; cbn; [destruct (sub SExc)|]; reflexivity.
      * destruct Hs as (R1 & Hh & Ht). specialize (IH None ft1 lp R1).
        destruct (py_items tps sub true true pyc acc name its None ft1) as [[ex2 ft2] l']. destruct (plain_items tps plain name its None lp) as [[g2 lp2] lpl'].
        destruct IH as (I1 & I2 & I3 & I4). repeat split; try assumption.
        -- rewrite tl_app, Ht, I3. reflexivity.
        -- rewrite hl_app, Hh, I4, filter_app. f_equal. destruct acc; cbn; [destruct (sub SExc)|]; reflexivity.
    + (* sys.settrace by user code *)
      apply (IH x ft lp R).
Qed.

Theorem all_good : forall n, good n.
Proof.
  intros n. induction n as [t cs IH] using node_ind2. destruct t as [acc name| | |x]; try (intros g0; repeat split; fail).
  intros g. cbn [model.SysHist.pyc model.SysHist.plain events].
  set (c0 := match g with Some i => call_tp (FGlob i) SCall name | None => (None, []) end).
  assert (Hc0 : handler_log (snd c0) = [] /\ third_log (snd c0) = snd c0) by (subst c0; destruct g; [split; [apply call_tp_handler|apply call_tp_third]|split; reflexivity]).
  destruct c0 as [r lg]. cbn [snd] in Hc0. destruct Hc0 as (Hh0 & Ht0).
  assert (R0 : rel acc (if acc then PComp r else match r with None => PNone | Some f => PComp (Some f) end) r) by reflexivity.
  pose proof (items_good acc name cs IH g _ r R0) as Hi.
  destruct (py_items tps sub true true pyc acc name cs g _) as [[ex1 ft1] l1]. destruct (plain_items tps plain name cs g r) as [[g1 lp1] lpl].
  destruct Hi as (E1 & R1 & Ht1 & Hh1). subst ex1.
  pose proof (event_step g1 acc name ft1 lp1 SRet R1) as Hs.
  destruct (py_event tps sub true true g1 acc name ft1 SRet) as [ft2 l2]. cbn [fst snd].
  assert (Hret : handler_log l2 = (if acc && sub SRet then [(SRet, name)] else []) /\
                 third_log l2 = match g1, lp1 with Some _, Some f => snd (call_tp f SRet name) | _, _ => [] end).
  { destruct g1 as [i|]; [destruct lp1 as [f|]|]; [destruct (call_tp f SRet name) as [r' l0]| |]; destruct Hs as (_ & A & B); split; assumption. }
  destruct Hret as (Hh2 & Ht2). repeat split.
  - rewrite !tl_app, Ht0, Ht1, Ht2. destruct (acc && sub SCall); reflexivity.
  - rewrite !hl_app, Hh0, Hh1, Hh2, !filter_app. cbn [app]. f_equal; [|f_equal].
    + destruct acc; cbn; [destruct (sub SCall)|]; reflexivity.
    + destruct acc; cbn; [destruct (sub SRet)|]; reflexivity.
Qed.
End Proofs.

(* the two repaired defects as witnesses: third party 0 is installed before the context; user code calls sys.settrace(None) between two
   lines of a running frame *)
Definition tp_all : nat -> third := fun _ => {| tp_accepts := fun _ => true; tp_self := false; tp_switch := false |}.
Definition tp_sw : nat -> third := fun _ => {| tp_accepts := fun _ => true; tp_self := false; tp_switch := true |}.
Definition ex_hist (acc : bool) : node := Nd (TFrame acc 1%N) [Nd TLine []; Nd (TSet None) []; Nd TLine []].
Example no_uninstall_check_refuted :
  third_log (snd (model.SysHist.pyc tp_all (fun _ => true) false true true (Some 0) (ex_hist true))) <> snd (model.SysHist.plain tp_all (Some 0) (ex_hist true)).
Proof. vm_compute. discriminate. Qed.
Example raw_foreign_refuted :
  third_log (snd (model.SysHist.pyc tp_all (fun _ => true) true false true (Some 0) (ex_hist false))) <> snd (model.SysHist.plain tp_all (Some 0) (ex_hist false)).
Proof. vm_compute. discriminate. Qed.

(* a third party whose local function hands over to a second one at its first event (the pattern of debuggers: until the first line,
   then the rest): without following it (before the repair) the first function keeps receiving everything *)
Definition ex_sw : node := Nd (TFrame true 1%N) [Nd TLine []; Nd TLine []].
Example no_rebind_refuted :
  third_log (snd (model.SysHist.pyc tp_sw (fun _ => true) true true false (Some 0) ex_sw)) <> snd (model.SysHist.plain tp_sw (Some 0) ex_sw)
  /\ snd (model.SysHist.plain tp_sw (Some 0) ex_sw) = [(WG 0, SCall, 1%N); (WL 0, SLine, 1%N); (WL2 0, SLine, 1%N); (WL2 0, SRet, 1%N)].
Proof. vm_compute. split; [discriminate|reflexivity]. Qed.
