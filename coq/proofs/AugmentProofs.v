(* C14: fix_positions recovers the final columns whenever sorting by recorded column gives the true left-to-right order. *)
From Coq Require Import List ZArith NArith Bool Arith Lia.
Import ListNotations.
From PyccoloV Require Import model.Augment.
Local Open Scope Z_scope.

Definition sum_if (offs : nat -> Z) (P : nat -> bool) (l : list occ) : Z :=
  fold_left (fun (acc : Z) (o : occ) => if P (snd o) then acc + offs (snd o) else acc) l 0.

Lemma fold_acc (offs : nat -> Z) (P : nat -> bool) l : forall a,
  fold_left (fun (acc : Z) (o : occ) => if P (snd o) then acc + offs (snd o) else acc) l a = a + sum_if offs P l.
Proof.
  unfold sum_if. induction l as [|o l IH]; intros a; cbn [fold_left]; [lia|].
  rewrite IH. rewrite (IH (if P (snd o) then 0 + offs (snd o) else 0)). destruct (P (snd o)); lia.
Qed.
Lemma sum_if_snoc (offs : nat -> Z) (P : nat -> bool) l o : sum_if offs P (l ++ [o]) = sum_if offs P l + (if P (snd o) then offs (snd o) else 0).
Proof. unfold sum_if. rewrite fold_left_app. cbn. destruct (P (snd o)); lia. Qed.

Lemma sum_if_split offs k l :
  sum_if offs (fun j => Nat.leb k j) l = sum_if offs (fun j => Nat.ltb k j) l + sum_if offs (fun j => Nat.eqb j k) l.
Proof.
  induction l as [|o l IHl] using rev_ind; [reflexivity|].
  rewrite !sum_if_snoc, IHl.
  destruct (Nat.leb k (snd o)) eqn:E1, (Nat.ltb k (snd o)) eqn:E2, (Nat.eqb (snd o) k) eqn:E3; try lia;
    exfalso; (apply Nat.leb_le in E1 || apply Nat.leb_gt in E1); (apply Nat.ltb_lt in E2 || apply Nat.ltb_ge in E2);
    (apply Nat.eqb_eq in E3 || apply Nat.eqb_neq in E3); lia.
Qed.

(* the two Counters of fix_positions after the occurrences in `left` have been processed *)
Definition inv (offs : nat -> Z) (left : list occ) (total own : counter) : Prop :=
  forall k, total k = sum_if offs (fun j => Nat.leb k j) left /\ own k = sum_if offs (fun j => Nat.eqb j k) left.

Lemma fix_recorded offs : forall layout left total own, inv offs left total own ->
  fix_sorted offs total own (recorded_of offs left layout) = layout.
Proof.
  induction layout as [|[f k] layout IH]; intros left total own Hinv; cbn [recorded_of fix_sorted]; auto.
  f_equal.
  - f_equal. unfold cadd_upto, cadd_at. rewrite Nat.leb_refl, Nat.eqb_refl.
    destruct (Hinv k) as [Ht Ho]. rewrite Ht, Ho.
    change (fold_left (fun (acc : Z) (o : occ) => if (k <? snd o)%nat then acc + offs (snd o) else acc) left 0)
      with (sum_if offs (fun j => Nat.ltb k j) left).
    pose proof (sum_if_split offs k left) as Hsplit.
    lia.
  - apply IH. intros j. destruct (Hinv j) as [Ht Ho]. rewrite !sum_if_snoc. cbn [snd]. unfold cadd_upto, cadd_at. split.
    + rewrite Ht. destruct (Nat.leb j k); lia.
    + rewrite Ho. rewrite (Nat.eqb_sym k j). destruct (Nat.eqb j k); lia.
Qed.

(* for every number of specs with arbitrary length changes, every number of occurrences on a line: if sorting the
   recorded columns does not reorder them, every corrected column is the occurrence's column in the final text *)
Theorem fix_line_correct offs layout :
  sort_occs (recorded_of offs [] layout) = Some (recorded_of offs [] layout) ->
  fix_line offs (recorded_of offs [] layout) = Some layout.
Proof.
  intros Hs. unfold fix_line. rewrite Hs. cbn. f_equal. apply fix_recorded. intros k. split; reflexivity.
Qed.

(* the side condition is needed.  Specs in application order: 0 shrinks by 1, 2 shrinks by 3.  Final layout of one line:
   an occurrence of spec 2 at column 0, of spec 0 at column 5, of spec 2 at column 6.  The column recorded for the
   spec-0 occurrence (taken when the first spec-2 token was still 3 longer) is 8 > 6: the sort puts it after the last
   occurrence, and its corrected column comes out as 2 instead of 5: the node at column 5 is not marked. *)
Theorem fix_line_refuted :
  exists offs layout,
    In (5, 0%nat) layout /\
    match fix_line offs (recorded_of offs [] layout) with
    | Some l => ~ In (5, 0%nat) l
    | None => False
    end.
Proof.
  exists (fun k => match k with 0%nat => 1 | _ => 3 end), [(0, 2%nat); (5, 0%nat); (6, 2%nat)].
  split; [right; left; reflexivity|]. vm_compute. intros [H|[H|[H|[]]]]; discriminate H.
Qed.

(* and two occurrences of different specs recorded at the same column make the sort compare two specs (TypeError) *)
Theorem fix_line_tie_refuted :
  exists offs layout, fix_line offs (recorded_of offs [] layout) = None.
Proof. exists (fun k => match k with 0%nat => 1 | _ => 3 end), [(0, 2%nat); (2, 0%nat); (5, 2%nat)]. vm_compute. reflexivity. Qed.

(* ---- replace_tokens: the text *)
Lemma str_eqb_eq a : forall b, str_eqb a b = true -> a = b.
Proof.
  induction a as [|x a IH]; intros [|y b] H; cbn in H; try discriminate; [reflexivity|].
  apply andb_prop in H as [H1 H2]. apply N.eqb_eq in H1. subst y. f_equal. now apply IH.
Qed.

(* replacing the token by itself gives the source back, whatever the tokens are: nothing between or inside tokens is lost,
   duplicated or re-spaced, with or without occurrences (before the repair the text was rebuilt from token strings and blanks:
   tabs, form feeds, backslash continuations and the `{{` of f-strings did not survive even in a source without occurrences) *)
Lemma step_text tok s cur :
  transformed (step tok tok s cur) ++ matchbuf (step tok tok s cur) = (transformed s ++ matchbuf s) ++ t_gap cur ++ t_text cur.
Proof.
  unfold step.
  destruct (negb (t_opaque cur) && nonempty (matchbuf s) && prefix_of (matchbuf s ++ t_gap cur ++ t_text cur) tok) eqn:E1.
  - unfold finish. destruct (str_eqb (matchbuf s ++ t_gap cur ++ t_text cur) tok) eqn:E2.
    + apply str_eqb_eq in E2. destruct (Z.eqb (fst (match_start s)) (offset_row s)); cbn [transformed matchbuf];
        rewrite app_nil_r, <- E2, <- !app_assoc; reflexivity.
    + cbn [transformed matchbuf]. now rewrite <- !app_assoc.
  - destruct (negb (t_opaque cur) && prefix_of (t_text cur) tok && nonempty (t_text cur)) eqn:E3.
    + unfold finish. destruct (str_eqb (t_text cur) tok) eqn:E2.
      * apply str_eqb_eq in E2. destruct (Z.eqb (fst (t_row cur, t_col cur)) (offset_row s)); cbn [transformed matchbuf];
          rewrite app_nil_r, <- E2, <- !app_assoc; reflexivity.
      * cbn [transformed matchbuf]. now rewrite <- !app_assoc.
    + cbn [transformed matchbuf]. now rewrite app_nil_r, <- !app_assoc.
Qed.
Theorem replace_self_identity tok toks : fst (replace_tokens tok tok toks) = source_of toks.
Proof.
  unfold replace_tokens. cbn [fst].
  set (s0 := {| transformed := []; matchbuf := []; match_start := (-1, -1); offset_row := -1; col_offset := 0; positions := [] |}).
  assert (G : forall l s, transformed (fold_left (step tok tok) l s) ++ matchbuf (fold_left (step tok tok) l s) =
                          (transformed s ++ matchbuf s) ++ source_of l).
  { induction l as [|t l IH]; intros s; cbn [fold_left source_of flat_map]; [now rewrite app_nil_r|].
    rewrite IH, step_text. unfold source_of. now rewrite <- !app_assoc. }
  rewrite G. reflexivity.
Qed.

(* a source in which no code token starts an occurrence comes back unchanged, for any replacement, and nothing is recorded *)
Theorem replace_no_occurrence tok repl toks :
  (forall t, In t toks -> t_opaque t = true \/ t_text t = [] \/ prefix_of (t_text t) tok = false) ->
  replace_tokens tok repl toks = (source_of toks, []).
Proof.
  intros H. unfold replace_tokens.
  set (s0 := {| transformed := []; matchbuf := []; match_start := (-1, -1); offset_row := -1; col_offset := 0; positions := [] |}).
  assert (G : forall l s, (forall t, In t l -> t_opaque t = true \/ t_text t = [] \/ prefix_of (t_text t) tok = false) ->
              matchbuf s = [] -> positions s = [] ->
              let s' := fold_left (step tok repl) l s in
              matchbuf s' = [] /\ positions s' = [] /\ transformed s' = transformed s ++ source_of l).
  { induction l as [|t l IH]; intros s Hl Hm Hp; cbn [fold_left source_of flat_map]; [now rewrite app_nil_r|].
    assert (Hs : step tok repl s t = {| transformed := (transformed s ++ t_gap t) ++ t_text t; matchbuf := []; match_start := match_start s;
                                        offset_row := offset_row s; col_offset := col_offset s; positions := positions s |}).
    { unfold step. rewrite Hm. cbn [nonempty app]. rewrite andb_false_r. cbn [andb].
      destruct (Hl t (or_introl eq_refl)) as [Ho|[Ho|Ho]].
      - rewrite Ho. cbn [negb andb]. reflexivity.
      - rewrite Ho. cbn [nonempty]. rewrite !andb_false_r. reflexivity.
      - rewrite Ho. rewrite andb_false_r. cbn [andb]. reflexivity. }
    rewrite Hs.
    set (s1 := {| transformed := (transformed s ++ t_gap t) ++ t_text t; matchbuf := []; match_start := match_start s;
                  offset_row := offset_row s; col_offset := col_offset s; positions := positions s |}).
    destruct (IH s1 (fun t' Ht' => Hl t' (or_intror Ht')) eq_refl Hp) as (A & B & C).
    repeat split; auto. rewrite C. unfold s1, source_of. cbn [transformed]. now rewrite <- !app_assoc. }
  destruct (G toks s0 H eq_refl eq_refl) as (A & B & C). rewrite A, B, C. cbn [transformed s0 app]. now rewrite app_nil_r.
Qed.
