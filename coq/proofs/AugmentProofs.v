(* C14: fix_positions recovers the final columns whenever sorting by recorded column gives the true left-to-right order. *)
From Coq Require Import List ZArith NArith Bool Arith Lia.
Import ListNotations.
From PyccoloV Require Import model.Augment.
Local Open Scope Z_scope.

Definition sum_if (offs : nat -> Z) (P : nat -> bool) (l : list occ) : Z :=
  fold_left (fun (acc : Z) (o : occ) => if P (snd o) then acc + offs (snd o) else acc) l 0.

Lemma fold_acc (offs : nat -> Z) (P : nat -> bool) l : forall a,
  fold_left (fun (acc : Z) (o : occ) => if P (snd o) then acc + offs (snd o) else acc) l a = a + sum_if offs P l.
Proof.
  unfold sum_if. induction l as [|o l IH]; intros a; cbn [fold_left]; [lia|].
  rewrite IH. rewrite (IH (if P (snd o) then 0 + offs (snd o) else 0)). destruct (P (snd o)); lia.
Qed.
Lemma sum_if_snoc (offs : nat -> Z) (P : nat -> bool) l o : sum_if offs P (l ++ [o]) = sum_if offs P l + (if P (snd o) then offs (snd o) else 0).
Proof. unfold sum_if. rewrite fold_left_app. cbn. destruct (P (snd o)); lia. Qed.

Lemma sum_if_split offs k l :
  sum_if offs (fun j => Nat.leb k j) l = sum_if offs (fun j => Nat.ltb k j) l + sum_if offs (fun j => Nat.eqb j k) l.
Proof.
  induction l as [|o l IHl] using rev_ind; [reflexivity|].
  rewrite !sum_if_snoc, IHl.
  destruct (Nat.leb k (snd o)) eqn:E1, (Nat.ltb k (snd o)) eqn:E2, (Nat.eqb (snd o) k) eqn:E3; try lia;
    exfalso; (apply Nat.leb_le in E1 || apply Nat.leb_gt in E1); (apply Nat.ltb_lt in E2 || apply Nat.ltb_ge in E2);
    (apply Nat.eqb_eq in E3 || apply Nat.eqb_neq in E3); lia.
Qed.

(* the two Counters of fix_positions after the occurrences in `left` have been processed *)
Definition inv (offs : nat -> Z) (left : list occ) (total own : counter) : Prop :=
  forall k, total k = sum_if offs (fun j => Nat.leb k j) left /\ own k = sum_if offs (fun j => Nat.eqb j k) left.

Lemma fix_recorded offs : forall layout left total own, inv offs left total own ->
  fix_sorted offs total own (recorded_of offs left layout) = layout.
Proof.
  induction layout as [|[f k] layout IH]; intros left total own Hinv; cbn [recorded_of fix_sorted]; auto.
  f_equal.
  - f_equal. unfold cadd_upto, cadd_at. rewrite Nat.leb_refl, Nat.eqb_refl.
    destruct (Hinv k) as [Ht Ho]. rewrite Ht, Ho.
    change (fold_left (fun (acc : Z) (o : occ) => if (k <? snd o)%nat then acc + offs (snd o) else acc) left 0)
      with (sum_if offs (fun j => Nat.ltb k j) left).
    pose proof (sum_if_split offs k left) as Hsplit.
    lia.
  - apply IH. intros j. destruct (Hinv j) as [Ht Ho]. rewrite !sum_if_snoc. cbn [snd]. unfold cadd_upto, cadd_at. split.
    + rewrite Ht. destruct (Nat.leb j k); lia.
    + rewrite Ho. rewrite (Nat.eqb_sym k j). destruct (Nat.eqb j k); lia.
Qed.

(* for every number of specs with arbitrary length changes, every number of occurrences on a line: if sorting the
   recorded columns does not reorder them, every corrected column is the occurrence's column in the final text *)
Theorem fix_line_correct offs layout :
  sort_occs (recorded_of offs [] layout) = Some (recorded_of offs [] layout) ->
  fix_line offs (recorded_of offs [] layout) = Some layout.
Proof.
  intros Hs. unfold fix_line. rewrite Hs. cbn. f_equal. apply fix_recorded. intros k. split; reflexivity.
Qed.

(* the side condition is needed.  Specs in application order: 0 shrinks by 1, 2 shrinks by 3.  Final layout of one line:
   an occurrence of spec 2 at column 0, of spec 0 at column 5, of spec 2 at column 6.  The column recorded for the
   spec-0 occurrence (taken when the first spec-2 token was still 3 longer) is 8 > 6: the sort puts it after the last
   occurrence, and its corrected column comes out as 2 instead of 5: the node at column 5 is not marked. *)
Theorem fix_line_refuted :
  exists offs layout,
    In (5, 0%nat) layout /\
    match fix_line offs (recorded_of offs [] layout) with
    | Some l => ~ In (5, 0%nat) l
    | None => False
    end.
Proof.
  exists (fun k => match k with 0%nat => 1 | _ => 3 end), [(0, 2%nat); (5, 0%nat); (6, 2%nat)].
  split; [right; left; reflexivity|]. vm_compute. intros [H|[H|[H|[]]]]; discriminate H.
Qed.

(* and two occurrences of different specs recorded at the same column make the sort compare two specs (TypeError) *)
Theorem fix_line_tie_refuted :
  exists offs layout, fix_line offs (recorded_of offs [] layout) = None.
Proof. exists (fun k => match k with 0%nat => 1 | _ => 3 end), [(0, 2%nat); (2, 0%nat); (5, 2%nat)]. vm_compute. reflexivity. Qed.
