(* C18: every table write of the bookkeeping visitor agrees with the lexical structure of the tree. *)
From Coq Require Import List NArith Bool Lia.
Import ListNotations.
From PyccoloV Require Import model.Book.

Fixpoint node_ind2 (P : node -> Prop)
  (H : forall st i cs, Forall (fun bc => P (snd bc)) cs -> P (Nd st i cs)) (n : node) : P n :=
  match n with
  | Nd st i cs => H st i cs ((fix go (l : list (bool * node)) : Forall (fun bc => P (snd bc)) l :=
                               match l with [] => Forall_nil _ | x :: l' => Forall_cons x (node_ind2 P H (snd x)) (go l') end) cs)
  end.

(* the recursive part of visit / nodes, named *)
Definition go_visit (cur : option N) := fix go (l : list (bool * node)) : list write :=
  match l with [] => [] | (_, c) :: l' => visit cur c ++ go l' end.
Definition go_nodes := fix go (l : list (bool * node)) : list node :=
  match l with [] => [] | (_, c) :: l' => nodes c ++ go l' end.
Lemma in_go_visit cur l w : In w (go_visit cur l) <-> exists bc, In bc l /\ In w (visit cur (snd bc)).
Proof.
  induction l as [|[b c] l IH]; cbn; [split; [tauto|intros (x & [] & _)]|].
  rewrite in_app_iff, IH. split.
  - intros [H|(bc & H1 & H2)]; [exists (b, c); auto|exists bc; auto].
  - intros (bc & [<-|H1] & H2); [left; auto|right; eauto].
Qed.
Lemma in_go_nodes l n : In n (go_nodes l) <-> exists bc, In bc l /\ In n (nodes (snd bc)).
Proof.
  induction l as [|[b c] l IH]; cbn; [split; [tauto|intros (x & [] & _)]|].
  rewrite in_app_iff, IH. split.
  - intros [H|(bc & H1 & H2)]; [exists (b, c); auto|exists bc; auto].
  - intros (bc & [<-|H1] & H2); [left; auto|right; eauto].
Qed.
Lemma nodes_self n : In n (nodes n).
Proof. destruct n; cbn; auto. Qed.
Lemma nodes_trans : forall a b c, In b (nodes a) -> In c (nodes b) -> In c (nodes a).
Proof.
  intros a. induction a as [st i cs IH] using node_ind2. intros b c Hb Hc. cbn in Hb. destruct Hb as [<-|Hb]; auto.
  cbn. right. fold go_nodes in *. apply in_go_nodes in Hb as (bc & Hin & Hb). apply in_go_nodes. exists bc. split; auto.
  rewrite Forall_forall in IH. eapply IH; eauto.
Qed.

(* well-formed: a child that sits in a single-node field is not a statement (Python's grammar) *)
Fixpoint wf (n : node) : Prop :=
  match n with Nd _ _ cs => (fix go (l : list (bool * node)) : Prop :=
      match l with [] => True | (inli, c) :: l' => (inli = false -> nstmt c = false) /\ wf c /\ go l' end) cs end.
Lemma wf_child st i cs bc : wf (Nd st i cs) -> In bc cs -> (fst bc = false -> nstmt (snd bc) = false) /\ wf (snd bc).
Proof.
  cbn. induction cs as [|[b c] cs IH]; intros H Hin; [destruct Hin|]. destruct H as (H1 & H2 & H3).
  destruct Hin as [<-|Hin]; cbn; auto.
Qed.

(* ---- containing statement: s contains k  :=  s is the id of a statement node S of the tree and k the id of a node of S *)
Definition contains (t : node) (s k : N) : Prop :=
  exists S, In S (nodes t) /\ nstmt S = true /\ nid S = s /\ exists K, In K (nodes S) /\ nid K = k.
Definition cs_write (w : write) : option (N * N) :=
  match w with WCsDefault k s | WCsSet k s => Some (k, s) | _ => None end.

(* every containing-statement write made while visiting n (with inherited current statement cur) names either cur
   and a node of n, or a statement of n that contains the node *)
Lemma cs_writes_ok : forall n cur w k s, wf n -> In w (visit cur n) -> cs_write w = Some (k, s) ->
  (cur = Some s /\ exists K, In K (nodes n) /\ nid K = k) \/ contains n s k.
Proof.
  intros n. induction n as [st i cs IH] using node_ind2. intros cur w k s Hwf Hin Hw.
  rewrite Forall_forall in IH. cbn [visit] in Hin. fold (go_visit (if st then Some i else cur)) in Hin.
  set (cur' := if st then Some i else cur) in *.
  assert (Hself : forall K, In K (nodes (Nd st i cs)) -> nid K = k -> cur' = Some s ->
                  (cur = Some s /\ exists K, In K (nodes (Nd st i cs)) /\ nid K = k) \/ contains (Nd st i cs) s k).
  { intros K HK Hk Hc. unfold cur' in Hc. destruct st.
    - inversion Hc; subst. right. exists (Nd true s cs). split; [apply nodes_self|]. repeat split; auto. exists K. auto.
    - left. split; auto. exists K. auto. }
  apply in_app_or in Hin as [Hin|Hin].
  { destruct cur' as [c|] eqn:Ec; [|destruct Hin]. destruct Hin as [<-|[]]. cbn in Hw. inversion Hw; subst.
    apply (Hself (Nd st k cs)); auto. apply nodes_self. }
  apply in_app_or in Hin as [Hin|Hin].
  { destruct Hin as [<-|[]]. discriminate. }
  apply in_app_or in Hin as [Hin|Hin].
  - apply in_flat_map in Hin as ([inli c] & Hc & Hin). destruct Hin as [<-|Hin]; [discriminate|].
    destruct inli.
    + destruct st; [destruct Hin as [<-|[]]; discriminate|]. destruct (nstmt c); [|destruct Hin].
      destruct cur; [|destruct Hin]. destruct Hin as [<-|[]]. discriminate.
    + destruct cur' as [c0|] eqn:Ec; [|destruct Hin]. destruct Hin as [<-|[]]. cbn in Hw. inversion Hw; subst.
      apply (Hself c); auto. cbn. right. fold go_nodes. apply in_go_nodes. exists (false, c). split; auto. apply nodes_self.
  - apply in_go_visit in Hin as ([inli c] & Hc & Hin). cbn [snd] in Hin.
    destruct (wf_child _ _ _ _ Hwf Hc) as [Hns Hwc]. cbn [fst snd] in *.
    destruct (IH (inli, c) Hc cur' w k s Hwc Hin Hw) as [[Hcs (K & HK & Hk)]|Hcon].
    + apply (Hself K); auto. cbn. right. fold go_nodes. apply in_go_nodes. exists (inli, c). auto.
    + right. destruct Hcon as (S & HS & Hst & Hid & K & HK & Hk). exists S. split.
      * cbn. right. fold go_nodes. apply in_go_nodes. exists (inli, c). auto.
      * repeat split; auto. exists K. auto.
Qed.

Lemma cs_lookup_written ws : forall k acc s, cs_lookup ws k acc = Some s ->
  acc = Some s \/ exists w, In w ws /\ cs_write w = Some (k, s).
Proof.
  induction ws as [|w ws IH]; intros k acc s H; cbn in H; auto.
  assert (Hrest : forall acc', cs_lookup ws k acc' = Some s -> acc' = Some s \/ exists w', In w' (w :: ws) /\ cs_write w' = Some (k, s)).
  { intros acc' H'. destruct (IH _ _ _ H') as [Ha|(w' & Hw & Hc)]; auto. right. exists w'. split; [now right|auto]. }
  destruct w as [j|j v|j v|j v|j v]; try (apply Hrest; exact H).
  - destruct (N.eqb j k) eqn:E; [|apply Hrest; exact H].
    apply N.eqb_eq in E; subst. destruct (Hrest _ H) as [Ha|Hx]; auto.
    destruct acc; auto. inversion Ha; subst. right. exists (WCsDefault k s). split; [now left|reflexivity].
  - destruct (N.eqb j k) eqn:E; [|apply Hrest; exact H].
    apply N.eqb_eq in E; subst. destruct (Hrest _ H) as [Ha|Hx]; auto.
    inversion Ha; subst. right. exists (WCsSet k s). split; [now left|reflexivity].
Qed.

Theorem containing_stmt_contains t k s : wf t -> cs_lookup (visit None t) k None = Some s -> contains t s k.
Proof.
  intros Hwf H. destruct (cs_lookup_written _ _ _ _ H) as [Ha|(w & Hw & Hc)]; [discriminate|].
  destruct (cs_writes_ok t None w k s Hwf Hw Hc) as [[Hx _]|Hcon]; [discriminate|exact Hcon].
Qed.

(* ---- parent statement: p properly contains k, with no node between them that is a statement *)
Definition ps_write (w : write) : option (N * N) := match w with WPs k p => Some (k, p) | _ => None end.
Lemma ps_lookup_written ws : forall k acc p, ps_lookup ws k acc = Some p ->
  acc = Some p \/ exists w, In w ws /\ ps_write w = Some (k, p).
Proof.
  induction ws as [|w ws IH]; intros k acc p H; cbn in H; auto.
  assert (Hrest : forall acc', ps_lookup ws k acc' = Some p -> acc' = Some p \/ exists w', In w' (w :: ws) /\ ps_write w' = Some (k, p)).
  { intros acc' H'. destruct (IH _ _ _ H') as [Ha|(w' & Hw & Hc)]; auto. right. exists w'. split; [now right|auto]. }
  destruct w as [j|j v|j v|j v|j v]; try (apply Hrest; exact H).
  destruct (N.eqb j k) eqn:E; [|apply Hrest; exact H].
  apply N.eqb_eq in E; subst. destruct (Hrest _ H) as [Ha|Hx]; auto.
  inversion Ha; subst. right. exists (WPs k p). split; [now left|reflexivity].
Qed.

(* weaker, easily stated consequence used by the property file: the parent statement is a statement of the tree that
   properly contains the node (k is the id of a node of one of its children's sub-trees), or the inherited one *)
Definition properly_contains (t : node) (p k : N) : Prop :=
  exists P, In P (nodes t) /\ nstmt P = true /\ nid P = p /\
    exists bc K, In bc (nchildren P) /\ In K (nodes (snd bc)) /\ nid K = k.

Lemma ps_write_key_in : forall c cu w k p, In w (visit cu c) -> ps_write w = Some (k, p) ->
  exists K, In K (nodes c) /\ nid K = k.
Proof.
  intros c. induction c as [st i cs IHc] using node_ind2. intros cu w k p Hin Hw. rewrite Forall_forall in IHc.
  cbn [visit] in Hin. fold (go_visit (if st then Some i else cu)) in Hin.
  apply in_app_or in Hin as [Hin|Hin]; [destruct (if st then Some i else cu); [destruct Hin as [<-|[]]; discriminate|destruct Hin]|].
  apply in_app_or in Hin as [Hin|Hin]; [destruct Hin as [<-|[]]; discriminate|].
  apply in_app_or in Hin as [Hin|Hin].
  - apply in_flat_map in Hin as ([b d] & Hd & Hin). destruct Hin as [<-|Hin]; [discriminate|].
    assert (Hk : nid d = k).
    { destruct b.
      - destruct st; [destruct Hin as [<-|[]]; cbn in Hw; congruence|].
        destruct (nstmt d); [|destruct Hin]. destruct cu; [|destruct Hin]. destruct Hin as [<-|[]]. cbn in Hw. congruence.
      - destruct (if st then Some i else cu); [|destruct Hin]. destruct Hin as [<-|[]]. discriminate. }
    exists d. split; auto. cbn. right. fold go_nodes. apply in_go_nodes. exists (b, d). split; auto. apply nodes_self.
  - apply in_go_visit in Hin as ([b d] & Hd & Hin). destruct (IHc (b, d) Hd _ w k p Hin Hw) as (K & HK & Hk).
    exists K. split; auto. cbn. right. fold go_nodes. apply in_go_nodes. exists (b, d). auto.
Qed.

Lemma ps_writes_ok : forall n cur w k p, In w (visit cur n) -> ps_write w = Some (k, p) ->
  cur = Some p \/ properly_contains n p k.
Proof.
  intros n. induction n as [st i cs IH] using node_ind2. intros cur w k p Hin Hw.
  rewrite Forall_forall in IH. cbn [visit] in Hin. fold (go_visit (if st then Some i else cur)) in Hin.
  set (cur' := if st then Some i else cur) in *.
  apply in_app_or in Hin as [Hin|Hin].
  { destruct cur'; [|destruct Hin]. destruct Hin as [<-|[]]. discriminate. }
  apply in_app_or in Hin as [Hin|Hin].
  { destruct Hin as [<-|[]]. discriminate. }
  apply in_app_or in Hin as [Hin|Hin].
  - apply in_flat_map in Hin as ([inli c] & Hc & Hin). destruct Hin as [<-|Hin]; [discriminate|].
    destruct inli.
    + destruct st.
      * destruct Hin as [<-|[]]. cbn in Hw. inversion Hw; subst. right.
        exists (Nd true p cs). split; [apply nodes_self|]. repeat split; auto. exists (true, c), c. repeat split; auto. apply nodes_self.
      * destruct (nstmt c) eqn:Ec; [|destruct Hin]. destruct cur as [q|]; [|destruct Hin]. destruct Hin as [<-|[]].
        cbn in Hw. inversion Hw; subst. left. reflexivity.
    + destruct cur'; [|destruct Hin]. destruct Hin as [<-|[]]. discriminate.
  - apply in_go_visit in Hin as ([inli c] & Hc & Hin). cbn [snd] in Hin.
    destruct (IH (inli, c) Hc cur' w k p Hin Hw) as [Hcs|Hcon].
    + unfold cur' in *. clear cur'. destruct st; [|left; exact Hcs].
      assert (Hip : i = p) by congruence. subst i. right. exists (Nd true p cs). split; [apply nodes_self|]. repeat split; auto.
      destruct (ps_write_key_in c _ w k p Hin Hw) as (K & HK & Hk). exists (inli, c), K. repeat split; auto.
    + right. destruct Hcon as (P & HP & Hst & Hid & bc & K & Hbc & HK & Hk). exists P. split.
      * cbn. right. fold go_nodes. apply in_go_nodes. exists (inli, c). auto.
      * repeat split; auto. exists bc, K. auto.
Qed.

Theorem parent_stmt_contains t k p : ps_lookup (visit None t) k None = Some p -> properly_contains t p k.
Proof.
  intros H. destruct (ps_lookup_written _ _ _ _ H) as [Ha|(w & Hw & Hc)]; [discriminate|].
  destruct (ps_writes_ok t None w k p Hw Hc) as [Hx|Hcon]; [discriminate|exact Hcon].
Qed.

(* ---- every node of the tree is registered under its id *)
Theorem every_node_registered : forall t cur n, In n (nodes t) -> In (WNode (nid n)) (visit cur t).
Proof.
  intros t. induction t as [st i cs IH] using node_ind2. intros cur n Hn. rewrite Forall_forall in IH.
  cbn [visit]. fold (go_visit (if st then Some i else cur)). cbn in Hn. destruct Hn as [<-|Hn].
  - apply in_or_app. right. apply in_or_app. left. now left.
  - fold go_nodes in Hn. apply in_go_nodes in Hn as (bc & Hbc & Hn).
    apply in_or_app. right. apply in_or_app. right. apply in_or_app. right. apply in_go_visit. exists bc. split; auto.
Qed.

(* ---- every node at or below a statement gets a containing-statement entry *)
Lemma cs_lookup_some ws : forall k acc, acc <> None -> cs_lookup ws k acc <> None.
Proof.
  induction ws as [|w ws IH]; intros k acc Ha; cbn; auto.
  destruct w; auto; destruct (N.eqb k0 k); auto; apply IH; try discriminate. destruct acc; [discriminate|contradiction].
Qed.
Lemma cs_lookup_app ws1 ws2 k acc : cs_lookup (ws1 ++ ws2) k acc = cs_lookup ws2 k (cs_lookup ws1 k acc).
Proof. revert acc. induction ws1 as [|w ws1 IH]; intros acc; cbn; auto. destruct w; auto. Qed.
